"""C06 - SCC captions appear and disappear at the frames their commands are sent.

Inputs: timed pop-on programs: loads `ENM RCL (PAC text)+` displayed by EOC; the displayed caption is cleared by an
EDM on the same line (0-6 filler words before the next EOC), by an EDM on a line of its own, by the next EOC, by a
bare EOC, or never; drop / non-drop timecodes; codes doubled or single; inter-line gaps 0..6, 30, 300 frames;
offsets 0, 0.5, 1, 3599 s, negative, fractional and an offset larger than the timecodes (see res["rule"] for the
full list of shapes); a third of the programs are read by a reader OBJECT that has already read other files with other
offsets (incl. 0), an offset of 0 passed explicitly or left to the default.
Observation (public API): reader.read(stream, offset=o) -> [(start, end)] as exact rationals, or the exception.
Correspondence: (a) the full extracted decoder model (coq/model/SccDecoder.v, request 600) on the same lines,
(b) the event-level model (coq/model/SccPopon.v, request 604) on the display events, both within 2^-10 us.
Property oracle: Coq ok_c06 (coq/spec/SpecSccTime.v) on the implementation's observation and the display events
(timecode, number of preceding code words) computed by the generator.
"""
from fractions import Fraction

import impl
import sccgen as g
from wire import Ok, Err, oracle_batch, oracle1, r_result, r_q
from pycaption import SCCReader

TABLES = ("GenScc.v",)
TOL = Fraction(1, 1024)
FILL = "0000"          # a code word that is neither a command nor a character pair: only consumes a frame
WORDS = ["hi", "ok", "yes", "hello", "world", "caption", "one two", "abc def", "timing", "x"]


def exact(x):
    if isinstance(x, int):
        return Fraction(x)
    return Fraction(*x.as_integer_ratio())


BASES = [0, 1, 30 * 59, 30 * 3600, 30 * 3600 + 17, 30 * 7322, 30 * (10 * 3600 + 59 * 60 + 58), 30 * (23 * 3600 + 45 * 60),
         30 * (12 * 3600 + 34 * 60 + 56) + 29]


def flash_probe(rng):
    """one caption whose start is floored to 0 by the offset and whose end falls D microseconds later, D uniform in
    30..70 ms: pins the 0.05 s bound of the flash rule (whole-frame durations only probe 33.4 and 66.7 ms)"""
    drop = rng.random() < 0.5
    ws = [g.ENM, g.RCL, g.pac(15)] + g.text_words("flash") + [g.EOC, FILL, FILL, g.EDM]
    k_eoc, k_edm = len(ws) - 4, len(ws) - 1
    rate = Fraction(1) if drop else Fraction(1001, 1000)
    t_edm = Fraction(k_edm, 30) * rate * 1000000
    d = rng.choice([rng.uniform(30000, 70000), rng.uniform(49000, 51000)])
    if abs(d - 50000) < 0.01:
        d = 50001.0
    offset = float((t_edm - Fraction(d)) / 1000000)
    return {"drop": drop, "doubled": "False", "offset": offset, "lines": [(0, ws)],
            "events": [(0, 0, k_eoc), (1, 0, k_edm)]}


def gen_program(rng):
    """-> dict(drop, doubled, offset, lines=[(frame, words)], events=[(kind, line_index, k)], gaps=[frames])
    words are built with tags and then laid out on lines, so a load may be split over two lines"""
    if rng.random() < 0.05:
        return flash_probe(rng)
    drop = rng.random() < 0.5
    doubled = rng.choice([True, True, False, "mixed"])
    dd = (lambda: rng.random() < 0.5) if doubled == "mixed" else (lambda: bool(doubled))
    base = rng.choice(BASES)
    r = rng.random()
    if r < 0.35:
        offset = 0
    elif r < 0.55:
        offset = rng.choice([1, 0.5, -2, -0.75, 7])
    elif r < 0.70 and base >= 30 * 3600:
        offset = rng.choice([3599, 3599.5, 1800])
    elif r < 0.90:
        offset = rng.uniform(0, 2) if base < 60 else rng.uniform(-3, 3)      # random fractional offsets
    elif r < 0.94:
        offset = "big"
    else:
        offset = 0
    ncap = rng.choice([1, 2, 2, 3, 3, 4, 5])
    lines = []            # (frame, [(word, tag)])
    nwriter = 0
    frame = base
    shown = False
    gaps = []

    def code(w, tag=None):
        out = [(w, tag)]
        if dd():
            out.append((w, None))
        return out

    for ci in range(ncap):
        ws = []
        # "writer" (wave 7) = the line pycaption's own SCCWriter produces: preamble codes in the indent-0 form and EDM
        # directly before the EOC in every load line (theorem C06_popon_times_inline)
        how = rng.choice(["inline", "inline", "edm-first", "none", "own-line", "own-line", "bare-eoc", "after-eoc",
                          "writer", "writer"])
        if how == "edm-first" and shown:
            ws += code(g.EDM, 1)                       # the common real-file layout: 942c 942c 94ae 94ae 9420 ...
            shown = False
        ws += code(g.ENM) + code(g.RCL)
        nrows = rng.choice([1, 1, 2])
        r0 = rng.randint(1, 14)
        rows = [r0, r0 + 1][:nrows] if rng.random() < 0.8 else sorted(rng.sample(range(1, 16), nrows))
        for row in rows:
            unit = [(g.pac_indent0(row, rng.random() < 0.2) if how == "writer" else g.pac(row, rng.choice([0, 0, 4, 8])), None)]
            ws += unit * 2 if dd() else unit
            ws += [(w, None) for w in g.text_words(rng.choice(WORDS))]
        if rng.random() < 0.1:
            ws += [(FILL, None)] * rng.randint(60, 95)   # a long line: the EOC has 71+ words before it (ff + k >= 100)
        if how == "inline" and shown:
            ws += code(g.EDM, 1)
            n = rng.choice([0, 0, 1, 2, 3, 4, 5, 6])
            ws += [(FILL, None)] * n
            shown = False
        elif how == "writer":
            nwriter += 1
            ws += code(g.EDM, 1)                        # always, also with nothing displayed (no effect then)
            shown = False
        elif how == "inline" and rng.random() < 0.3:
            ws += code(g.EDM, 1)                        # EDM with nothing displayed: no effect
        ws += code(g.EOC, 0)
        shown = True
        if how == "after-eoc":
            ws += [(FILL, None)] * rng.choice([0, 1, 1, 2, 3, 6, 20])     # 1-2 frames: a flash
            ws += code(g.EDM, 1)
            shown = False
        # lay the words out on one or two lines
        cut = rng.randint(3, len(ws) - 1) if (rng.random() < 0.15 and len(ws) > 6) else None
        parts = [ws] if cut is None else [ws[:cut], ws[cut:]]
        for part in parts:
            lines.append((frame, part))
            frame += len(part) + rng.choice([0, 0, 1, 2, 3, 4, 5, 6, 30, 300])
        if how == "own-line" and shown:
            part = code(g.EDM, 1)
            lines.append((frame, part))
            shown = False
            frame += len(part) + rng.choice([0, 1, 2, 3, 4, 5, 6, 30, 300])
        elif how == "bare-eoc" and shown:
            # an EOC with nothing loaded clears the screen; at least one filler separates it from the previous EOC
            part = [(FILL, None)] * rng.choice([1, 2, 3]) + code(g.EOC, 1)
            lines.append((frame, part))
            shown = False
            frame += len(part) + rng.choice([0, 1, 2, 5, 6, 30])
    events = [(tag, li, k) for li, (_, part) in enumerate(lines) for k, (_, tag) in enumerate(part) if tag is not None]
    if offset == "big":
        offset = (frame // 30) + rng.choice([1, 50, 4000])
    return {"drop": drop, "doubled": str(doubled), "offset": offset,
            "lines": [(f, [w for w, _ in part]) for f, part in lines], "events": events, "writer_loads": nwriter}


def tc_fields(frame, drop):
    s = frame // 30
    return [s // 3600, (s // 60) % 60, s % 60, drop, frame % 30]


def render(p):
    return g.doc([(g.timecode(f, p["drop"]), ws) for f, ws in p["lines"]])


def wire_lines(p):
    return [[g.timecode(f, p["drop"]), [int(w, 16) for w in ws]] for f, ws in p["lines"]]


def wire_events(p):
    return [[kind, tc_fields(p["lines"][li][0], p["drop"]), k] for kind, li, k in p["events"]]


def observe(stream, offset, history=None, default_offset=False):
    """history = [(stream, offset), ...]: earlier reads on the SAME reader object (whatever they return or raise);
    default_offset: the offset (0) is left to the default of read()"""
    reader = SCCReader()
    for hs, hoff in history or ():
        impl.call(lambda: reader.read(hs, offset=hoff))
    kw = {} if default_offset else {"offset": offset}
    r = impl.call(lambda: reader.read(stream, **kw))
    if isinstance(r, Err):
        return r
    return Ok([[exact(c.start), exact(c.end)] for c in r.v.get_captions("en-US")])


def dec_spans(x):
    return r_result(x, lambda l: [[r_q(a), r_q(b)] for a, b in l])


def dec_read(x):
    if x[0] == 0:
        return Ok([[r_q(c[0]), r_q(c[1])] for c in x[1]])
    if x[0] == 2:
        return Err(4)
    return Err(x[1])


def close(a, b):
    if isinstance(a, Err) or isinstance(b, Err):
        return a == b
    return len(a.v) == len(b.v) and all(abs(x[0] - y[0]) <= TOL and abs(x[1] - y[1]) <= TOL for x, y in zip(a.v, b.v))


def screens(spans):
    out = []
    for s in spans:
        if not out or out[-1] != s:
            out.append(s)
    return out


FRAME_ND = Fraction(1001000, 30)


def run(ctx):
    rng = ctx.rng
    res = {"evaluations": 0, "nontrivial": set(), "violations": [], "disagreements": [], "streams": 2, "notes": []}
    dist = {"drop": 0, "non_drop": 0, "doubled": {}, "offset": {}, "captions": {}, "outcome": {}, "clear_to_show_gap_frames": {},
            "end_zero_sentinel_programs": 0, "long_lines_72_words": 0, "two_digit_hours": 0, "loads_split_over_lines": 0,
            "gap_of_exactly_five_nd_frames_not_compared_with_model": 0, "durations_within_10ms_of_flash_bound": 0}
    res["distribution"] = dist
    progs = [gen_program(rng) for _ in range(ctx.n(1500, 40000))]
    streams = [render(p) for p in progs]
    # reader-reuse histories: a third of the programs are read by a reader object that has already read 1-2 files with
    # OTHER offsets (non-zero as well as 0); an offset of 0 is passed explicitly or left to the default. The expectation
    # depends on this read's own offset only.
    dist["history"] = {"none": 0, "earlier_reads": 0, "earlier_nonzero_then_zero": 0, "offset_left_to_default": 0}
    for i, p in enumerate(progs):
        p["history"] = None
        p["default_offset"] = p["offset"] == 0 and rng.random() < 0.5
        dist["history"]["offset_left_to_default"] += p["default_offset"]
        if rng.random() < 0.33:
            p["history"] = [[streams[rng.randrange(len(streams))] if rng.random() < 0.6 else streams[i],
                             rng.choice([1, 2, 0.5, 30, 3599, -1, 0, rng.randint(1, 100)])]
                            for _ in range(rng.choice([1, 1, 2]))]
            dist["history"]["earlier_reads"] += len(p["history"])
            dist["history"]["earlier_nonzero_then_zero"] += p["offset"] == 0 and p["history"][-1][1] != 0
        else:
            dist["history"]["none"] += 1
    obs = [observe(s, p["offset"], p["history"], p["default_offset"]) for s, p in zip(streams, progs)]
    reqs = []
    for p, o in zip(progs, obs):
        off_us = exact(p["offset"]) * 1000000
        reqs.append((600, [off_us, wire_lines(p)]))
        reqs.append((601, [off_us, wire_events(p), o]))
        reqs.append((604, [off_us, wire_events(p)]))
    ans = oracle_batch(reqs)
    for i, (p, s, o) in enumerate(zip(progs, streams, obs)):
        res["evaluations"] += 1
        full = dec_read(ans[3 * i])
        okr = ans[3 * i + 1]
        evm = dec_spans(ans[3 * i + 2])
        ok = okr[0] == 1
        expected = dec_spans(okr[1])
        instants = [r_q(x) for x in okr[2]]
        dist["drop" if p["drop"] else "non_drop"] += 1
        dist["doubled"][p["doubled"]] = dist["doubled"].get(p["doubled"], 0) + 1
        off = p["offset"]
        ok_key = ("beyond-timecodes" if off > 3600 else "negative" if off < 0 else "zero" if off == 0 else
                  "whole-seconds" if off == int(off) else "fractional")
        dist["offset"][ok_key] = dist["offset"].get(ok_key, 0) + 1
        dist["long_lines_72_words"] += any(len(ws) >= 72 for _, ws in p["lines"])
        dist["two_digit_hours"] += any(f >= 30 * 36000 for f, _ in p["lines"])
        dist["loads_split_over_lines"] += sum(1 for _, ws in p["lines"] if g.ENM not in ws[:3] and g.EOC in ws and g.RCL not in ws)
        oc = "ok" if isinstance(o, Ok) else impl.ERR_NAMES.get(o.code, str(o.code))
        dist["outcome"][oc] = dist["outcome"].get(oc, 0) + 1
        nshow = sum(1 for e in p["events"] if e[0] == 0)
        dist["captions"][nshow] = dist["captions"].get(nshow, 0) + 1
        dist["writer_style_load_lines"] = dist.get("writer_style_load_lines", 0) + p.get("writer_loads", 0)
        # gaps between a clear and the next show (the five-frame rule), and durations near the flash bound
        five = False
        for (e1, t1), (e2, t2) in zip(zip(p["events"], instants), list(zip(p["events"], instants))[1:]):
            if e1[0] == 1 and e2[0] == 0:
                gf = (t2 - t1) / FRAME_ND
                key = str(int(round(float(gf)))) if gf < 12 else "12+"
                dist["clear_to_show_gap_frames"][key] = dist["clear_to_show_gap_frames"].get(key, 0) + 1
                if abs((t2 - t1) - 5 * FRAME_ND) < 2:
                    five = True
            if e1[0] == 0 and abs((t2 - t1) - 50000) < 10000:
                dist["durations_within_10ms_of_flash_bound"] += 1
        desc = {"drop": p["drop"], "doubled": p["doubled"], "offset": p["offset"],
                "offsets_of_earlier_reads_on_the_reader": [h[1] for h in p["history"] or []],
                "lines": [[g.timecode(f, p["drop"]), " ".join(ws)] for f, ws in p["lines"]],
                "events": wire_events(p)}
        oscreens = Ok(screens(o.v)) if isinstance(o, Ok) else o
        fscreens = Ok(screens(full.v)) if isinstance(full, Ok) else full
        if nshow >= 2 and (p["offset"] != 0 or p["drop"] or any(e[0] == 1 for e in p["events"])):
            res["nontrivial"].add(s + repr(p["offset"]))
        if not ok:
            # defect #20 (known): an END instant floored to 0 by the offset is taken for "not ended yet". It is this
            # finding only if (i) the implementation did exactly what the sentinel predicts (= the faithful decoder model)
            # and (ii) every screen that differs from the expectation is one whose expected end is 0
            sentinel = False
            if isinstance(expected, Ok) and isinstance(o, Ok) and close(fscreens, oscreens):
                near = lambda x, y: abs(x[0] - y[0]) <= TOL and abs(x[1] - y[1]) <= TOL
                unexpected = [b for b in o.v if not any(near(a, b) for a in expected.v)]
                missing = [a for a in expected.v if not any(near(a, b) for b in o.v)]
                sentinel = bool(unexpected or missing) and all(a[1] == 0 for a in missing) and \
                    all(any(a[1] == 0 and abs(a[0] - b[0]) <= TOL for a in expected.v) for b in unexpected)
            if sentinel:
                dist["end_zero_sentinel_programs"] += 1
            res["violations"].append({
                "kind": "end-zero-sentinel" if sentinel else "timing-wrong", "replay": "program",
                "what": ("an end instant floored to 0 by the offset is taken for 'not ended yet': the caption gets another "
                         "end (4 s default / next start)" if sentinel else
                         "caption (start, end) differ from the instants at which EOC / EDM were transmitted"),
                "input": desc, "stream": s, "offset": p["offset"], "events": wire_events(p),
                "history": p["history"], "default_offset": p["default_offset"],
                "impl_obs": o.v if isinstance(o, Ok) else repr(o),
                "expected": expected.v if isinstance(expected, Ok) else repr(expected)})
            continue
        if five:
            # the statement leaves a gap of exactly five non-drop frames to either reading: no comparison with the models
            dist["gap_of_exactly_five_nd_frames_not_compared_with_model"] += 1
            continue
        if not close(fscreens, oscreens):
            res["disagreements"].append({"which": "full decoder model (screens)", "input": desc, "impl": repr(oscreens)[:400],
                                         "model": repr(fscreens)[:400]})
        if not close(evm, oscreens) and not (isinstance(evm, Ok) and isinstance(oscreens, Ok)
                                             and close(Ok(screens(evm.v)), oscreens)):
            res["disagreements"].append({"which": "event-level model", "input": desc, "impl": repr(oscreens)[:400],
                                         "model": repr(evm)[:400]})
    res["rule"] = ("timed pop-on programs, 1-5 loads of 1-2 rows; drop / non-drop; codes doubled / single / mixed per code; "
                   "EDM inline before the EOC (0-6 fillers) / first on the load's line / after the EOC on the same line "
                   "(0-20 fillers, incl. flashes) / on its own line / absent / bare EOC; loads split over two lines (15%); "
                   "10% lines with 60-95 filler words (three-digit frame field); inter-line gaps {0..6, 30, 300} frames; "
                   "start timecodes {0, 1 frame, 59 s, 1 h, 1 h + 17 f, 2:02:02, 10:59:58, 12:34:56:29, 23:45:00}; offsets "
                   "0, {1, 0.5, -2, -0.75, 7}, {3599, 3599.5, 1800}, uniform random in [0,2] / [-3,3], beyond the last "
                   "timecode; a third of the programs read by a reader object that has already read 1-2 files with other "
                   "offsets (incl. 0), offset 0 passed explicitly or left to the default. Non-trivial: at least two captions and (offset != 0 or drop-frame or an explicit clear). "
                   "Distinct (stream, offset).")
    res["samples"] = [{"drop": p["drop"], "offset": p["offset"], "stream": s} for p, s in list(zip(progs, streams))[:2]]
    res["clauses"] = {
        "theorem": ["get_time: string surgery + parse = ((3600h+60m+s)+(ff+k)/30) * rate * 10^6 - offset, floored at 0, "
                    "for all well-formed timecodes, frame counts, offsets",
                    "popon_times: for whole programs over the full item domain, one load per line, EDM lines anywhere (and every "
                    "re-layout of these lines that keeps the instant of each word: popon_times_layout / _cuts / _merged / _text), "
                    "positive instants: spans = the statement's spans of the EOC / EDM instants (composed with "
                    "get_time_exact for rendered timecodes: C06_read_is_statement_spans); start <= end and ordered "
                    "starts of what read returns there",
                    "frame lattice and threshold slack; event-level model = statement spans for every event list with "
                    "positive instants; flash never returned; 4 s default"],
        "correspondence_only": ["stream layouts other than one load per line (EDM on the load's line, split loads, bare "
                                "EOC): full decoder model vs implementation at the level of screens + the oracle",
                                "binary64 rounding (exact model; oracle tolerance 0.5 us, model tolerance 2^-10 us)",
                                "text-level tokenisation of a line"]}
    res["notes"].append("oracle ok_c06_gap (per gap): tolerance 1/2 us, screens on both sides; a gap of exactly five non-drop frames "
                        "may be closed or not (statement: 'shorter than five frames')")
    return res


def replay(ctx, rec):
    o = observe(rec["stream"], rec["offset"], rec.get("history"), rec.get("default_offset", False))
    off_us = exact(rec["offset"]) * 1000000
    okr = oracle1(601, [off_us, rec["events"], o])
    return okr[0] != 1, repr(o)[:600]
