"""C06 - SCC captions appear and disappear at the frames their commands are sent.

Inputs: timed pop-on programs: loads `ENM RCL (PAC text)+` displayed by EOC; the displayed caption is cleared by an
EDM on the same line (0-6 filler words before the next EOC), by an EDM on a line of its own, by the next EOC, by a
bare EOC, or never; drop / non-drop timecodes; codes doubled or single; inter-line gaps 0..6, 30, 300 frames;
offsets 0, 0.5, 1, 3599 s and an offset larger than the timecodes.
Observation (public API): SCCReader().read(stream, offset=o) -> [(start, end)] as exact rationals, or the exception.
Correspondence: (a) the full extracted decoder model (coq/model/SccDecoder.v, request 600) on the same lines,
(b) the event-level model (coq/model/SccPopon.v, request 604) on the display events, both within 2^-10 us.
Property oracle: Coq ok_c06 (coq/spec/SpecSccTime.v) on the implementation's observation and the display events
(timecode, number of preceding code words) computed by the generator.
"""
from fractions import Fraction

import impl
import sccgen as g
from wire import Ok, Err, oracle_batch, oracle1, r_result, r_q
from pycaption import SCCReader

TABLES = ("GenScc.v",)
TOL = Fraction(1, 1024)
FILL = "0000"          # a code word that is neither a command nor a character pair: only consumes a frame
WORDS = ["hi", "ok", "yes", "hello", "world", "caption", "one two", "abc def", "timing", "x"]


def exact(x):
    if isinstance(x, int):
        return Fraction(x)
    return Fraction(*x.as_integer_ratio())


def gen_program(rng):
    """-> dict(drop, doubled, offset, lines=[(frame, words)], events=[(kind, line_index, k)])"""
    drop = rng.random() < 0.5
    doubled = rng.random() < 0.6
    base = rng.choice([0, 1, 30 * 59, 30 * 3600, 30 * 3600 + 17, 30 * 7322])
    offset = rng.choice([0, 0, 0, 0, 1, 1, 0.5, 3599, 3599]) if base >= 30 * 3600 else rng.choice([0, 0, 0, 1, 0.5])
    if rng.random() < 0.04:
        offset = "big"
    ncap = rng.choice([1, 2, 2, 3, 3, 4, 5])
    lines = []
    events = []
    frame = base
    shown = False
    flashy = rng.random() < 0.08
    for ci in range(ncap):
        ws = []
        ws += g.dbl([g.ENM, g.RCL], doubled)
        nrows = rng.choice([1, 1, 2])
        r0 = rng.randint(1, 14)
        rows = [r0, r0 + 1][:nrows] if rng.random() < 0.8 else sorted(rng.sample(range(1, 16), nrows))
        for r in rows:
            ws += g.dbl([g.pac(r, rng.choice([0, 0, 4, 8]))], doubled) + g.text_words(rng.choice(WORDS))
        how = rng.choice(["inline", "inline", "none", "own-line", "own-line", "bare-eoc"])
        li = len(lines)
        if how == "inline" and shown:
            # EDM, 0-6 fillers, EOC on the same line: the gap is the number of code words between them
            events.append((1, li, len(ws)))
            ws += g.dbl([g.EDM], doubled)
            ws += [FILL] * rng.choice([0, 0, 1, 2, 3, 4, 5, 6])
        elif how == "inline" and rng.random() < 0.3:
            events.append((1, li, len(ws)))          # EDM with nothing displayed: no effect
            ws += g.dbl([g.EDM], doubled)
        events.append((0, li, len(ws)))
        ws += g.dbl([g.EOC], doubled)
        shown = True
        if flashy and rng.random() < 0.5:
            events.append((1, li, len(ws)))
            ws += [g.EDM]
            shown = False
        lines.append((frame, ws))
        frame += len(ws) + rng.choice([0, 1, 2, 3, 4, 5, 6, 30, 300])
        if how == "own-line" and shown:
            ws2 = g.dbl([g.EDM], doubled)
            events.append((1, len(lines), 0))
            lines.append((frame, ws2))
            shown = False
            frame += len(ws2) + rng.choice([0, 1, 2, 3, 4, 5, 6, 30, 300])
        elif how == "bare-eoc" and shown:
            # (single codes: an EOC directly after the previous line's EOC would be dropped as the second half of a
            #  doubled pair, so at least one filler word separates them)
            ws2 = [FILL] * rng.choice([0, 1, 3] if doubled else [1, 2, 3]) + g.dbl([g.EOC], doubled)
            events.append((1, len(lines), len(ws2) - (2 if doubled else 1)))
            lines.append((frame, ws2))
            shown = False
            frame += len(ws2) + rng.choice([0, 1, 2, 5, 6, 30])
    if offset == "big":
        offset = (frame // 30) + rng.choice([1, 50, 4000])
    return {"drop": drop, "doubled": doubled, "offset": offset, "lines": lines, "events": events}


def tc_fields(frame, drop):
    s = frame // 30
    return [s // 3600, (s // 60) % 60, s % 60, drop, frame % 30]


def render(p):
    return g.doc([(g.timecode(f, p["drop"]), ws) for f, ws in p["lines"]])


def wire_lines(p):
    return [[g.timecode(f, p["drop"]), [int(w, 16) for w in ws]] for f, ws in p["lines"]]


def wire_events(p):
    return [[kind, tc_fields(p["lines"][li][0], p["drop"]), k] for kind, li, k in p["events"]]


def observe(stream, offset):
    r = impl.call(lambda: SCCReader().read(stream, offset=offset))
    if isinstance(r, Err):
        return r
    return Ok([[exact(c.start), exact(c.end)] for c in r.v.get_captions("en-US")])


def dec_spans(x):
    return r_result(x, lambda l: [[r_q(a), r_q(b)] for a, b in l])


def dec_read(x):
    if x[0] == 0:
        return Ok([[r_q(c[0]), r_q(c[1])] for c in x[1]])
    if x[0] == 2:
        return Err(4)
    return Err(x[1])


def close(a, b):
    if isinstance(a, Err) or isinstance(b, Err):
        return a == b
    return len(a.v) == len(b.v) and all(abs(x[0] - y[0]) <= TOL and abs(x[1] - y[1]) <= TOL for x, y in zip(a.v, b.v))


def screens(spans):
    out = []
    for s in spans:
        if not out or out[-1] != s:
            out.append(s)
    return out


def run(ctx):
    rng = ctx.rng
    res = {"evaluations": 0, "nontrivial": set(), "violations": [], "disagreements": [], "streams": 2, "notes": []}
    dist = {"drop": 0, "non_drop": 0, "doubled": 0, "offset": {}, "captions": {}, "outcome": {}, "inline_gap_frames": {},
            "end_zero_sentinel_shape": 0}
    res["distribution"] = dist
    progs = [gen_program(rng) for _ in range(ctx.n(1500, 40000))]
    streams = [render(p) for p in progs]
    obs = [observe(s, p["offset"]) for s, p in zip(streams, progs)]
    reqs = []
    for p, o in zip(progs, obs):
        off_us = exact(p["offset"]) * 1000000
        reqs.append((600, [off_us, wire_lines(p)]))
        reqs.append((601, [off_us, wire_events(p), o]))
        reqs.append((604, [off_us, wire_events(p)]))
    ans = oracle_batch(reqs)
    for i, (p, s, o) in enumerate(zip(progs, streams, obs)):
        res["evaluations"] += 1
        full = dec_read(ans[3 * i])
        okr = ans[3 * i + 1]
        evm = dec_spans(ans[3 * i + 2])
        ok = okr[0] == 1
        expected = dec_spans(okr[1])
        instants = [r_q(x) for x in okr[2]]
        dist["drop" if p["drop"] else "non_drop"] += 1
        dist["doubled"] += 1 if p["doubled"] else 0
        ok_key = "big" if p["offset"] > 3599 else str(p["offset"])
        dist["offset"][ok_key] = dist["offset"].get(ok_key, 0) + 1
        oc = "ok" if isinstance(o, Ok) else impl.ERR_NAMES.get(o.code, str(o.code))
        dist["outcome"][oc] = dist["outcome"].get(oc, 0) + 1
        nshow = sum(1 for e in p["events"] if e[0] == 0)
        dist["captions"][nshow] = dist["captions"].get(nshow, 0) + 1
        desc = {"drop": p["drop"], "doubled": p["doubled"], "offset": p["offset"],
                "lines": [[g.timecode(f, p["drop"]), " ".join(ws)] for f, ws in p["lines"]],
                "events": wire_events(p)}
        # the shape of defect #20: an event that ends a displayed caption has its instant floored to 0
        sentinel = any(t == 0 for (e, t) in zip(p["events"], instants) if e[0] == 1) or \
            any(t == 0 for (e, t) in list(zip(p["events"], instants))[1:] if e[0] == 0)
        # ... and it is this known defect only if the implementation did exactly what the end-0 sentinel predicts
        # (= what the faithful decoder model computes); anything else on such an input is reported as timing-wrong
        sentinel = sentinel and close(full, o)
        if sentinel:
            dist["end_zero_sentinel_shape"] += 1
        if nshow >= 2 and (p["offset"] != 0 or p["drop"] or any(e[0] == 1 for e in p["events"])):
            res["nontrivial"].add(s + repr(p["offset"]))
        if not ok:
            res["violations"].append({
                "kind": "end-zero-sentinel" if sentinel else "timing-wrong", "replay": "program",
                "what": ("an end instant floored to 0 by the offset is taken for 'not ended yet': caption gets another "
                         "end (4 s default / next start)" if sentinel else
                         "caption (start, end) differ from the instants at which EOC / EDM were transmitted"),
                "input": desc, "stream": s, "offset": p["offset"], "events": wire_events(p),
                "impl_obs": o.v if isinstance(o, Ok) else repr(o),
                "expected": expected.v if isinstance(expected, Ok) else repr(expected)})
            continue
        if not close(full, o):
            res["disagreements"].append({"which": "full decoder model", "input": desc, "impl": repr(o)[:400],
                                         "model": repr(full)[:400]})
        oscreens = Ok(screens(o.v)) if isinstance(o, Ok) else o
        if not close(evm, oscreens):
            res["disagreements"].append({"which": "event-level model", "input": desc, "impl": repr(oscreens)[:400],
                                         "model": repr(evm)[:400]})
    res["rule"] = ("timed pop-on programs, 1-5 loads of 1-2 rows, drop/non-drop, doubled/single codes, EDM inline "
                   "(0-6 filler frames before the EOC) / on its own line / absent / bare EOC, inter-line gaps "
                   "{0..6, 30, 300} frames, start timecodes {0, 1 frame, 59 s, 1 h, 1 h + 17 frames, 2:02:02}, offsets "
                   "{0, 0.5, 1, 3599, beyond the last timecode}, 8% programs with a one-frame flash. Non-trivial: at "
                   "least two captions and (offset != 0 or drop-frame or an explicit clear). Distinct (stream, offset).")
    res["samples"] = [{"drop": p["drop"], "offset": p["offset"], "stream": s} for p, s in list(zip(progs, streams))[:2]]
    res["clauses"] = {
        "theorem": ["get_time: string surgery + parse = ((3600h+60m+s)+(ff+k)/30) * rate * 10^6 - offset, floored at 0, "
                    "for all well-formed timecodes, frame counts, offsets; non-drop = 1001/1000 x drop",
                    "all instants with whole-second offsets lie on the 1/3-microsecond lattice; frame gaps are <= 5 "
                    "frames or >= 6 frames, never near the joining threshold",
                    "event-level pop-on model = raw spans with gaps closed / 4 s default / flash rejection, for every "
                    "event list with positive non-decreasing instants (stash operations as in the decoder model)",
                    "stash invariants: extend keeps earlier captions' starts, order of starts, start <= end"],
        "correspondence_only": ["that the decoder turns a well-formed pop-on stream into exactly these display events "
                                "(full decoder model vs implementation on every generated stream; staged theorem)",
                                "binary64 rounding of the time arithmetic (exact model, tolerance 2^-10 us)"]}
    return res


def replay(ctx, rec):
    o = observe(rec["stream"], rec["offset"])
    off_us = exact(rec["offset"]) * 1000000
    okr = oracle1(601, [off_us, rec["events"], o])
    return okr[0] != 1, repr(o)[:600]
