"""C14 - each language's captions stay under their language, in document order.

Workers (harness/c14_worker.py) run the real code under several (PYCAPTION_DEFAULT_LANG, PYTHONHASHSEED) settings.
Streams
  A  DFXP documents (tt with/without xml:lang, 1-4 divs with/without xml:lang, attribute-name case) -> DFXPReader
  B  caption sets (1-4 languages, interleaved / coinciding / disjoint cue times) -> DFXPWriter / SinglePositioning /
     Legacy x force in {absent, '', a present language, an absent language}: divs parsed with lxml; re-read
  C  SAMI documents (class -> lang stylesheet, class / lang attribute / neither, en vs en-US prefix shapes, blanks)
  D  caption sets -> SAMIWriter: body (sync start, paragraphs) parsed with bs4+lxml; re-read with SAMIReader
  E  WebVTT lang=, SRT parts, reader lang= (SRT / WebVTT / SCC / MicroDVD)
Correspondence: observation == extracted model (coq/model/Langs.v).  Property oracle: coq/spec/SpecLangs.v ok_*.
"""
import os
import sys
import json
import subprocess

from wire import oracle_batch, Some

HERE = os.path.dirname(os.path.abspath(__file__))
WORKER = os.path.join(os.path.dirname(HERE), "c14_worker.py")
LANGS = ["en-US", "en", "fr", "de", "es", "pt-BR", "zh-Hans", "und", "it"]


def run_worker(jobs, default_lang, hashseed, repo):
    env = dict(os.environ)
    env.pop("PYCAPTION_DEFAULT_LANG", None)
    if default_lang is not None:
        env["PYCAPTION_DEFAULT_LANG"] = default_lang
    env["PYTHONHASHSEED"] = str(hashseed)
    env["VERIF_REPO"] = repo
    env["PYTHONPATH"] = repo
    inp = "\n".join(json.dumps(j) for j in jobs) + "\n"
    p = subprocess.run(["/venv/bin/python", WORKER], input=inp, capture_output=True, text=True, env=env, timeout=1500)
    lines = p.stdout.splitlines()
    if p.returncode != 0 or len(lines) != len(jobs):
        raise RuntimeError("c14 worker failed: rc=%s, %d/%d answers: %s" % (p.returncode, len(lines), len(jobs), p.stderr[-800:]))
    return [json.loads(l) for l in lines]


def opt(x):
    return None if x is None else Some(x)


# ------------------------------------------------------------------------------------------------ generators
def gen_times(rng, n, shape, k):
    """n sorted non-overlapping spans in microseconds (multiples of 1000); shape: how language k relates to others"""
    spans = []
    if shape == "coinciding":
        t = 1000000
        step = 2000000
    elif shape == "disjoint":
        t = 1000000 + k * 100000000
        step = rng.choice([1500000, 3000000])
    else:
        t = rng.randrange(0, 5000) * 1000
        step = None
    for i in range(n):
        if step is None:
            t += rng.choice([0, 1000, 500000, 1234000, 4000000]) if i else 0
            d = rng.choice([0, 1000, 700000, 2000000])
        else:
            d = rng.choice([1000000, step])
        spans.append((t, t + d))
        t = t + d + (rng.choice([0, 0, 1000, 250000]) if step is None else step - d)
        if step is None and spans[-1][0] == t and d == 0:
            t += 1000       # keep (start, end) pairs of one language distinct
    return spans


def gen_capset(rng, min_cues=1):
    nl = rng.choice([1, 2, 2, 3, 4])
    langs = rng.sample(LANGS, nl)
    shape = rng.choice(["interleaved", "interleaved", "coinciding", "disjoint"])
    cs = []
    for k, l in enumerate(langs):
        n = rng.randint(min_cues, 5)
        if rng.random() < 0.06 and (k + 1 < nl or any(c for _, c in cs)):
            n = 0                   # a language without cues (also as the first language); never all of them
        cues = [[s, e, "%s cue %d" % (l.replace("-", ""), i)] for i, (s, e) in enumerate(gen_times(rng, n, shape, k))]
        if cues and cues[0][0] >= 1000 and rng.random() < 0.12:
            # a cue ending in millisecond 0: the blank sync at 0 must still be written (last_time = 0 is not None)
            cues.insert(0, [0, rng.choice([0, 900]), "%s cue zero" % l.replace("-", "")])
        cs.append([l, cues])
    return cs, shape


def dfxp_stamp(us):
    ms = us // 1000
    return "%02d:%02d:%02d.%03d" % (ms // 3600000, ms // 60000 % 60, ms // 1000 % 60, ms % 1000)


def gen_dfxp_doc(rng):
    tt = rng.choice([None, None, "es", "en", "fr"])
    nd = rng.choice([1, 2, 2, 3, 4])
    own_pool = rng.sample(LANGS, nd)
    divs = []
    for k in range(nd):
        own = own_pool[k] if (rng.random() < 0.6 or any(d[0] is None for d in divs)) else None
        if rng.random() < 0.04:
            own = ""
        if rng.random() < 0.05 and k:
            own = divs[0][0]          # duplicate language (outside the domain; counted)
        cues = [[s, e, "d%dc%d text" % (k, i)] for i, (s, e) in enumerate(gen_times(rng, rng.randint(1, 4), "interleaved", k))]
        divs.append([own, cues])
    attr = lambda: rng.choice(["xml:lang", "xml:lang", "XML:LANG"])  # noqa: E731
    doc = ['<?xml version="1.0" encoding="utf-8"?>', '<tt xmlns="http://www.w3.org/ns/ttml"'
           + ('' if tt is None else ' %s="%s"' % (attr(), tt)) + '>', '<body>']
    for own, cues in divs:
        doc.append('<div' + ('' if own is None else ' %s="%s"' % (attr(), own)) + '>')
        for s, e, t in cues:
            doc.append('<p begin="%s" end="%s">%s</p>' % (dfxp_stamp(s), dfxp_stamp(e), t))
        doc.append('</div>')
    doc += ['</body>', '</tt>']
    return tt, divs, "\n".join(doc)


SAMI_CLASSES = [("ENCC", "en"), ("USCC", "en-US"), ("FRCC", "fr"), ("DECC", "de"), ("PTCC", "pt-BR"), ("ENGB", "en-GB")]


def gen_sami_doc(rng):
    classes = rng.sample(SAMI_CLASSES, rng.randint(1, 4))
    if rng.random() < 0.5 and ("ENCC", "en") not in classes:
        classes.append(("ENCC", "en"))
    if rng.random() < 0.5 and ("USCC", "en-US") not in classes:
        classes.append(("USCC", "en-US"))
    styles = [[c.lower(), l] for c, l in classes] + [["plain", None], ["narrow", None]]
    css = (" ".join(".%s {lang: %s;}" % (c, l) for c, l in classes)
           + " .PLAIN {color: #ffffff;} .NARROW {margin-left: 5%;}")
    ps = []
    body = []
    t = rng.randrange(0, 3000)
    seen = set()
    n_sync = rng.randint(1, 6)

    def astr_of(attrs):
        return "".join(' %s="%s"' % (a, v) for a, v in attrs)
    for si in range(n_sync):
        t += rng.choice([500, 1000, 2500])
        body.append("<SYNC start=%d>" % t)
        for pi in range(rng.randint(1, 4)):
            r = rng.random()
            c, l = rng.choice(classes)
            inline = rng.choice(["fr", "en-US", "en", "de-AT", "e", "fr", l])
            lname = rng.choice(["lang", "lang", "LANG"])
            nolang_cls = rng.choice(["NARROW", "PLAIN", "narrow", "Unknown"])
            if r < 0.35:                                  # class that declares the language
                name = rng.choice([c, c, c.lower(), c.capitalize()])
                attrs, lang = [["class", name]], l
            elif r < 0.45:                                # inline lang only, no class
                attrs, lang = [[lname, inline]], inline[:2]
            elif r < 0.52:                                # neither
                attrs, lang = [], None
            elif r < 0.58:                                # class without a language (layout / colour / unknown), nothing else
                attrs, lang = [["class", nolang_cls]], None
            elif r < 0.72:                                # class WITHOUT a language, then an inline lang: falls through
                attrs, lang = [["class", nolang_cls], [lname, inline]], inline[:2]
            elif r < 0.80:                                # inline lang, then a class without a language
                attrs, lang = [[lname, inline], ["class", nolang_cls]], inline[:2]
            elif r < 0.90:                                # class with a language, then an inline lang (same / different)
                val = rng.choice([l, inline])
                attrs, lang = [["class", c], [lname, val]], l
            else:                                         # inline lang, then a class with a language
                attrs, lang = [[lname, inline], ["class", c]], inline[:2]
            astr = astr_of(attrs)
            if not lang:
                lang = None
            blank = rng.random() < 0.1 and lang in seen
            text = "&nbsp;" if blank else "s%dp%d words" % (si, pi)
            if not blank:
                seen.add(lang)
            ps.append([attrs, t, " " if blank else text])
            body.append("<P%s>%s" % (astr, text))
        body.append("</SYNC>")
    doc = ('<SAMI><HEAD><TITLE>t</TITLE><STYLE TYPE="text/css"><!-- P {margin-left: 1pt;} %s --></STYLE></HEAD><BODY>\n%s\n'
           '</BODY></SAMI>' % (css, "\n".join(body)))
    return styles, ps, doc


# ------------------------------------------------------------------------------------------------ checks
def as_capset(langs):
    return [[l, [[c[0], c[1]] for c in cues]] for l, cues in langs]


def start_text(cs):
    return [[l, [[s, t] for s, e, t in cues]] for l, cues in cs]


class Acc:
    def __init__(self):
        self.res = {"evaluations": 0, "nontrivial": set(), "violations": [], "disagreements": [], "distribution": {},
                    "streams": 5, "notes": []}

    def count(self, k, n=1):
        d = self.res["distribution"]
        d[k] = d.get(k, 0) + n

    def viol(self, kind, what, inp, **kw):
        self.res["violations"].append(dict(kind=kind, what=what, input=inp, replay="job", **kw))

    def dis(self, stream, inp, impl, model, what=""):
        self.res["disagreements"].append({"stream": stream, "input": inp, "impl": impl, "model": model, "what": what})


def make_reqs(tag, info, default):
    """model requests of one case, from its plain-JSON abstract input"""
    if tag == "A":
        return [(1400, [default, opt(info["tt"]), [[opt(o), c] for o, c in info["pdivs"]]])]
    if tag == "B":
        return [(1403 if info["writer"] == "legacy" else 1402, [info["force"], info["cs"]])]
    if tag == "C":
        return [(1405, [default, [[c, opt(l)] for c, l in info["styles"]], info["ps"]])]
    if tag == "D":
        return [(1407, info["cs"])]
    if tag == "E":
        return [(1409, [opt(info["pick"]), info["cs"]])]
    return []


def stream_jobs(ctx, default):
    """-> list of (tag, job, model requests, info)"""
    rng = ctx.rng
    out = []
    for _ in range(ctx.n(150, 3000)):
        tt, divs, doc = gen_dfxp_doc(rng)
        pdivs = [[o, [[s, t] for s, e, t in cues]] for o, cues in divs]
        out.append(("A", {"op": "dfxp_read", "doc": doc}, None, {"tt": tt, "pdivs": pdivs}))
    for _ in range(ctx.n(150, 3000)):
        cs, shape = gen_capset(rng)
        writer = rng.choice(["main", "main", "single", "legacy"])
        langs = [l for l, _ in cs]
        force = rng.choice([None, "", rng.choice(langs), rng.choice(langs), "xx"])
        st = start_text(cs)
        out.append(("B", {"op": "dfxp_write", "writer": writer, "force": force, "cs": cs}, None,
                    {"cs": st, "force": force or "", "writer": writer, "shape": shape}))
    for _ in range(ctx.n(200, 4000)):
        styles, ps, doc = gen_sami_doc(rng)
        out.append(("C", {"op": "sami_read", "doc": doc}, None, {"styles": styles, "ps": ps}))
    for _ in range(ctx.n(200, 4000)):
        cs, shape = gen_capset(rng)
        out.append(("D", {"op": "sami_write", "cs": cs}, None, {"cs": cs, "shape": shape}))
    for _ in range(ctx.n(60, 1000)):
        cs, shape = gen_capset(rng)
        langs = [l for l, _ in cs]
        pick = rng.choice(["absent-arg", None, rng.choice(langs), langs[-1], "xx"])
        j = {"op": "vtt_write", "cs": cs}
        if pick != "absent-arg":
            j["lang"] = pick
        mp = None if pick in ("absent-arg", None) else pick
        out.append(("E", j, None, {"cs": start_text(cs), "pick": mp}))
    for _ in range(ctx.n(20, 300)):
        cs, shape = gen_capset(rng)
        out.append(("E2", {"op": "srt_write", "cs": cs}, None, {"cs": start_text(cs)}))
    docs = {"srt": "1\n00:00:01,000 --> 00:00:02,000\nx\n", "webvtt": "WEBVTT\n\n00:01.000 --> 00:02.000\nx\n",
            "scc": "Scenarist_SCC V1.0\n\n00:00:01:00\t94ae 94ae 9420 9420 9470 9470 6162 942c 942c 942f 942f\n\n"
                   "00:00:03:00\t942c 942c\n\n", "microdvd": "{0}{0}25.0\n{25}{50}x\n"}
    for fmt, doc in docs.items():
        for lang in (None, "fr", "zh-Hans", "en"):
            out.append(("E3", {"op": "reader_lang", "fmt": fmt, "doc": doc, "lang": lang}, None, {"fmt": fmt, "lang": lang}))
    out = [(tag, job, make_reqs(tag, info, default), info) for tag, job, _, info in out]
    return out + history_items(ctx, default)


def history_items(ctx, default):
    """2-3 step write histories on ONE writer object (SAMI, the three DFXP writers, WebVTT) over caption sets with
    different language lists / orders and interleaved cue times; every document is judged like a single write.
    Items of one history carry the same "hist" id; run() sends them to the worker as one `history` job."""
    rng = ctx.rng
    items = []
    fixed = [[["en-US", "fr"], ["de", "en-US", "fr"]], [["fr", "en-US"], ["en-US"], ["en-US", "fr", "de"]]]
    n = ctx.n(40, 600)
    for h in range(n + len(fixed)):
        kind = rng.choice(["sami", "sami", "dfxp", "vtt"])
        steps = rng.randint(2, 3)
        langlists = fixed[h - n] if h >= n else None
        writer = rng.choice(["main", "single", "legacy"])
        for k in range(steps if langlists is None else len(langlists)):
            cs, shape = gen_capset(rng)
            if langlists is not None:
                kind = "sami"
                cs = [[l, [[s0 + 137000 * i, e0 + 137000 * i, "%s h%d" % (l.replace("-", ""), j)] for j, (s0, e0) in
                           enumerate(gen_times(rng, 3, "interleaved", i))]] for i, l in enumerate(langlists[k])]
            elif rng.random() < 0.5:
                rng.shuffle(cs)
            if kind == "sami":
                tag, job, info = "D", {"op": "sami_write", "cs": cs}, {"cs": cs, "shape": shape}
            elif kind == "dfxp":
                force = rng.choice([None, "", cs[0][0], "xx"])
                tag, job = "B", {"op": "dfxp_write", "writer": writer, "force": force, "cs": cs}
                info = {"cs": start_text(cs), "force": force or "", "writer": writer, "shape": shape}
            else:
                pick = rng.choice([None, cs[-1][0]])
                job = {"op": "vtt_write", "cs": cs}
                if pick is not None:
                    job["lang"] = pick
                tag, info = "E", {"cs": start_text(cs), "pick": pick}
            info = dict(info, hist=h, step=k)
            items.append((tag, job, make_reqs(tag, info, default), info))
    return items


def judge(acc, cfg, items, obs, models):
    default = cfg["default"]
    oracle_reqs = []
    pending = []
    k = 0
    for (tag, job, reqs, info), o in zip(items, obs):
        m = models[k:k + len(reqs)]
        k += len(reqs)
        acc.res["evaluations"] += 1
        acc.count("stream_" + tag if info.get("hist") is None else "H_history_steps_" + job["op"])
        if info.get("step"):
            acc.count("H_later_steps_on_a_used_writer")
        inp = {"config": cfg, "job": job, "tag": tag, "info": info}
        if "err" in o:
            acc.viol("raises", "%s raised %s: %s" % (job["op"], o["err"], o.get("msg", "")), inp, stream=tag)
            continue
        if tag == "A":
            got = as_capset(o["langs"])
            pending.append((tag, inp, info, got, m[0]))
            oracle_reqs.append((1401, [default, opt(info["tt"]), [[opt(o), c] for o, c in info["pdivs"]], got]))
        elif tag == "B":
            got = [[l, cues] for l, cues in o["divs"]]
            pending.append((tag, inp, info, (o["tt"], got, o.get("reread"), o.get("reread_err")), m[0]))
            oracle_reqs.append((1404, [info["force"], info["cs"], got]))
            rr = as_capset(o["reread"]) if "reread" in o else []
            oracle_reqs.append((1401, [default, opt(o["tt"]), [[opt(l), c] for l, c in got], rr]))
        elif tag == "C":
            got = as_capset(o["langs"])
            tagged = [[t[0], t[1]] for t in m[0][1] if t[2] == 0]
            pending.append((tag, inp, info, got, m[0]))
            oracle_reqs.append((1406, [tagged, got]))
        elif tag == "D":
            body = [[s, [[c, t] for c, t in ps]] for s, ps in o["body"]]
            pending.append((tag, inp, info, (body, o["classes"], o.get("reread"), o.get("reread_err")), m[0]))
            oracle_reqs.append((1408, [start_text(info["cs"]), body]))
            tagged = [[c, [s * 1000, t]] for s, ps in body for c, t in ps if t != "&nbsp;"]
            oracle_reqs.append((1406, [tagged, as_capset(o["reread"]) if "reread" in o else []]))
        elif tag == "E":
            pending.append((tag, inp, info, o["cues"], m[0]))
            oracle_reqs.append((1410, [opt(info["pick"]), info["cs"], o["cues"]]))
        elif tag == "E2":
            want = [cues for l, cues in info["cs"]]
            if o["parts"] != want:
                acc.viol("srt-language-parts", "SRT writer output does not list the languages' cues in order", inp,
                         stream=tag, got=o["parts"], want=want)
            else:
                acc.res["nontrivial"].add(("E2", json.dumps(info["cs"])))
        elif tag == "E3":
            want = info["lang"] if info["lang"] is not None else (o["default"] if info["fmt"] == "microdvd" else "en-US")
            if [l for l, n in o["langs"]] != [want] or o["langs"][0][1] < 1:
                acc.viol("reader-lang-option", "%s reader lang=%r returned languages %r" % (info["fmt"], info["lang"], o["langs"]),
                         inp, stream=tag)
            if o["default"] != default:
                acc.res["disagreements"].append({"stream": "E3", "what": "DEFAULT_LANGUAGE_CODE %r, expected %r" % (o["default"], default)})
    oks = oracle_batch(oracle_reqs)
    j = 0
    for tag, inp, info, got, m in pending:
        if tag == "A":
            dom, ok = oks[j]
            j += 1
            if not dom:
                acc.count("A_duplicate_language_outside_domain")
            elif not ok:
                acc.viol("dfxp-div-language", "DFXPReader: languages / cue lists %r for tt=%r divs=%r" % (got, info["tt"], info["pdivs"]), inp, stream=tag)
                continue
            if got != m:
                acc.dis(tag, inp, got, m)
            elif dom:
                acc.res["nontrivial"].add(("A", json.dumps(inp["job"])))
                acc.count("A_fallback_to_tt", int(info["tt"] is not None and any(d[0] is None for d in info["pdivs"])))
                acc.count("A_fallback_to_default", int(info["tt"] is None and any(d[0] is None for d in info["pdivs"])))
        elif tag == "B":
            ok, (dom2, ok2) = oks[j], oks[j + 1]
            j += 2
            tt, divs, rr, rr_err = got
            if not ok:
                acc.viol("dfxp-write-languages", "%s writer force=%r wrote divs %r" % (info["writer"], info["force"], [d[0] for d in divs]),
                         inp, stream=tag, divs=divs)
                continue
            if rr_err == "CaptionReadNoCaptions" and not any(c for _, c in divs):
                acc.count("B_empty_document_rejected_by_reader")
            elif rr_err or not ok2:
                acc.viol("dfxp-reread-languages", "re-reading the DFXP output gives %r (%s)" % (rr, rr_err), inp, stream=tag)
                continue
            mdoc = m[1] if info["writer"] == "legacy" and m[0] == 0 else m
            mtt = mdoc[0][0] if mdoc[0] else None
            mdivs = [[d[0][0], d[1]] for d in mdoc[1]]
            if mdivs != divs or mtt != tt:
                acc.dis(tag, inp, [tt, divs], [mtt, mdivs])
            else:
                acc.res["nontrivial"].add(("B", json.dumps(inp["job"])))
                acc.count("B_force_present", int(info["force"] in [l for l, _ in info["cs"]]))
                acc.count("B_shape_" + info["shape"])
        elif tag == "C":
            ok = oks[j]
            j += 1
            if not ok:
                acc.viol("sami-read-languages", "SAMIReader: languages / cue lists %r" % (got,), inp, stream=tag)
                continue
            if got != m[0]:
                acc.dis(tag, inp, got, m[0])
            else:
                acc.res["nontrivial"].add(("C", json.dumps(inp["job"])))
                acc.count("C_prefix_shapes(en/en-US both present)", int(m[0] != m[2]))
                nolang = {c for c, l in info["styles"] if l is None} | {"unknown"}
                for attrs, _, _ in info["ps"]:
                    names = [a.lower() for a, _ in attrs]
                    if names == ["class", "lang"]:
                        acc.count("C_p_class_without_lang_then_inline_lang" if attrs[0][1].lower() in nolang
                                  else "C_p_class_with_lang_then_inline_lang")
                    elif names == ["lang", "class"]:
                        acc.count("C_p_inline_lang_then_class")
                    elif names == ["lang"]:
                        acc.count("C_p_inline_lang_only")
        elif tag == "D":
            ok, ok2 = oks[j], oks[j + 1]
            j += 2
            body, classes, rr, rr_err = got
            if not ok:
                acc.viol("sami-sync-placement", "SAMIWriter body %r" % (body,), inp, stream=tag)
                continue
            if classes != [l for l, _ in info["cs"]]:
                acc.viol("sami-language-classes", "stylesheet classes %r for languages %r" % (classes, [l for l, _ in info["cs"]]), inp, stream=tag)
                continue
            if rr_err or not ok2:
                acc.viol("sami-reread-languages", "re-reading the SAMI output gives %r (%s)" % (rr, rr_err), inp, stream=tag)
                continue
            if body != m:
                acc.dis(tag, inp, body, m)
            else:
                acc.res["nontrivial"].add(("D", json.dumps(inp["job"])))
                acc.count("D_shape_" + info["shape"])
                acc.count("D_secondary_sync_inserted", int(len(info["cs"]) > 1))
        elif tag == "E":
            ok = oks[j]
            j += 1
            if not ok:
                acc.viol("webvtt-lang-option", "WebVTTWriter lang=%r wrote cues %r" % (info["pick"], got), inp, stream=tag)
                continue
            mm = m[1] if m[0] == 0 else None
            if mm != got:
                acc.dis(tag, inp, got, m)
            else:
                acc.res["nontrivial"].add(("E", json.dumps(inp["job"])))


def configs(ctx):
    c = [{"default": "und", "env": None, "hashseed": 0}, {"default": "en-US", "env": "en-US", "hashseed": 1}]
    if ctx.thorough:
        c += [{"default": "und", "env": None, "hashseed": s} for s in (2, 3, 17, 4242)]
    return c


def run(ctx):
    acc = Acc()
    for cfg in configs(ctx):
        items = stream_jobs(ctx, cfg["default"])
        jobs, slots = [], []
        for it in items:
            h = it[3].get("hist")
            if h is None:
                slots.append((len(jobs), None))
                jobs.append(it[1])
            elif jobs and jobs[-1].get("op") == "history" and jobs[-1]["hist"] == h:
                slots.append((len(jobs) - 1, len(jobs[-1]["steps"])))
                jobs[-1]["steps"].append(it[1])
            else:
                slots.append((len(jobs), 0))
                jobs.append({"op": "history", "hist": h, "steps": [it[1]]})
        for it, (j, k) in zip(items, slots):
            if k is not None:
                it[3]["hist_jobs"] = jobs[j]["steps"][:k + 1]       # for replay: the history up to this step
        raw = run_worker(jobs, cfg["env"], cfg["hashseed"], ctx.repo)
        obs = [raw[j] if k is None else raw[j]["steps"][k] for j, k in slots]
        models = oracle_batch([r for it in items for r in it[2]])
        judge(acc, cfg, items, obs, models)
    res = acc.res
    res["distribution"]["configs"] = [(c["env"], c["hashseed"]) for c in configs(ctx)]
    res["samples"] = [json.loads(x[1]) for x in list(res["nontrivial"])[:4]]
    res["rule"] = ("distinct (stream, job) pairs whose observation equals the model and satisfies the oracle; A: DFXP "
                   "documents with 1-4 divs (own / document / default language); B: caption sets of 1-4 languages "
                   "(interleaved, coinciding, disjoint times) x 3 DFXP writers x force; C: SAMI documents with class / "
                   "lang-attribute / default languages incl. en + en-US; D: SAMI writer bodies; E: WebVTT lang=, SRT, "
                   "reader lang=")
    res["clauses"] = {
        "theorem": ["DFXP div language = own xml:lang, else the document's, else the default; languages in order of "
                    "first appearance (all documents)", "DFXP write order and force= select exactly the named language; "
                    "write-then-read returns the same languages and cue lists",
                    "SAMI read: languages in order of first appearance, no repetition; every non-blank paragraph in "
                    "exactly the list of its language (count preserved)", "prefix selection refuted (en / en-US witness)",
                    "SAMI write: body sorted whenever the first language's cues are sorted; every paragraph in a "
                    "block of its own start; earlier paragraphs never move; every language's paragraphs = its cue "
                    "sequence in order (all sorted sets, distinct language names)", "WebVTT lang= picks that language's list"],
        "correspondence_only": ["bs4 / lxml / html.parser / cssutils / soupsieve layers (documents <-> the abstract "
                                "inputs of the model)", "PYCAPTION_DEFAULT_LANG and hash seed (worker processes)",
                                "SRT / MicroDVD / SCC reader lang= labelling", "SAMI re-read language order"]}
    res["trusted_extra"] = ["harness/c14_worker.py (observation of outputs with lxml / bs4)"]
    return res


def replay(ctx, rec):
    inp = rec["input"]
    cfg, job, tag, info = inp["config"], inp["job"], inp["tag"], inp["info"]
    if info.get("hist_jobs"):
        o = run_worker([{"op": "history", "steps": info["hist_jobs"]}], cfg["env"], cfg["hashseed"], ctx.repo)[0]["steps"][-1]
    else:
        o = run_worker([job], cfg["env"], cfg["hashseed"], ctx.repo)[0]
    reqs = make_reqs(tag, info, cfg["default"])
    models = oracle_batch(reqs) if reqs else []
    acc = Acc()
    judge(acc, cfg, [(tag, job, reqs, info)], [o], models)
    v = acc.res["violations"]
    return bool(v), (v[0]["what"] if v else "the property oracle accepts the observation")[:600]
