"""C14 - each language's captions stay under their language, in document order.

Workers (harness/c14_worker.py) run the real code under several (PYCAPTION_DEFAULT_LANG, PYTHONHASHSEED) settings.
Streams
  A  DFXP documents: tt with / without / empty xml:lang, 1-5 divs with / without xml:lang, REPEATED languages, NESTED divs,
     divs without paragraphs, attribute-name case -> DFXPReader.  Oracle: grouping by effective language (every document).
  B  caption sets (1-4 languages; interleaved / coinciding / disjoint times; equal (start, end) runs; identical texts in
     several languages; styles and caption classes) -> DFXPWriter / SinglePositioning / Legacy x force; re-read.
  C  SAMI documents: class -> lang stylesheet, class / inline lang / neither in every order, en vs en-US, blank paragraphs
     (also as the FIRST paragraph of a language, and languages with blank paragraphs only).  The oracle's language tags
     come from the GENERATOR's expectation (written from the statement), not from the model.
  D  caption sets (as B, plus non-millisecond times) -> SAMIWriter: body parsed with bs4+lxml, every paragraph's class
     resolved to a language through the WRITTEN stylesheet (language-based, not name-based); re-read.
  E  WebVTT lang=, SRT parts, reader lang= (SRT / WebVTT / SCC / MicroDVD)
  F  pipelines: a READER's output (styles, classes, layouts) fed into a WRITER and read again:
     SAMI doc -> SAMIReader -> SAMIWriter / DFXP writers -> reader; DFXP doc -> DFXPReader -> SAMIWriter / DFXPWriter.
  H  2-3 step histories on ONE writer object.
  FL SAMIParser._find_lang / handle_starttag called directly (stylesheet dict + attribute lists) - oracle ok_find_lang / ok_p_langs
     round 4: streams C / F / FL also write <P> attributes WITHOUT a value (<P class>, <P lang>); the model gets "" for them
  CSS SAMIParser._css_parse on language blocks as the writer emits them - model read_styles
  M  pycaption.base.merge_concurrent_captions on caption sets with runs of equal (start, end) - oracle ok_merge
Correspondence: observation == extracted model (coq/model/Langs.v).  Property oracle: coq/spec/SpecLangs.v ok_*.
Comparisons stronger than the statement (tt xml:lang on write, blank-paragraph placement, class names, default language of
reader lang=None) are counted information or model disagreements, never violations.
"""
import os
import json
import subprocess

from wire import oracle_batch, Some

HERE = os.path.dirname(os.path.abspath(__file__))
WORKER = os.path.join(os.path.dirname(HERE), "c14_worker.py")
LANGS = ["en-US", "en", "fr", "de", "es", "pt-BR", "zh-Hans", "und", "it", "pt", "zh"]
# codes of which one CONTAINS the other (a substring / prefix test in a force= or lang= path picks the wrong one)
FAMILIES = [["en-US", "en"], ["pt-BR", "pt"], ["zh-Hans", "zh"], ["de-AT", "de"], ["fr", "fr-CA"]]


def contained_codes(langs):
    """the codes of the set that contain, or are contained in, another code of the set"""
    return [l for l in langs if any(l != m and (l in m or m in l) for m in langs)]


def run_worker(jobs, default_lang, hashseed, repo):
    env = dict(os.environ)
    env.pop("PYCAPTION_DEFAULT_LANG", None)
    if default_lang is not None:
        env["PYCAPTION_DEFAULT_LANG"] = default_lang
    env["PYTHONHASHSEED"] = str(hashseed)
    env["VERIF_REPO"] = repo
    env["PYTHONPATH"] = repo
    inp = "\n".join(json.dumps(j) for j in jobs) + "\n"
    p = subprocess.run(["/venv/bin/python", WORKER], input=inp, capture_output=True, text=True, env=env, timeout=1500)
    lines = p.stdout.splitlines()
    if p.returncode != 0 or len(lines) != len(jobs):
        raise RuntimeError("c14 worker failed: rc=%s, %d/%d answers: %s" % (p.returncode, len(lines), len(jobs), p.stderr[-800:]))
    return [json.loads(l) for l in lines]


def opt(x):
    return None if x is None else Some(x)


def unopt(x):
    """decoded `option`: [] / [v]"""
    return x[0] if x else None


def wire_mset(cs):
    return [[l, [[a, b, [opt(n) for n in nodes]] for a, b, nodes in cues]] for l, cues in cs]


def unwire_mset(m):
    return [[l, [[a, b, [unopt(n) for n in nodes]] for a, b, nodes in cues]] for l, cues in m]


def wire_tree(nodes):
    return [[0, n[1]] if n[0] == 0 else [1, opt(n[1]), wire_tree(n[2])] for n in nodes]


# ------------------------------------------------------------------------------------------------ generators
def gen_times(rng, n, shape, k, sub_ms=False):
    """n sorted non-overlapping spans in microseconds; multiples of 1000 unless sub_ms"""
    spans = []
    if shape == "coinciding":
        t, step = 1000000, 2000000
    elif shape == "disjoint":
        t, step = 1000000 + k * 100000000, rng.choice([1500000, 3000000])
    else:
        t, step = rng.randrange(0, 5000) * 1000, None
    for i in range(n):
        if step is None:
            t += rng.choice([0, 1000, 500000, 1234000, 4000000]) if i else 0
            d = rng.choice([0, 1000, 700000, 2000000])
        else:
            d = rng.choice([1000000, step])
        spans.append((t, t + d))
        t = t + d + (rng.choice([0, 0, 1000, 250000]) if step is None else step - d)
    if sub_ms:
        out, prev = [], 0
        for s, e in spans:
            s2 = max(prev, s + rng.choice([0, 1, 499, 999]))
            e2 = max(s2, e + rng.choice([0, 1, 500, 999]))
            out.append((s2, e2))
            prev = e2
        spans = out
    return spans


def gen_capset(rng, styled=None, sub_ms=False, concurrent=True):
    """-> (cs, styles or None, shape, flags). cs: [[lang, [[s, e, text(, class)], ...]], ...]"""
    nl = rng.choice([1, 2, 2, 3, 4])
    langs = rng.sample(LANGS, nl)
    if rng.random() < 0.3:
        # prefix-related codes, in both orders (longer first / shorter first), possibly with an unrelated one
        fams = rng.sample(FAMILIES, rng.choice([1, 1, 2]))
        longs = [max(f, key=len) for f in fams]
        shorts = [min(f, key=len) for f in fams]
        langs = longs + shorts if rng.random() < 0.6 else shorts + longs
        if rng.random() < 0.3:
            langs.insert(rng.randint(0, len(langs)), rng.choice(["es", "it", "und"]))
    shape = rng.choice(["interleaved", "interleaved", "coinciding", "disjoint"])
    same_text = shape == "coinciding" and rng.random() < 0.5
    styled = rng.random() < 0.4 if styled is None else styled
    flags = {"same_text": same_text, "styled": styled, "equal_spans": False}
    styles = None
    if styled:
        styles = {"narrow": {"margin-left": "5%"}}
        for l in langs:
            if rng.random() < 0.7:
                styles[l.replace("-", "").lower() + "cc"] = {"lang": l, "color": "white"}
        if rng.random() < 0.3:
            styles[langs[0]] = {"lang": langs[0]}                 # a class named exactly like the language
        if rng.random() < 0.3:
            styles["othercc"] = {"lang": "sv"}                    # declares a language that is not in the set
    cs = []
    for k, l in enumerate(langs):
        n = rng.randint(1, 5)
        if rng.random() < 0.06 and (k + 1 < nl or any(c for _, c in cs)):
            n = 0
        cues = []
        for i, (s, e) in enumerate(gen_times(rng, n, shape, k, sub_ms)):
            text = "[MUSIC] %d" % i if same_text else "%s cue %d" % (l.replace("-", ""), i)
            cues.append([s, e, text])
            if concurrent and rng.random() < 0.12:                # a concurrent cue: same (start, end)
                cues.append([s, e, text + " bis"])
                flags["equal_spans"] = True
        if cues and cues[0][0] >= 1000 and rng.random() < 0.12:
            cues.insert(0, [0, rng.choice([0, 900]), "%s cue zero" % l.replace("-", "")])
        if styled:
            for c in cues:
                r = rng.random()
                if r < 0.35:
                    c.append(rng.choice(list(styles)))            # own / another language's / layout-only class
                elif r < 0.45:
                    c.append("missing")
        cs.append([l, cues])
    return cs, styles, shape, flags


def dfxp_stamp(us):
    ms = us // 1000
    return "%02d:%02d:%02d.%03d" % (ms // 3600000, ms // 60000 % 60, ms // 1000 % 60, ms % 1000)


def gen_dfxp_doc(rng):
    """-> (tt, segments, doc, tree, stats).  tree: the body as the model's dnode tree ([0, cue] = <p>, [1, own lang,
    kids] = <div>).  segments: what the STATEMENT makes of it, computed here (not by pycaption, not by the model): one
    entry without cues where a div opens (it registers the language), one entry per <p> under its nearest div, in document
    order; the language of a div without xml:lang is the nearest enclosing div's that has one (else None = the
    document's / the default).  Nested divs (depth <= 3, anywhere between the paragraphs) and repeated languages are
    in-domain."""
    tt = rng.choice([None, None, "es", "en", "fr", ""])
    attr = lambda: rng.choice(["xml:lang", "xml:lang", "XML:LANG"])  # noqa: E731
    pool = rng.sample(LANGS, 4)
    flat = []                                                         # segments in document order
    counter = [0]
    stats = {"nested": 0, "inherits_outer": 0, "p_after_inner_div": 0}

    def div(depth, inherited):
        own = rng.choice(pool) if rng.random() < 0.65 else None
        if rng.random() < 0.04:
            own = ""
        eff = own if own is not None else inherited
        if depth:
            stats["nested"] += 1
            stats["inherits_outer"] += int(own is None and inherited is not None)
        k = counter[0]
        counter[0] += 1
        ncue = rng.choice([0, 1, 1, 2, 3])
        cues = [[s, e, "d%dc%d text" % (k, i)] for i, (s, e) in enumerate(gen_times(rng, ncue, "interleaved", k))]
        flat.append([eff, []])
        out = ['<div' + ('' if own is None else ' %s="%s"' % (attr(), own)) + '>']
        kids = []
        inner_at = set(rng.sample(range(len(cues) + 1), rng.choice([1, 1, 2]) if len(cues) else 1)) \
            if depth < 2 and rng.random() < 0.25 else set()

        def inner():
            x, node = div(depth + 1, eff)
            out.extend(x)
            kids.append(node)
        for i, (s, e, t) in enumerate(cues):
            if i in inner_at:
                inner()
                stats["p_after_inner_div"] += 1
            out.append('<p begin="%s" end="%s">%s</p>' % (dfxp_stamp(s), dfxp_stamp(e), t))
            flat.append([eff, [[s, t]]])
            kids.append([0, [s, t]])
        if len(cues) in inner_at:
            inner()
        out.append('</div>')
        return out, [1, own, kids]
    body, tree = [], []
    for _ in range(rng.choice([1, 2, 2, 3, 4])):
        x, node = div(0, None)
        body += x
        tree.append(node)
    doc = ['<?xml version="1.0" encoding="utf-8"?>', '<tt xmlns="http://www.w3.org/ns/ttml"'
           + ('' if tt is None else ' %s="%s"' % (attr(), tt)) + '>', '<body>'] + body + ['</body>', '</tt>']
    return tt, flat, "\n".join(doc), tree, stats


SAMI_CLASSES = [("ENCC", "en"), ("USCC", "en-US"), ("FRCC", "fr"), ("DECC", "de"), ("PTCC", "pt-BR"), ("ENGB", "en-GB")]


def gen_sami_doc(rng, default):
    """-> (styles, ps, tags_cut, tags_full, doc, valueless).  tags_*: the language the STATEMENT assigns to every paragraph ("by
    class / lang attribute; none -> the configured default"), with an inline lang taken as its two-letter primary
    subtag (cut, what pycaption documents) or whole (full) - both readings are accepted by the oracle."""
    classes = rng.sample(SAMI_CLASSES, rng.randint(1, 4))
    if rng.random() < 0.5 and ("ENCC", "en") not in classes:
        classes.append(("ENCC", "en"))
    if rng.random() < 0.5 and ("USCC", "en-US") not in classes:
        classes.append(("USCC", "en-US"))
    styles = [[c.lower(), l] for c, l in classes] + [["plain", None], ["narrow", None]]
    css = (" ".join(".%s {lang: %s;}" % (c, l) for c, l in classes)
           + " .PLAIN {color: #ffffff;} .NARROW {margin-left: 5%;}")
    ps, body, tags_cut, tags_full, valueless = [], [], [], [], []
    t = 0 if rng.random() < 0.25 else rng.randrange(0, 3000)
    first = True

    def astr_of(attrs):
        # a value of None is an attribute written WITHOUT a value (<P class>, <P lang>): html.parser hands None to
        # handle_starttag; the repaired _find_lang reads it as the empty value, which is what the model gets
        return "".join((' %s' % a) if v is None else (' %s="%s"' % (a, v)) for a, v in attrs)
    for si in range(rng.randint(1, 6)):
        if not (first and t == 0):
            t += rng.choice([500, 1000, 2500])
        body.append("<SYNC start=%d>" % t)
        for pi in range(rng.randint(1, 4)):
            r = rng.random()
            c, l = rng.choice(classes)
            inline = rng.choice(["fr", "en-US", "en", "de-AT", "e", "fr", l])
            lname = rng.choice(["lang", "lang", "LANG"])
            nolang_cls = rng.choice(["NARROW", "PLAIN", "narrow", "Unknown"])
            vname = rng.choice(["class", "lang", "CLASS", "Lang"])
            if r < 0.08:
                # round 4: an attribute WITHOUT a value.  Alone or beside attributes naming no language -> the default;
                # a later / earlier attribute that names a language decides (the valueless one names none).
                # (a valueless lang BEFORE a language class is left to stream FL: it names the empty language, whose
                # effect the statement does not decide - design/C14.md, interpretive decisions)
                k = rng.randrange(6)
                if k == 0:
                    attrs, lang = [[vname, None]], None
                elif k == 1:
                    attrs, lang = [["class", None], [lname, inline]], (inline[:2], inline)
                elif k == 2:
                    attrs, lang = [["class", None], ["class", c]], (l, l)
                elif k == 3:
                    attrs, lang = [["class", c], [vname, None]], (l, l)
                elif k == 4:
                    attrs, lang = [["class", nolang_cls], [vname, None]], None
                else:
                    attrs, lang = [[lname, inline], [vname, None]], (inline[:2], inline)
            elif r < 0.35:
                attrs, lang = [["class", rng.choice([c, c, c.lower(), c.capitalize()])]], (l, l)
            elif r < 0.45:
                attrs, lang = [[lname, inline]], (inline[:2], inline)
            elif r < 0.52:
                attrs, lang = [], None
            elif r < 0.58:
                attrs, lang = [["class", nolang_cls]], None
            elif r < 0.72:
                attrs, lang = [["class", nolang_cls], [lname, inline]], (inline[:2], inline)
            elif r < 0.80:
                attrs, lang = [[lname, inline], ["class", nolang_cls]], (inline[:2], inline)
            elif r < 0.90:
                attrs, lang = [["class", c], [lname, rng.choice([l, inline])]], (l, l)
            else:
                attrs, lang = [[lname, inline], ["class", c]], (inline[:2], inline)
            lang = lang or (default, default)
            blank = rng.random() < (0.5 if first else 0.12)     # also as the very first paragraph of a language
            first = False
            text = "&nbsp;" if blank else "s%dp%d words" % (si, pi)
            ps.append([[[a, v if v is not None else ""] for a, v in attrs], t, " " if blank else text])
            valueless.append(sum(1 for a, v in attrs if v is None))
            tags_cut.append([lang[0] or default, [t * 1000, " " if blank else text], blank])
            tags_full.append([lang[1] or default, [t * 1000, " " if blank else text], blank])
            body.append("<P%s>%s" % (astr_of(attrs), text))
        body.append("</SYNC>")
    doc = ('<SAMI><HEAD><TITLE>t</TITLE><STYLE TYPE="text/css"><!-- P {margin-left: 1%%;} %s --></STYLE></HEAD><BODY>\n%s\n'
           '</BODY></SAMI>' % (css, "\n".join(body)))
    # valueless: per paragraph, the number of attributes written without a value (counted only)
    return styles, ps, tags_cut, tags_full, doc, valueless



# ------------------------------------------------------------------------------------------------ wave 7 generators
FL_CLASSES = [("encc", "en"), ("uscc", "en-US"), ("frcc", "fr"), ("decc", "de"), ("zhcc", "zh-Hans"), ("emptycc", ""),
              ("x", "x"), ("jacc", "\u65e5\u672c\u8a9e")]


def varcase(rng, w):
    return rng.choice([w, w.upper(), w.capitalize(), "".join(ch.upper() if rng.random() < 0.5 else ch for ch in w)])


def gen_find_lang(rng):
    """-> (abstract styles [[class, lang or None]], real styles [[class, {prop: value}]], ps = list of attribute lists).
    Class keys are lower case (what _css_parse stores) except a rare upper-case key, which no lookup can reach.
    Attribute NAMES are lower case: html.parser hands them to handle_starttag that way (upper-case names in documents are
    stream C's business); class VALUES come in any case."""
    chosen = rng.sample(FL_CLASSES, rng.randint(1, 5))
    styles = [[c, l] for c, l in chosen] + [[c, None] for c in rng.sample(["narrow", "plain", "wide"], rng.randint(0, 3))]
    if rng.random() < 0.15:
        styles.append(["ENCC", "xx"])
    rng.shuffle(styles)
    real = [[c, {"lang": l, "color": "white"} if l is not None else {"margin-left": "5%"}] for c, l in styles]
    with_lang = [c for c, l in styles if l is not None and c.islower()] or ["encc"]
    without = [c for c, l in styles if l is None] or ["narrow"]
    ps = []
    for _ in range(rng.randint(1, 6)):
        attrs = []
        for _ in range(rng.choice([0, 1, 1, 2, 2, 3, 4, 5])):
            r = rng.random()
            if r < 0.22:
                attrs.append(["lang", rng.choice(["fr", "en-US", "en", "e", "", "EN", "zh-Hans", "de-AT",
                                                                 "\u65e5\u672c\u8a9e", "fr"])])
            elif r < 0.45:
                attrs.append(["class", varcase(rng, rng.choice(with_lang))])
            elif r < 0.62:
                attrs.append(["class", varcase(rng, rng.choice(without))])
            elif r < 0.74:
                attrs.append(["class", rng.choice(["unknown", "Other", "", "encc narrow", "narrow encc", " encc"])])
            elif r < 0.82:
                # round 4: an attribute without a value - html.parser hands (name, None) to handle_starttag
                attrs.append([rng.choice(["class", "lang", "class", "lang", "id"]), None])
            else:
                attrs.append([rng.choice(["id", "style", "xml:lang", "langs", "clas", "title"]),
                              rng.choice(["fr", "encc", "x1", "", "color: red"])])
        ps.append(attrs)
    return styles, real, ps


def empty_for_none(ps):
    """the model's view of the attribute lists: a valueless attribute carries the empty value (the repaired code's
    `value = value or ''`)"""
    return [[[a, v if v is not None else ""] for a, v in attrs] for attrs in ps]


def whole_find(styles, attrs):
    """the OTHER accepted reading of an inline lang (kept whole, not cut to two letters); Python reference"""
    d = {}
    for c, l in styles:
        d.setdefault(c, l)
    for a, v in attrs:
        if a.lower() == "lang":
            return v
        if a.lower() == "class" and d.get(v.lower()) is not None:
            return d[v.lower()]
    return None


def first_seen(tags):
    out = []
    for t in tags:
        if t not in out:
            out.append(t)
    return out


def gen_css(rng):
    """language blocks as the SAMI writer emits them, names in any case, classes repeated (a later block wins)"""
    blocks = [[rng.choice(["ENCC", "encc", "Encc", "FRCC", "frcc", "en-US", "EN-us", "fr", "pt-BR", "narrow2"]),
               rng.choice(["en", "en-US", "fr", "de", "zh-Hans", "pt-BR"])] for _ in range(rng.randint(1, 6))]
    css = "<!-- " + "\n".join("    .%s {\n    lang: %s;\n    }" % (c, l) for c, l in blocks) + "   -->"
    return blocks, css


M_SPANS = [(1000000, 2000000), (1000000, 3000000), (2000000, 2000000), (5000000, 6000000), (5000000, 6000001), (0, 0)]


def gen_merge_set(rng):
    """1-3 languages; cue spans from a small pool so that runs of equal (start, end) of length 1-4 form, also a span
    coming back after another one (A A B A); contents of 1-3 text nodes separated by line breaks"""
    cs = []
    for l in rng.sample(LANGS, rng.randint(1, 3)):
        cues, span = [], None
        for i in range(rng.choice([0, 1, 2, 3, 4, 5, 6, 7])):
            if span is None or rng.random() > 0.5:
                span = rng.choice(M_SPANS)
            nodes = []
            for k in range(rng.choice([1, 1, 1, 2, 3])):
                if nodes:
                    nodes.append(None)
                nodes.append("%s c%d n%d" % (l.replace("-", ""), i, k))
            cues.append([span[0], span[1], nodes])
        cs.append([l, cues])
    return cs


def runs_of(cues):
    out = []
    for c in cues:
        if out and out[-1][0] == (c[0], c[1]):
            out[-1][1] += 1
        else:
            out.append([(c[0], c[1]), 1])
    return [n for _, n in out]

# ------------------------------------------------------------------------------------------------ helpers
def as_capset(langs):
    return [[l, [[c[0], c[1]] for c in cues]] for l, cues in langs]


def start_text(cs):
    return [[l, [[c[0], c[2]] for c in cues]] for l, cues in cs]


def merged(cs):
    """what the single-positioning and legacy writers make of equal (start, end) runs: one cue, texts joined"""
    out = []
    for l, cues in cs:
        res = []
        for c in cues:
            if res and res[-1][0] == c[0] and res[-1][1] == c[1]:
                res[-1][2] += " " + c[2]
            else:
                res.append([c[0], c[1], c[2]])
        out.append([l, res])
    return out


def ms_floor(cs):
    return [[l, [[c[0] // 1000 * 1000, c[1]] for c in cues]] for l, cues in cs]


def abstract_styles(styles):
    return [[k, v.get("lang")] for k, v in sorted((styles or {}).items())]


class Acc:
    def __init__(self):
        self.res = {"evaluations": 0, "nontrivial": set(), "violations": [], "disagreements": [], "distribution": {},
                    "streams": 10, "notes": []}

    def count(self, k, n=1):
        d = self.res["distribution"]
        d[k] = d.get(k, 0) + n

    def viol(self, kind, what, inp, **kw):
        self.res["violations"].append(dict(kind=kind, what=what, input=inp, replay="job", **kw))

    def dis(self, stream, inp, impl, model, what=""):
        self.res["disagreements"].append({"stream": stream, "input": inp, "impl": impl, "model": model, "what": what})


def make_reqs(tag, info, default):
    """model requests of one case, from its plain-JSON abstract input"""
    if tag == "A":
        return [(1412, [default, opt(info["tt"]), wire_tree(info["tree"])])]
    if tag == "B":
        if info["writer"] == "main":
            return [(1402, [info["force"], info["cs"]])]
        # the writers that merge first: the model gets the UNMERGED set (single_write / legacy_merge_write)
        return [(1421, [info["force"], int(info["writer"] == "legacy"), wire_mset(info["orig"])])]
    if tag == "C":
        return [(1405, [default, [[c, opt(l)] for c, l in info["styles"]], info["ps"]])]
    if tag == "D":
        ast = [[c, opt(l)] for c, l in info["astyles"]]
        return [(1407, info["mcs"]),
                (1411, ["", None, ast, [l for l, _ in info["mcs"]]])] + \
               [(1418, [default, l, opt(cls), ast, [x for x, _ in info["mcs"]]]) for l, cls, _ in info.get("pairs", [])]
    if tag == "FL":
        st = [[c, opt(l)] for c, l in info["styles"]]
        return [(1413, [st, a]) for a in info["ps"]] + [(1415, [default, st, info["ps"]])]
    if tag == "CSS":
        return [(1417, info["blocks"])]
    if tag == "M":
        return [(1419, wire_mset(info["cs"]))]
    if tag == "E":
        return [(1409, [opt(info["pick"]), info["cs"]])]
    return []


# ------------------------------------------------------------------------------------------------ jobs
def dfxp_job(rng, cs, styles, shape, flags, writer=None, force="?"):
    writer = writer or rng.choice(["main", "main", "single", "legacy"])
    langs = [l for l, _ in cs]
    if force == "?":
        force = rng.choice([None, "", rng.choice(langs), rng.choice(langs), "xx"])
        rel = contained_codes(langs)
        if rel and rng.random() < 0.6:
            force = rng.choice(rel)
    want = merged(cs) if writer != "main" else cs
    job = {"op": "dfxp_write", "writer": writer, "force": force, "cs": cs}
    if styles:
        job["styles"] = styles
    return "B", job, {"cs": start_text(want), "force": force or "", "writer": writer, "shape": shape, "flags": flags,
                      "orig": [[l, [[c[0], c[1], [c[2]]] for c in cues]] for l, cues in cs]}


def sami_job(cs, styles, shape, flags):
    job = {"op": "sami_write", "cs": cs}
    if styles:
        job["styles"] = styles
    mcs = [[l, [c[:3] for c in cues]] for l, cues in cs]
    pairs = {}
    for l, cues in cs:
        for c in cues:
            pairs.setdefault((l, c[3] if len(c) > 3 else None), []).append([c[0] // 1000 * 1000, c[2]])
    return "D", job, {"cs": mcs, "mcs": mcs, "astyles": abstract_styles(styles), "shape": shape, "flags": flags,
                      "pairs": [[l, cls, v] for (l, cls), v in pairs.items()]}


def stream_jobs(ctx, default):
    """-> list of (tag, job, model requests, info)"""
    rng = ctx.rng
    out = []
    for _ in range(ctx.n(150, 3000)):
        tt, flat, doc, tree, stats = gen_dfxp_doc(rng)
        out.append(("A", {"op": "dfxp_read", "doc": doc}, {"tt": tt, "pdivs": flat, "tree": tree, "stats": stats}))
    for _ in range(ctx.n(150, 3000)):
        cs, styles, shape, flags = gen_capset(rng)
        out.append(dfxp_job(rng, cs, styles, shape, flags))
    # fixed grid: prefix-related codes in both orders x every force x the three writers (separate force= code paths)
    for order in (["en-US", "pt-BR", "en", "pt"], ["en", "pt", "en-US", "pt-BR"], ["pt-BR", "en", "pt", "en-US"]):
        gcs = [[l, [[(i + 1) * 1000000, (i + 1) * 1000000 + 500000, "%s only" % l.replace("-", "")]]] for i, l in enumerate(order)]
        for writer in ("main", "single", "legacy"):
            for force in order:
                out.append(dfxp_job(rng, gcs, None, "disjoint", {"same_text": False, "styled": False, "equal_spans": False},
                                    writer=writer, force=force))
        for pick in order:
            out.append(("E", {"op": "vtt_write", "cs": gcs, "lang": pick}, {"cs": ms_floor(start_text(gcs)), "pick": pick}))
    for _ in range(ctx.n(200, 4000)):
        styles, ps, tc, tf, doc, vl = gen_sami_doc(rng, default)
        out.append(("C", {"op": "sami_read", "doc": doc}, {"styles": styles, "ps": ps, "tags_cut": tc, "tags_full": tf,
                                                        "valueless": vl}))
    for _ in range(ctx.n(200, 4000)):
        # the quantifier says "non-overlapping within a language": no concurrent cues for the SAMI writer
        cs, styles, shape, flags = gen_capset(rng, sub_ms=rng.random() < 0.3, concurrent=False)
        out.append(sami_job(cs, styles, shape, flags))
    # fixed shapes (audit W1 / W2 as API-built sets, identical texts, the `en` / `en-US` pair)
    out.append(sami_job([["en", [[1000000, 2000000, "e1", "encc"]]], ["fr", [[1000000, 2000000, "f1"]]]],
                        {"frcc": {"lang": "fr"}, "encc": {"lang": "en"}}, "coinciding", {"fixed": "W1"}))
    out.append(sami_job([["en", [[1000000, 2000000, "e1", "encc"]]], ["fr", [[1000000, 2000000, "f1", "encc"]]]],
                        {"frcc": {"lang": "fr"}, "encc": {"lang": "en"}}, "coinciding", {"fixed": "W2"}))
    out.append(sami_job([["en-US", [[1000000, 2000000, "[MUSIC]"]]], ["en", [[1000000, 2000000, "[MUSIC]"]]]], None,
                        "coinciding", {"fixed": "same-text"}))
    for _ in range(ctx.n(60, 1000)):
        cs, styles, shape, flags = gen_capset(rng)
        langs = [l for l, _ in cs]
        pick = rng.choice(["absent-arg", None, rng.choice(langs), langs[-1], "xx"])
        if contained_codes(langs) and rng.random() < 0.5:
            pick = rng.choice(contained_codes(langs))
        j = {"op": "vtt_write", "cs": cs}
        if styles:
            j["styles"] = styles
        if pick != "absent-arg":
            j["lang"] = pick
        mp = None if pick in ("absent-arg", None) else pick
        out.append(("E", j, {"cs": ms_floor(start_text(cs)), "pick": mp}))
    for _ in range(ctx.n(20, 300)):
        cs, styles, shape, flags = gen_capset(rng, styled=False)
        out.append(("E2", {"op": "srt_write", "cs": cs}, {"cs": ms_floor(start_text(merged(cs)))}))
    docs = {"srt": "1\n00:00:01,000 --> 00:00:02,000\nx\n", "webvtt": "WEBVTT\n\n00:01.000 --> 00:02.000\nx\n",
            "scc": "Scenarist_SCC V1.0\n\n00:00:01:00\t94ae 94ae 9420 9420 9470 9470 6162 942c 942c 942f 942f\n\n"
                   "00:00:03:00\t942c 942c\n\n", "microdvd": "{0}{0}25.0\n{25}{50}x\n"}
    for fmt, doc in docs.items():
        for lang in (None, "fr", "zh-Hans", "en", rng.choice(LANGS)):
            out.append(("E3", {"op": "reader_lang", "fmt": fmt, "doc": doc, "lang": lang}, {"fmt": fmt, "lang": lang}))
    # F: pipelines reader -> writer -> reader
    for _ in range(ctx.n(120, 2500)):
        if rng.random() < 0.6:
            styles, ps, tc, tf, doc, vl = gen_sami_doc(rng, default)
            src = "sami"
        else:
            tt, flat, doc, tree, stats = gen_dfxp_doc(rng)
            src = "dfxp"
        via = rng.choice(["sami", "sami", "main", "single", "legacy"])
        out.append(("F", {"op": "pipeline", "src": src, "doc": doc, "via": via}, {"src": src, "via": via}))
    head = ('<SAMI><HEAD><STYLE TYPE="text/css"><!-- .FRCC {lang: fr;} .ENCC {lang: en;} .NARROW {margin-left: 5%;} --></STYLE>'
            '</HEAD><BODY>')
    for body in ('<SYNC start=1000><P class=ENCC>e1<P lang=fr>f1</SYNC>', '<SYNC start=1000><P class=ENCC>e1<P lang=fr class=ENCC>f1</SYNC>',
                 '<SYNC start=1000><P class=ENCC>e1<P class=NARROW lang=fr>f1</SYNC>',
                 '<SYNC start=0><P class=FRCC>&nbsp;<P class=ENCC>e1</SYNC><SYNC start=2000><P class=FRCC>f1</SYNC>'):
        for via in ("sami", "main"):
            out.append(("F", {"op": "pipeline", "src": "sami", "doc": head + body + "</BODY></SAMI>", "via": via},
                        {"src": "sami", "via": via, "fixed": True}))
    # wave 7: the real _find_lang / handle_starttag, _css_parse and merge_concurrent_captions called directly
    for _ in range(ctx.n(150, 1000)):
        styles, real, ps = gen_find_lang(rng)
        out.append(("FL", {"op": "find_lang", "styles": real, "ps": ps}, {"styles": styles, "ps": empty_for_none(ps)}))
    for _ in range(ctx.n(40, 200)):
        blocks, css = gen_css(rng)
        out.append(("CSS", {"op": "css_parse", "css": css}, {"blocks": blocks}))
    for _ in range(ctx.n(150, 1000)):
        mcs = gen_merge_set(rng)
        out.append(("M", {"op": "merge", "cs": mcs}, {"cs": mcs}))
    for _ in range(ctx.n(30, 200)):          # the caption sets of stream B (their equal-span runs) through the same function
        cs, styles, shape, flags = gen_capset(rng, styled=False)
        mcs = [[l, [[c[0], c[1], [c[2]]] for c in cues]] for l, cues in cs]
        out.append(("M", {"op": "merge", "cs": mcs}, {"cs": mcs, "plain": cs}))
    items = [(tag, job, make_reqs(tag, info, default), info) for tag, job, info in out]
    return items + history_items(ctx, default)


def history_items(ctx, default):
    """2-3 step write histories on ONE writer object (SAMI, the three DFXP writers, WebVTT) over caption sets with
    different language lists / orders and interleaved cue times; every document is judged like a single write."""
    rng = ctx.rng
    items = []
    fixed = [[["en-US", "fr"], ["de", "en-US", "fr"]], [["fr", "en-US"], ["en-US"], ["en-US", "fr", "de"]]]
    n = ctx.n(40, 600)
    for h in range(n + len(fixed)):
        kind = rng.choice(["sami", "sami", "dfxp", "vtt"])
        langlists = fixed[h - n] if h >= n else None
        writer = rng.choice(["main", "single", "legacy"])
        for k in range(rng.randint(2, 3) if langlists is None else len(langlists)):
            cs, styles, shape, flags = gen_capset(rng, concurrent=(kind == "dfxp"))
            if langlists is not None:
                kind, styles = "sami", None
                cs = [[l, [[s0 + 137000 * i, e0 + 137000 * i, "%s h%d" % (l.replace("-", ""), j)] for j, (s0, e0) in
                           enumerate(gen_times(rng, 3, "interleaved", i))]] for i, l in enumerate(langlists[k])]
            elif rng.random() < 0.5:
                rng.shuffle(cs)
            if kind == "sami":
                tag, job, info = sami_job(cs, styles, shape, flags)
            elif kind == "dfxp":
                tag, job, info = dfxp_job(rng, cs, styles, shape, flags, writer=writer, force=rng.choice([None, "", cs[0][0], "xx"]))
            else:
                pick = rng.choice([None, cs[-1][0]])
                job = {"op": "vtt_write", "cs": cs}
                if pick is not None:
                    job["lang"] = pick
                tag, info = "E", {"cs": ms_floor(start_text(cs)), "pick": pick}
            info = dict(info, hist=h, step=k)
            items.append((tag, job, make_reqs(tag, info, default), info))
    return items


# ------------------------------------------------------------------------------------------------ judging
def resolve_body(body, sheet):
    """class -> language through the WRITTEN stylesheet (a later block of the same class wins, as in the reader)"""
    m = {}
    for cls, lang in sheet:
        m[cls.lower()] = lang
    return [[s, [[m.get((c or "").lower(), "?class:%s" % c), t] for c, t in ps]] for s, ps in body]


def no_blanks(body):
    return [[s, [p for p in ps if p[1] != "&nbsp;"]] for s, ps in body if any(p[1] != "&nbsp;" for p in ps)]


def judge(acc, cfg, items, obs, models):
    default = cfg["default"]
    oracle_reqs, pending, k = [], [], 0
    # wave 7: wherever the harness joins equal-span runs itself (pipelines through the merge-first writers, SRT parts) the
    # join is checked against the extracted model merge_concurrent on exactly that set
    jidx = [i for i, (it, o) in enumerate(zip(items, obs))
            if (it[0] == "F" and it[3]["via"] in ("single", "legacy") and "first" in o) or (it[0] == "E2" and "err" not in o)]
    jsets = [obs[i]["first"] if items[i][0] == "F" else [[l, [c[:3] for c in cues]] for l, cues in items[i][1]["cs"]] for i in jidx]
    jmodel = oracle_batch([(1419, wire_mset([[l, [[c[0], c[1], [c[2]]] for c in cues]] for l, cues in js])) for js in jsets])
    for i, js, jm in zip(jidx, jsets, jmodel):
        mine = [[l, [[c[0], c[1], c[2]] for c in cues]] for l, cues in merged(js)]
        theirs = [[l, [[a, b, " ".join(unopt(n) for n in nodes if unopt(n) is not None)] for a, b, nodes in cues]] for l, cues in jm]
        if mine != theirs:
            acc.dis(items[i][0], {"config": cfg, "job": items[i][1]}, mine, theirs, "the harness's join of equal-span runs differs from model merge_concurrent")
        else:
            acc.count("%s_harness_join_checked_against_model" % items[i][0])
    for (tag, job, reqs, info), o in zip(items, obs):
        m = models[k:k + len(reqs)]
        k += len(reqs)
        acc.res["evaluations"] += 1
        acc.count("stream_" + tag if info.get("hist") is None else "H_history_steps_" + job["op"])
        if info.get("step"):
            acc.count("H_later_steps_on_a_used_writer")
        inp = {"config": cfg, "job": job, "tag": tag, "info": info}
        if "err" in o:
            if tag == "F" and o["err"] in ("CaptionReadNoCaptions",):
                acc.count("F_source_document_without_cues")
                continue
            if tag == "A" and o["err"] == "CaptionReadNoCaptions" and not any(c for _, c in info["pdivs"]):
                acc.count("A_document_without_cues(refused as documented)")
                continue
            if tag == "C" and o["err"] == "CaptionReadNoCaptions" and all(b for _, _, b in info["tags_cut"]):
                acc.count("C_document_with_blank_paragraphs_only(refused as documented)")
                continue
            acc.viol("raises", "%s raised %s: %s" % (job["op"], o["err"], o.get("msg", "")), inp, stream=tag)
            continue
        if tag == "A":
            got = as_capset(o["langs"])
            pending.append((tag, inp, info, got, m[0]))
            oracle_reqs.append((1401, [default, opt(info["tt"]), [[opt(x), c] for x, c in info["pdivs"]], got]))
        elif tag == "B":
            got = [[l, cues] for l, cues in o["divs"]]
            pending.append((tag, inp, info, (o["tt"], got, o.get("reread"), o.get("reread_err")), m[0]))
            oracle_reqs.append((1404, [info["force"], info["cs"], got]))
            rr = as_capset(o["reread"]) if "reread" in o else []
            oracle_reqs.append((1401, [default, opt(o["tt"]), [[opt(l), c] for l, c in got], rr]))
        elif tag == "C":
            got = as_capset(o["langs"])
            pending.append((tag, inp, info, got, m[0]))
            oracle_reqs.append((1406, [info["tags_cut"], got]))
            oracle_reqs.append((1406, [info["tags_full"], got]))
        elif tag == "D":
            body = resolve_body(o["body"], o["sheet"])
            pending.append((tag, inp, info, (body, o["sheet"], o.get("reread"), o.get("reread_err")), m))
            oracle_reqs.append((1408, [start_text(info["cs"]), body]))
            tagged = [[c, [s * 1000, t if t != "&nbsp;" else " "], t == "&nbsp;"] for s, ps in body for c, t in ps]
            oracle_reqs.append((1406, [tagged, as_capset(o["reread"]) if "reread" in o else []]))
        elif tag == "E":
            pending.append((tag, inp, info, o["cues"], m[0]))
            oracle_reqs.append((1410, [opt(info["pick"]), info["cs"], o["cues"]]))
        elif tag == "E2":
            want = [cues for l, cues in info["cs"]]
            if o["parts"] != want:
                acc.viol("srt-language-parts", "SRT writer output does not list the languages' cues in order", inp,
                         stream=tag, got=o["parts"], want=want)
            else:
                acc.res["nontrivial"].add(("E2", json.dumps(info["cs"])))
        elif tag == "E3":
            got = [l for l, n in o["langs"]]
            if info["lang"] is not None:
                if got != [info["lang"]] or o["langs"][0][1] < 1:
                    acc.viol("reader-lang-option", "%s reader lang=%r returned languages %r" % (info["fmt"], info["lang"], o["langs"]),
                             inp, stream=tag)
            else:
                # which language an omitted lang= yields is not fixed by the statement: counted only
                acc.count("E3_default_of_omitted_lang=%s:%s" % (info["fmt"], got[0] if got else None))
                if len(got) != 1:
                    acc.viol("reader-lang-option", "%s reader without lang= returned languages %r" % (info["fmt"], o["langs"]), inp, stream=tag)
            if o["default"] != default:
                acc.res["disagreements"].append({"stream": "E3", "what": "DEFAULT_LANGUAGE_CODE %r, expected %r" % (o["default"], default)})
        elif tag == "F":
            judge_pipeline(acc, inp, info, o)
        elif tag == "FL":
            st = [[c, opt(l)] for c, l in info["styles"]]
            pending.append((tag, inp, info, o, m))
            for a, f in zip(info["ps"], o["found"]):
                oracle_reqs.append((1414, [st, a, opt(f)]))
            oracle_reqs.append((1416, [default, st, info["ps"], [t if t is not None else "\0no-lang-attribute" for t in o["tags"]], o["langs"]]))
        elif tag == "CSS":
            got = [[k, l] for k, l in o["styles"]]
            if got != [[k, unopt(l)] for k, l in m[0]]:
                acc.dis(tag, inp, got, m[0], "_css_parse: class -> lang dict differs from model read_styles")
            else:
                acc.res["nontrivial"].add(("CSS", json.dumps(inp["job"])))
                acc.count("CSS_class_declared_more_than_once", int(len(got) < len(info["blocks"])))
        elif tag == "M":
            pending.append((tag, inp, info, o["merged"], m[0]))
            oracle_reqs.append((1420, [wire_mset(info["cs"]), wire_mset(o["merged"])]))
    oks = oracle_batch(oracle_reqs)
    j = 0
    for tag, inp, info, got, m in pending:
        if tag == "A":
            dom, ok = oks[j]
            j += 1
            if not ok:
                acc.viol("dfxp-div-language", "DFXPReader: languages / cue lists %r for tt=%r divs=%r" % (got, info["tt"], info["pdivs"]), inp, stream=tag)
                continue
            if got != as_capset(m[0]) or [[unopt(x), c] for x, c in m[1]] != info["pdivs"]:
                acc.dis(tag, inp, got, m, "model (tree read / segments) differs from the reader / the generator's segments")
            else:
                acc.res["nontrivial"].add(("A", json.dumps(inp["job"])))
                for k, v in info["stats"].items():
                    acc.count("A_" + k, v)
                langs = [x if x is not None else (info["tt"] if info["tt"] is not None else "\0default") for x, _ in info["pdivs"]]
                acc.count("A_repeated_language", int(len(set(langs)) < len(langs)))
                acc.count("A_fallback_to_tt", int(info["tt"] is not None and any(d[0] is None for d in info["pdivs"])))
                acc.count("A_fallback_to_default", int(info["tt"] is None and any(d[0] is None for d in info["pdivs"])))
        elif tag == "B":
            ok, (dom2, ok2) = oks[j], oks[j + 1]
            j += 2
            tt, divs, rr, rr_err = got
            if not ok:
                acc.viol("dfxp-write-languages", "%s writer force=%r wrote divs %r for %r" % (info["writer"], info["force"], divs, info["cs"]),
                         inp, stream=tag, divs=divs)
                continue
            if rr_err == "CaptionReadNoCaptions" and not any(c for _, c in divs):
                acc.count("B_empty_document_rejected_by_reader")
            elif rr_err or not ok2:
                acc.viol("dfxp-reread-languages", "re-reading the DFXP output gives %r (%s)" % (rr, rr_err), inp, stream=tag)
                continue
            if info["writer"] != "main":
                m, flat = m
                if flat != info["cs"]:
                    acc.dis(tag, inp, info["cs"], flat, "the harness's join of equal-span runs differs from model merge_concurrent")
                    continue
                acc.count("B_merge_first_writer_model(single_write / legacy_merge_write on the unmerged set)")
            mdoc = m[1] if info["writer"] == "legacy" and m[0] == 0 else m
            mtt = mdoc[0][0] if mdoc[0] else None
            mdivs = [[d[0][0], d[1]] for d in mdoc[1]]
            acc.count("B_tt_language_differs_from_model(not part of the statement)", int(mtt != tt))
            if mdivs != divs:
                acc.dis(tag, inp, divs, mdivs)
            else:
                acc.res["nontrivial"].add(("B", json.dumps(inp["job"])))
                acc.count("B_force_present", int(info["force"] in [l for l, _ in info["cs"]]))
                ls = [l for l, _ in info["cs"]]
                acc.count("B_force_contained_in_an_EARLIER_language_code(%s)" % info["writer"],
                          int(info["force"] in ls and any(info["force"] in m for m in ls[:ls.index(info["force"])])))
                acc.count("B_shape_" + info["shape"])
                acc.count("B_equal_span_runs", int(bool(info["flags"].get("equal_spans"))))
                acc.count("B_styled_sets", int(bool(info["flags"].get("styled"))))
        elif tag == "C":
            ok_cut, ok_full = oks[j], oks[j + 1]
            j += 2
            if not (ok_cut or ok_full):
                acc.viol("sami-read-languages", "SAMIReader: languages / cue lists %r, expected grouping of %r" % (got, info["tags_cut"]),
                         inp, stream=tag)
                continue
            acc.count("C_inline_lang_kept_whole(full reading)", int(ok_full and not ok_cut))
            if got != m[0]:
                acc.dis(tag, inp, got, m[0])
            else:
                acc.res["nontrivial"].add(("C", json.dumps(inp["job"])))
                seen = set()
                for l, _, blank in info["tags_cut"]:
                    if l not in seen and blank:
                        acc.count("C_language_whose_first_paragraph_is_blank")
                    seen.add(l)
                acc.count("C_p_attribute_without_a_value(<P class> / <P lang>)", sum(info.get("valueless", [])))
                acc.count("C_documents_with_a_valueless_p_attribute", int(any(info.get("valueless", []))))
                for attrs, _, _ in info["ps"]:
                    names = [a.lower() for a, _ in attrs]
                    if names == ["class", "lang"]:
                        acc.count("C_p_class_then_inline_lang")
                    elif names == ["lang", "class"]:
                        acc.count("C_p_inline_lang_then_class")
        elif tag == "D":
            ok, ok2 = oks[j], oks[j + 1]
            j += 2
            body, sheet, rr, rr_err = got
            if not ok:
                acc.viol("sami-sync-placement", "SAMIWriter body (classes resolved to languages through the written stylesheet) %r for %r"
                         % (body, info["cs"]), inp, stream=tag)
                continue
            if rr_err == "CaptionReadNoCaptions" and not any(c for _, c in info["cs"]):
                pass
            elif rr_err or not ok2:
                acc.viol("sami-reread-languages", "re-reading the SAMI output gives %r (%s)" % (rr, rr_err), inp, stream=tag)
                continue
            if no_blanks(body) != no_blanks(m[0]):
                acc.dis(tag, inp, body, m[0], "paragraph placement differs from the model")
            elif body != m[0]:
                acc.dis(tag, inp, body, m[0], "blank-paragraph placement differs from the model (C02's rule; not part of C14's statement)")
            elif [list(x) for x in sheet] != [list(x) for x in m[1][1]]:
                acc.dis(tag, inp, sheet, m[1][1], "written stylesheet language blocks differ from model sheet_langs")
            elif rr is not None and any([s0, t0] not in dict((l, c) for l, c in rr).get(mm, [])
                                        for (l0, c0, cues), mm in zip(info.get("pairs", []), m[2:]) for s0, t0 in cues):
                acc.dis(tag, inp, rr, m[2:], "a written paragraph is re-read under another language than model reread_lang says")
            else:
                acc.count("D_written_class_read_back(model reread_lang)", len(info.get("pairs", [])))
                acc.res["nontrivial"].add(("D", json.dumps(inp["job"])))
                acc.count("D_shape_" + info["shape"])
                acc.count("D_styled_sets", int(bool(info["flags"].get("styled"))))
                acc.count("D_same_text_in_several_languages", int(bool(info["flags"].get("same_text"))))
                acc.count("D_equal_span_runs", int(bool(info["flags"].get("equal_spans"))))
                acc.count("D_secondary_sync_inserted", int(len(info["cs"]) > 1))
        elif tag == "FL":
            n = len(info["ps"])
            okf, okp = oks[j:j + n], oks[j + n]
            j += n + 1
            o, bad = got, False
            whole = [whole_find(info["styles"], a) for a in info["ps"]]
            wtags = [w or default for w in whole]
            empty = [any(whole_find(info["styles"], [[x, v]]) == "" for x, v in a) for a in info["ps"]]
            acc.count("FL_paragraph_with_an_attribute_naming_the_empty_language", sum(empty))
            for a, f, ok, w, em in zip(info["ps"], o["found"], okf, whole, empty):
                if not ok and f != w and not em:
                    acc.viol("sami-find-lang", "SAMIParser._find_lang(%r) with classes %r found %r" % (a, info["styles"], f), inp, stream=tag)
                    bad = True
                    break
            if bad:
                continue
            if not okp and not (o["tags"] == wtags and o["langs"] == first_seen(wtags)) and not any(empty):
                acc.viol("sami-p-language", "handle_starttag over %r with classes %r: lang attributes %r, langs %r"
                         % (info["ps"], info["styles"], o["tags"], o["langs"]), inp, stream=tag)
                continue
            mf = [unopt(x) for x in m[:n]]
            if mf != o["found"] or m[n][0] != o["tags"] or m[n][1] != o["langs"]:
                acc.count("FL_inline_lang_kept_whole(full reading)", int(not all(okf)))
                acc.dis(tag, inp, [o["found"], o["tags"], o["langs"]], [mf, m[n]], "_find_lang / handle_starttag differ from model find_lang / p_langs")
                continue
            acc.res["nontrivial"].add(("FL", json.dumps(inp["job"])))
            acc.count("FL_paragraphs", n)
            acc.count("FL_attribute_without_a_value(class)", sum(1 for a in inp["job"]["ps"] for x, v in a if v is None and x == "class"))
            acc.count("FL_attribute_without_a_value(lang)", sum(1 for a in inp["job"]["ps"] for x, v in a if v is None and x == "lang"))
            acc.count("FL_attribute_without_a_value(other name)", sum(1 for a in inp["job"]["ps"] for x, v in a if v is None and x not in ("class", "lang")))
            for a, f in zip(info["ps"], o["found"]):
                names = [x.lower() for x, _ in a]
                if f is None or f == "":
                    acc.count("FL_no_language_found_or_empty(default)")
                else:
                    k = next(i for i, (x, v) in enumerate(a) if whole_find(info["styles"], [[x, v]]) is not None)
                    acc.count("FL_decided_by_%s_attribute" % names[k])
                    acc.count("FL_silent_attributes_before_the_deciding_one", int(k > 0))
                    acc.count("FL_class_without_language_before_the_deciding_one", int("class" in names[:k]))
        elif tag == "M":
            ok = oks[j]
            j += 1
            if not ok:
                acc.viol("merge-concurrent", "merge_concurrent_captions(%r) = %r" % (info["cs"], got), inp, stream=tag)
                continue
            if got != unwire_mset(m):
                acc.dis(tag, inp, got, unwire_mset(m), "merge_concurrent_captions differs from model merge_concurrent")
                continue
            if "plain" in info:
                # the join the harness applies before judging streams B / E2 / F is the model's
                mine = [[l, [[c[0], c[1], c[2]] for c in cues]] for l, cues in merged(info["plain"])]
                theirs = [[l, [[a, b, " ".join(n for n in nodes if n is not None)] for a, b, nodes in cues]] for l, cues in got]
                if mine != theirs:
                    acc.dis(tag, inp, theirs, mine, "the harness's own join of equal-span runs differs from the model")
                    continue
                acc.count("M_harness_join_checked_against_model")
            acc.res["nontrivial"].add(("M", json.dumps(inp["job"])))
            for l, cues in info["cs"]:
                rs = runs_of(cues)
                acc.count("M_languages")
                acc.count("M_runs_of_length_%s" % ("1" if not rs or max(rs) == 1 else "2" if max(rs) == 2 else "3+"))
                acc.count("M_span_returns_after_another(A B A)", int(len({(c[0], c[1]) for c in cues}) < len(rs)))
                acc.count("M_language_without_cues", int(not cues))
                acc.count("M_multi_node_cue_in_a_run", int(any(len(c[2]) > 1 for c in cues) and bool(rs) and max(rs) > 1))
        elif tag == "E":
            ok = oks[j]
            j += 1
            if not ok:
                acc.viol("webvtt-lang-option", "WebVTTWriter lang=%r wrote cues %r" % (info["pick"], got), inp, stream=tag)
                continue
            mm = m[1] if m[0] == 0 else None
            if mm != got:
                acc.dis(tag, inp, got, m)
            else:
                acc.res["nontrivial"].add(("E", json.dumps(inp["job"])))


def judge_pipeline(acc, inp, info, o):
    """reader -> writer -> reader: every language keeps exactly its cue list (to the format's resolution: SAMI and DFXP
    times are milliseconds); a language without cues may disappear; DFXP keeps the language order, SAMI re-read order is
    the order of first paragraphs (decision xi)"""
    first = {l: c for l, c in o["first"]}
    if "" in first:
        # xml:lang="" : no SAMI class can carry it and it coincides with the DFXP writers' default force=''
        acc.count("F_excluded_empty_language_code")
        return
    if info["via"] == "sami" and not all(all(a[0] <= a[1] <= b[0] for a, b in zip(c, c[1:])) and all(x[0] <= x[1] for x in c)
                                         for c in first.values()):
        # the quantifier: "cues are sorted and non-overlapping within a language" (SAMI re-orders by time)
        acc.count("F_excluded_language_not_sorted_for_SAMI")
        return
    if "reread" not in o:
        if o.get("reread_err") == "CaptionReadNoCaptions" and not any(first.values()):
            return
        acc.viol("pipeline-reread-raises", "%s -> %s -> read raised %s" % (info["src"], info["via"], o.get("reread_err")), inp, stream="F")
        return
    again = {l: c for l, c in o["reread"]}
    src = [[l, c] for l, c in o["first"]]
    if info["via"] in ("single", "legacy"):
        src = merged(src)              # these writers merge runs of equal (start, end)
    want = {l: [[c[0] // 1000 * 1000, c[2]] for c in cues] for l, cues in src}
    nonempty = lambda d: {l: c for l, c in d.items() if c}  # noqa: E731
    if nonempty(want) != nonempty(again):
        moved = [l for l in set(want) | set(again) if want.get(l, []) != again.get(l, [])]
        acc.viol("pipeline-cue-moved", "%s document -> %s writer -> reader: languages %r changed: read %r, re-read %r"
                 % (info["src"], info["via"], moved, o["first"], o["reread"]), inp, stream="F")
        return
    if info["via"] != "sami" and [l for l, c in o["first"] if c] != [l for l, c in o["reread"] if c]:
        acc.viol("pipeline-language-order", "language order changed: %r -> %r" % ([l for l, _ in o["first"]], [l for l, _ in o["reread"]]),
                 inp, stream="F")
        return
    acc.res["nontrivial"].add(("F", json.dumps(inp["job"])))
    acc.count("F_pipelines_ok_%s_via_%s" % (info["src"], info["via"]))


def configs(ctx):
    c = [{"default": "und", "env": None, "hashseed": 0}, {"default": "en-US", "env": "en-US", "hashseed": 1},
         {"default": "zh-Hans", "env": "zh-Hans", "hashseed": 0}]
    if ctx.thorough:
        c += [{"default": "und", "env": None, "hashseed": s} for s in (2, 3, 17, 4242)]
        c += [{"default": "x", "env": "x", "hashseed": 3}, {"default": "en-US", "env": "en-US", "hashseed": 17}]
    return c


def run(ctx):
    acc = Acc()
    for ci, cfg in enumerate(configs(ctx)):
        items = stream_jobs(ctx, cfg["default"])
        if ci >= 2 and not ctx.thorough:
            items = [it for k, it in enumerate(items) if it[0] in ("A", "C", "E3", "F", "FL") and k % 2 == 0 and it[3].get("hist") is None]
        jobs, slots = [], []
        for it in items:
            h = it[3].get("hist")
            if h is None:
                slots.append((len(jobs), None))
                jobs.append(it[1])
            elif jobs and jobs[-1].get("op") == "history" and jobs[-1]["hist"] == h:
                slots.append((len(jobs) - 1, len(jobs[-1]["steps"])))
                jobs[-1]["steps"].append(it[1])
            else:
                slots.append((len(jobs), 0))
                jobs.append({"op": "history", "hist": h, "steps": [it[1]]})
        for it, (j, k) in zip(items, slots):
            if k is not None:
                it[3]["hist_jobs"] = jobs[j]["steps"][:k + 1]
        raw = run_worker(jobs, cfg["env"], cfg["hashseed"], ctx.repo)
        obs = [raw[j] if k is None else raw[j]["steps"][k] for j, k in slots]
        models = oracle_batch([r for it in items for r in it[2]])
        judge(acc, cfg, items, obs, models)
    res = acc.res
    res["distribution"]["configs"] = [(c["env"], c["hashseed"]) for c in configs(ctx)]
    res["samples"] = [json.loads(x[1]) for x in list(res["nontrivial"])[:4]]
    res["rule"] = ("distinct (stream, job) pairs whose observation satisfies the oracle and equals the model. A: DFXP documents "
                   "(1-5 divs, repeated languages, nested divs, own / document / default language); B: caption sets of 1-4 languages "
                   "(interleaved, coinciding, disjoint times, equal-span runs, styles and classes) x 3 DFXP writers x force; C: SAMI "
                   "documents (class / inline lang / default in every order, blank paragraphs anywhere); D: SAMI writer bodies; "
                   "E: WebVTT lang=, SRT, reader lang=; F: reader -> writer -> reader pipelines; H: histories on one writer; "
                   "FL: SAMIParser._find_lang / handle_starttag on generated stylesheets and attribute lists; CSS: _css_parse on written "
                   "language blocks; M: merge_concurrent_captions on generated sets with equal-span runs")
    res["clauses"] = {
        "theorem": ["DFXP read model = grouping by effective language for EVERY document (repeated / nested divs included); model "
                    "meets the oracle", "DFXP / legacy write, WebVTT pick: model meets the oracle (distinct language names)",
                    "SAMI read model = grouping of the tagged paragraphs, blank paragraphs counting for the order only; model meets the oracle",
                    "SAMI write: the model's body satisfies the WHOLE oracle ok_sami_body (sorted, per-language cue lists, no foreign "
                    "paragraph) for sets with distinct names, sorted languages, no cue text '&nbsp;'; never-mix for all inputs",
                    "class layer: the class written for a paragraph resolves, through the written stylesheet, to its language; "
                    "wave 7: and is read back under that language through the dict the parser rebuilds (later block wins)",
                    "wave 7: find_lang = the specification (the first attribute naming a language decides; unique; attributes naming "
                    "none and letter case do not matter); the reader model groups by the SPECIFICATION's tags",
                    "wave 7: merge_concurrent_captions (loop + merge) = grouping of equal-(start, end) runs: languages untouched, texts "
                    "per language conserved in order, neighbouring spans differ, idempotent"],
        "correspondence_only": ["bs4 / lxml / html.parser / cssutils layers (documents <-> abstract inputs of the model)",
                                "html.parser handing the attributes of a <P> to handle_starttag (stream C; the oracle's tags there are the "
                                "generator's; _find_lang / handle_starttag themselves: stream FL against the Coq oracle)", "PYCAPTION_DEFAULT_LANG (unset, en-US, zh-Hans; thorough also x) and hash seeds",
                                "that the single-positioning / legacy writers call merge_concurrent_captions before writing (streams B / F "
                                "still join the runs in the harness; stream M checks that join against the model)",
                                "SRT parts, reader lang= labelling, reader -> writer -> reader pipelines (stream F, oracle in Python: "
                                "per-language cue lists equal to the format's resolution)"]}
    res["trusted_extra"] = ["harness/c14_worker.py (observation of outputs with lxml / bs4; stylesheet blocks by regular expression)"]
    return res


def replay(ctx, rec):
    inp = rec["input"]
    cfg, job, tag, info = inp["config"], inp["job"], inp["tag"], inp["info"]
    if info.get("hist_jobs"):
        o = run_worker([{"op": "history", "steps": info["hist_jobs"]}], cfg["env"], cfg["hashseed"], ctx.repo)[0]["steps"][-1]
    else:
        o = run_worker([job], cfg["env"], cfg["hashseed"], ctx.repo)[0]
    reqs = make_reqs(tag, info, cfg["default"])
    models = oracle_batch(reqs) if reqs else []
    acc = Acc()
    judge(acc, cfg, [(tag, job, reqs, info)], [o], models)
    v = acc.res["violations"]
    return bool(v), (v[0]["what"] if v else "the property oracle accepts the observation")[:600]
