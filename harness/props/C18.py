"""C18 - geometry values compare, hash, parse and print consistently.

Streams (each: extracted model coq/model/Geometry.v vs the implementation, and the Coq property oracle of
coq/spec/SpecGeom.v evaluated on what the implementation produced):
  A  Size.from_string on every string of length <= 4 (quick) / 5 (thorough) over the 15-character alphabet
     0 1 5 9 . + - e space p x m c t %  plus structured longer strings (long digit runs, leading zeros, every
     unit, near-misses);  oracle ok_parse.   Strings ending in a newline or containing a non-ASCII digit are
     outside the statement's alphabet: counted, compared leniently (see design/C18.md).
  B  str(Size) for sampled non-negative values x 5 units (model printer is exact on the binary64 value);
     oracle ok_print (two decimals, canonical, within 1/200); re-parse of the printed string reproduces it.
  C  ==, !=, hash on pairs of geometry values of every kind (Size .. Layout, None, other types), the grid being
     exhaustive in units / alignments / None-ness and sampled in magnitudes; oracle ok_eq_g.
  D  Padding.from_xml_attribute (1-5 sizes; TTML order), Point/Stretch.from_xml_attribute; oracles ok_padding, ok_two.
  E  as_percentage_of / fit_to_screen on every kind: deep snapshot of the receiver before == after (execution only).
"""
import itertools
from fractions import Fraction

import impl
import geom
from geom import exact, Some
from wire import Ok, Err, oracle_batch, r_result
from pycaption.geometry import Size, Point, Stretch, Padding, Alignment, Layout, UnitEnum

TABLES = ("GenGeom.v",)
ALPHABET = "0159.+-e pxmct%"


# ------------------------------------------------------------------------------------------------ A
def in_alphabet_domain(s):
    """the statement's strings: no final newline (Python's `$`), no non-ASCII decimal digit (\\d is Unicode)"""
    return not s.endswith("\n") and all(ord(c) < 128 or not c.isdigit() for c in s) and all(
        ord(c) < 128 or not c.isspace() for c in s)


def obs_parse(s):
    r = impl.call(Size.from_string, s)
    if isinstance(r, Ok):
        return Ok([exact(r.v.value), geom.UNITS.index(r.v.unit)])
    return r


def structured_strings(rng, n):
    out = []
    digs = ["0", "1", "7", "00", "007", "10", "100", "12345678901234567890", "99999", "3", "33", "0" * 30 + "1"]
    fracs = ["", ".0", ".5", ".50", ".05", ".333333333333333333333", ".", ".x", ".5.5", "..5", ".00", ".999"]
    units = ["px", "em", "%", "c", "pt", "", "PX", "p", "x", "pxx", "ppx", "cm", "mm", "in", "pc", "ptx", "%%", "c ",
             " px", "px ", "px\n", "px\n\n", "\npx", "em\r", "e", "m", "t", "pt%", "e3px", "cpx", "ptpx"]
    pre = ["", "", "", "", "+", "-", " ", ".", "0x", "1e", "\n"]
    for _ in range(n):
        r = rng.random()
        if r < 0.6:
            s = rng.choice(pre) + rng.choice(digs) + rng.choice(fracs) + rng.choice(units)
        elif r < 0.8:
            s = "".join(rng.choice(ALPHABET) for _ in range(rng.randint(5, 9)))
        elif r < 0.9:
            s = str(rng.randint(0, 10**rng.randint(1, 25))) + rng.choice(["", "." + str(rng.randint(0, 10**6))]) \
                + rng.choice(["px", "em", "%", "c", "pt"])
        else:
            s = rng.choice(["٣px", "５%", "1.٣em", "0\n", "0\n\n", "\n0", "0 ", " 0", "00", "0.0", "0px", "0%",
                            "5px\n", "5\npx", "", "\n", "px", "%", "5 px", "5px 6px", "1,5px", "1_0px", "１２c"])
        out.append(s)
    return out


def stream_parse(ctx, res):
    L = ctx.n(4, 5)
    strings = [""]
    for k in range(1, L + 1):
        strings.extend("".join(t) for t in itertools.product(ALPHABET, repeat=k))
    strings.extend(structured_strings(ctx.rng, ctx.n(6000, 100000)))
    obs = [obs_parse(s) for s in strings]
    models = oracle_batch([(1800, s) for s in strings])
    oks = oracle_batch([(1801, [s, o]) for s, o in zip(strings, obs)])
    outside = 0
    accepted = 0
    for s, o, m, ok in zip(strings, obs, models, oks):
        res["evaluations"] += 1
        mm = r_result(m, lambda v: [Fraction(v[0][0], v[0][1]), v[1]])
        if not in_alphabet_domain(s):
            outside += 1
            # outside the statement's alphabet. Final newline: the implementation may follow Python's `$`
            # (accept what the chopped string denotes) or reject; anything else is reported.
            if s.endswith("\n") and all(ord(c) < 128 for c in s):
                chopped = oracle_batch([(1801, [s[:-1], o])])[0]
                if ok != 1 and chopped != 1:
                    res["violations"].append({"kind": "parse-newline", "replay": "parse", "input": s,
                                              "what": f"Size.from_string({s!r}) -> {o!r}: neither the syntax error "
                                                      f"nor the value of the string before the newline",
                                              "impl_obs": repr(o)})
            continue
        if isinstance(o, Ok):
            accepted += 1
            res["nontrivial"].add(("parse", s))
        if ok != 1:
            res["violations"].append({
                "kind": "parse-accepts" if isinstance(o, Ok) else "parse-rejects",
                "replay": "parse", "input": s, "impl_obs": repr(o),
                "what": f"Size.from_string({s!r}) -> {o!r}; the size language says "
                        f"{'reject with the syntax error' if isinstance(o, Ok) else 'accept (or a different error was raised)'}"})
        elif not same_parse(mm, o):
            res["disagreements"].append({"stream": "parse", "input": s, "impl": repr(o), "model": repr(mm)})
    d = res["distribution"]
    d["parse_strings"] = len(strings)
    d["parse_exhaustive_max_len"] = L
    d["parse_accepted"] = accepted
    d["parse_outside_alphabet_excluded(final newline / non-ASCII digit or space)"] = outside


def same_parse(m, o):
    if isinstance(m, Err) or isinstance(o, Err):
        return m == o
    (mv, mu), (ov, ou) = m.v, o.v
    # float(decimal string) is the nearest binary64 to the exact decimal value the model holds
    return mu == ou and (mv == ov or (mv != 0 and abs(ov - mv) <= abs(mv) * Fraction(1, 2**52)))


# ------------------------------------------------------------------------------------------------ B
def stream_print(ctx, res):
    rng = ctx.rng
    vals = []
    for v in geom.VALUE_GRID:
        for u in range(5):
            vals.append((v, u))
    for h in range(0, 1001):          # every thousandth around the rounding boundaries 0.000 .. 1.000
        vals.append((h / 1000.0, rng.randrange(5)))
    for _ in range(ctx.n(6000, 200000)):
        vals.append(geom.rand_size(rng))
    sizes = [geom.mk_size(v) for v in vals]
    printed = [impl.call(str, s) for s in sizes]
    models = oracle_batch([(1802, geom.w_size(s)) for s in sizes])
    oks = oracle_batch([(1803, [geom.w_size(s), p.v if isinstance(p, Ok) else ""]) for s, p in zip(sizes, printed)])
    reparse = []
    for s, p, m, ok in zip(sizes, printed, models, oks):
        res["evaluations"] += 1
        desc = [repr(s.value), s.unit.value]
        if isinstance(p, Err) or ok != 1:
            res["violations"].append({"kind": "print-wrong", "replay": "print", "input": desc, "impl_obs": repr(p),
                                      "what": f"str(Size({s.value!r}, {s.unit.value})) = {p!r}: not the value rounded "
                                              f"to two decimals in canonical form"})
            continue
        if exact(s.value) * 100 % 1 != 0:
            res["nontrivial"].add(("print", s.value, s.unit.value))
        if p.v != m:
            res["disagreements"].append({"stream": "print", "input": desc, "impl": p.v, "model": m})
        reparse.append((s, p.v))
    # re-parsing a printed value reproduces it: same unit, value within 1/200, and it prints to the same string
    back = [impl.call(Size.from_string, p) for _, p in reparse]
    for (s, p), b in zip(reparse, back):
        res["evaluations"] += 1
        # float(printed) is the binary64 nearest to the printed decimal: relative error 2^-53 on top of the 1/200
        good = isinstance(b, Ok) and b.v.unit == s.unit and abs(exact(b.v.value) - exact(s.value)) <= Fraction(1, 200) \
            + Fraction(1, 10**9) + abs(exact(s.value)) / 2**52 and str(b.v) == p
        if not good:
            res["violations"].append({"kind": "print-reparse", "replay": "print", "input": [repr(s.value), s.unit.value],
                                      "impl_obs": repr(b), "what": f"Size.from_string(str(Size({s.value!r}, "
                                      f"{s.unit.value}))) = from_string({p!r}) -> {b!r}: does not reproduce the printed value"})
    res["distribution"]["print_values"] = len(vals)


# ------------------------------------------------------------------------------------------------ C
KINDS = ["other", "size", "point", "stretch", "padding", "alignment", "layout"]


def grid_values(rng, nmag):
    """abstract tagged values: exhaustive in units / alignments / None-ness, sampled in magnitudes"""
    mags = [0, 1, 1.0, 0.5, 10, 33.33, 100] + [geom.rand_value(rng) for _ in range(nmag)]
    vals = [("other", None), ("other", 0), ("other", "10px"), ("other", (1, 0))]
    sizes = [(m, u) for u in range(5) for m in mags]
    vals += [("size", s) for s in sizes]
    pick = lambda: rng.choice(sizes)  # noqa: E731
    for u1 in range(5):
        for u2 in range(5):
            for _ in range(2):
                a, b = (rng.choice(mags), u1), (rng.choice(mags), u2)
                vals.append(("point", (a, b)))
                vals.append(("stretch", (a, b)))
    for _ in range(40):
        vals.append(("padding", (pick(), pick(), pick(), pick())))
    aligns = [(h, v) for h in [None, 0, 1, 2, 3, 4] for v in [None, 0, 1, 2]]
    vals += [("alignment", a) for a in aligns]
    # layouts: every None-ness pattern of the four parts x a few fillings x webvtt strings
    for mask in range(16):
        for _ in range(4):
            o = (pick(), pick()) if mask & 1 else None
            e = (pick(), pick()) if mask & 2 else None
            p = (pick(), pick(), pick(), pick()) if mask & 4 else None
            a = rng.choice(aligns) if mask & 8 else None
            w = rng.choice([None, None, "", "line:5%", "align:left"])
            vals.append(("layout", (o, e, p, a, w)))
    return vals


def build_val(v):
    k, x = v
    if k == "other":
        return x
    return {"size": geom.mk_size, "point": geom.mk_point, "stretch": geom.mk_stretch, "padding": geom.mk_padding,
            "alignment": geom.mk_align, "layout": geom.mk_layout}[k](x)


def wire_val(v):
    k, x = v
    if k == "other":
        return [0, 0]
    f = {"size": geom.a_size_w, "point": geom.a_pair_w, "stretch": geom.a_pair_w, "padding": geom.a_padding_w,
         "alignment": geom.a_align_w, "layout": geom.a_layout_w}[k]
    return [KINDS.index(k), f(x)]


def perturb(rng, v):
    """a value of the same kind differing in at most one component (so that near-equal pairs are frequent)"""
    k, x = v
    def ps(s):  # noqa: E306
        r = rng.random()
        if r < 0.4:
            return s
        if r < 0.7:
            return (s[0], (s[1] + 1) % 5)
        return (s[0] + rng.choice([1, 0.01, 1e-9]), s[1])
    if k == "other":
        return v
    if k == "size":
        return (k, ps(x))
    if k in ("point", "stretch"):
        i = rng.randrange(2)
        return (k, tuple(ps(s) if j == i else s for j, s in enumerate(x)))
    if k == "padding":
        i = rng.randrange(4)
        return (k, tuple(ps(s) if j == i else s for j, s in enumerate(x)))
    if k == "alignment":
        return (k, rng.choice([x, (x[0], rng.choice([None, 0, 1, 2])), (rng.choice([None, 0, 1, 2, 3, 4]), x[1])]))
    o, e, p, a, w = x
    i = rng.randrange(6)
    if i == 0 and o:
        o = (ps(o[0]), o[1])
    elif i == 1 and e:
        e = (e[0], ps(e[1]))
    elif i == 2 and p:
        p = (p[0], p[1], ps(p[2]), p[3])
    elif i == 3:
        a = rng.choice([a, None, (0, 0)])
    elif i == 4:
        w = rng.choice([None, "", "position:1%"])
    elif i == 5:
        o = None if o else o
    return (k, (o, e, p, a, w))


def obs_eq(a, b):
    e = impl.call(lambda: bool(a == b))
    n = impl.call(lambda: bool(a != b))
    if isinstance(e, Err) or isinstance(n, Err):
        return None
    try:
        h = hash(a) == hash(b)
    except TypeError:
        h = True
    return e.v, n.v, h


def stream_eq(ctx, res):
    rng = ctx.rng
    vals = grid_values(rng, ctx.n(6, 20))
    pairs = []
    for v in vals:                       # reflexive pairs on separately built objects, and one perturbation each
        pairs.append((v, v))
        pairs.append((v, perturb(rng, v)))
    for _ in range(ctx.n(30000, 1000000)):
        a = rng.choice(vals)
        r = rng.random()
        b = perturb(rng, a) if r < 0.5 else rng.choice(vals)
        pairs.append((a, b))
    obs = []
    reqs_m, reqs_ok = [], []
    for a, b in pairs:
        oa, ob = build_val(a), build_val(b)
        o = obs_eq(oa, ob)
        obs.append(o)
        wa, wb = wire_val(a), wire_val(b)
        reqs_m.append((1808, [wa, wb]))
        reqs_ok.append((1809, [wa, wb] + list(o if o else (False, False, False))))
    models = oracle_batch(reqs_m)
    oks = oracle_batch(reqs_ok)
    kinds = {}
    for (a, b), o, m, ok in zip(pairs, obs, models, oks):
        res["evaluations"] += 1
        kinds[a[0] + "/" + b[0]] = kinds.get(a[0] + "/" + b[0], 0) + 1
        if a[0] == "other" and b[0] == "other":
            continue
        if o is None or ok != 1:
            if o is None:
                kind, what = "eq-raises", "== or != raised"
            elif o[0] and not o[2]:
                kind, what = "eq-hash", "equal values with different hashes"
            elif o[1] == o[0]:
                kind, what = "eq-ne", "== and != agree"
            else:
                kind, what = "eq-components", "== is not component-wise equality"
            res["violations"].append({"kind": kind, "replay": "eq", "input": [a, b], "impl_obs": o,
                                      "what": f"{a!r} vs {b!r}: {what} (==, !=, hash-eq) = {o}"})
            continue
        if a != b and a[0] == b[0]:
            res["nontrivial"].add(("eq", repr(a), repr(b)))
        if bool(m) != o[0]:
            res["disagreements"].append({"stream": "eq", "input": [a, b], "impl": o, "model": m})
    res["distribution"]["eq_pairs"] = len(pairs)
    res["distribution"]["eq_grid_values"] = len(vals)
    res["distribution"]["eq_pair_kinds"] = kinds


# ------------------------------------------------------------------------------------------------ D
def obs_padding(s):
    r = impl.call(Padding.from_xml_attribute, s)
    if isinstance(r, Ok):
        return Ok(geom.w_padding(r.v))
    return r


def obs_two(cls, s):
    r = impl.call(cls.from_xml_attribute, s)
    if isinstance(r, Ok):
        a, b = (r.v.x, r.v.y) if cls is Point else (r.v.horizontal, r.v.vertical)
        return Ok([geom.w_size(a), geom.w_size(b)])
    return r


def stream_attr(ctx, res):
    rng = ctx.rng
    toks = ["1px", "2px", "3px", "4px", "5%", "10%", "0", "1.5em", "2c", "12pt", "0.25%", "7", "px", "", "1 px", "-1px",
            "100%", "33.33%", "1e2px", "00", "3PX"]
    good = toks[:11]
    cases = []
    for k in range(1, 6):                               # every arity with distinct sizes: fixes the order
        cases.append(" ".join(good[:k]))
    for _ in range(ctx.n(3000, 60000)):
        k = rng.choice([1, 1, 2, 2, 3, 3, 4, 4, 4, 5, 6, 0])
        pool = good if rng.random() < 0.75 else toks
        sep = " " if rng.random() < 0.9 else rng.choice(["  ", "\t", ",", " \n"])
        cases.append(sep.join(rng.choice(pool) for _ in range(k)))
    obs = [obs_padding(s) for s in cases]
    models = oracle_batch([(1806, s) for s in cases])
    oks = oracle_batch([(1807, [s, o]) for s, o in zip(cases, obs)])
    ar = {}
    for s, o, m, ok in zip(cases, obs, models, oks):
        res["evaluations"] += 1
        if not in_alphabet_domain(s) or any(not in_alphabet_domain(t) for t in s.split(" ")):
            continue
        n = len(s.split(" "))
        ar[n] = ar.get(n, 0) + 1
        if ok != 1:
            res["violations"].append({"kind": "padding-order", "replay": "padding", "input": s, "impl_obs": repr(o),
                                      "what": f"Padding.from_xml_attribute({s!r}) -> {o!r}: not the TTML expansion "
                                              f"(before, end, after, start) / wrong error"})
            continue
        if isinstance(o, Ok):
            res["nontrivial"].add(("padding", s))
        mm = r_result(m, lambda v: [[Fraction(x[0][0], x[0][1]), x[1]] for x in v])
        if not same_sizes(mm, o):
            res["disagreements"].append({"stream": "padding", "input": s, "impl": repr(o), "model": repr(mm)})
    res["distribution"]["padding_arity_histogram"] = ar
    # Point / Stretch attributes
    cases2 = []
    for _ in range(ctx.n(2000, 40000)):
        k = rng.choice([2, 2, 2, 2, 1, 3, 0])
        pool = good if rng.random() < 0.75 else toks
        cases2.append((rng.choice([Point, Stretch]), " ".join(rng.choice(pool) for _ in range(k))))
    obs = [obs_two(c, s) for c, s in cases2]
    models = oracle_batch([(1810, s) for _, s in cases2])
    oks = oracle_batch([(1811, [s, o]) for (_, s), o in zip(cases2, obs)])
    for (c, s), o, m, ok in zip(cases2, obs, models, oks):
        res["evaluations"] += 1
        if ok != 1:
            res["violations"].append({"kind": "two-sizes", "replay": "two", "input": [c.__name__, s], "impl_obs": repr(o),
                                      "what": f"{c.__name__}.from_xml_attribute({s!r}) -> {o!r}"})
            continue
        if isinstance(o, Ok):
            res["nontrivial"].add(("two", c.__name__, s))
        mm = r_result(m, lambda v: [[Fraction(x[0][0], x[0][1]), x[1]] for x in v])
        if not same_sizes(mm, o):
            res["disagreements"].append({"stream": "two", "input": [c.__name__, s], "impl": repr(o), "model": repr(mm)})


def same_sizes(m, o):
    if isinstance(m, Err) or isinstance(o, Err):
        return m == o
    return len(m.v) == len(o.v) and all(same_parse(Ok(a), Ok(b)) for a, b in zip(m.v, o.v))


# ------------------------------------------------------------------------------------------------ E
DIMS = [(640, 360), (1920, 1080), (None, 360), (640, None), (None, None), (3, 7), (0, 0), (1280.5, 720)]


def stream_fresh(ctx, res):
    """relativizing / fitting leaves the receiver (and everything reachable from it) untouched; two equal
    receivers give equal results (the result is a function of the value)"""
    rng = ctx.rng
    n_changed = 0
    for i in range(ctx.n(4000, 100000)):
        kind = rng.choice(["size", "point", "stretch", "padding", "layout", "layout", "layout"])
        w, h = rng.choice(DIMS)
        if kind == "size":
            x = geom.rand_size(rng, wild=False)
            obj, twin = geom.mk_size(x), geom.mk_size(x)
            ax = rng.random() < 0.5
            ops = [lambda o: o.as_percentage_of(video_width=w if ax else None, video_height=None if ax else h)]
        elif kind in ("point", "stretch"):
            x = (geom.rand_size(rng, wild=False), geom.rand_size(rng, wild=False))
            mk = geom.mk_point if kind == "point" else geom.mk_stretch
            obj, twin = mk(x), mk(x)
            ops = [lambda o: o.as_percentage_of(w, h)]
        elif kind == "padding":
            x = tuple(geom.rand_size(rng, wild=False) for _ in range(4))
            obj, twin = geom.mk_padding(x), geom.mk_padding(x)
            ops = [lambda o: o.as_percentage_of(w, h)]
        else:
            units = rng.choice([(2,), (2,), (0, 1, 2, 3, 4), (0, 2)])
            x = geom.rand_layout(rng, units=units, webvtt=True, wild=False)
            obj, twin = geom.mk_layout(x), geom.mk_layout(x)
            ops = [lambda o: o.as_percentage_of(w, h), lambda o: o.fit_to_screen()]
        for op in ops:
            before = geom.snap(obj)
            r = impl.call(op, obj)
            after = geom.snap(obj)
            r2 = impl.call(op, twin)
            res["evaluations"] += 1
            same = (isinstance(r, Err) and r == r2) or (isinstance(r, Ok) and isinstance(r2, Ok)
                                                        and geom.snap(r.v) == geom.snap(r2.v))
            if isinstance(r, Ok) and geom.snap(r.v) != before:
                n_changed += 1
                res["nontrivial"].add(("fresh", kind, repr(x), w, h))
            if before != after or not same:
                res["violations"].append({
                    "kind": "receiver-modified" if before != after else "result-not-a-function-of-the-value",
                    "replay": "fresh", "input": [kind, x, w, h],
                    "what": f"{kind} {x!r} as_percentage_of/fit_to_screen (video {w}x{h}): "
                            + ("the receiver was modified" if before != after else "equal receivers gave different results"),
                    "impl_obs": [repr(before), repr(after)]})
    res["distribution"]["fresh_results_differing_from_receiver"] = n_changed


# ------------------------------------------------------------------------------------------------
def run(ctx):
    res = {"evaluations": 0, "nontrivial": set(), "violations": [], "disagreements": [], "distribution": {},
           "streams": 5, "notes": []}
    stream_parse(ctx, res)
    stream_print(ctx, res)
    stream_eq(ctx, res)
    stream_attr(ctx, res)
    stream_fresh(ctx, res)
    res["rule"] = ("parse: exhaustive short strings over the alphabet %r + structured long strings, non-trivial = accepted; "
                   "print: value grid + random non-negative binary64 values x 5 units, non-trivial = not a multiple of "
                   "0.01; eq: pairs over a grid exhaustive in units/alignments/None-ness, non-trivial = distinct values "
                   "of the same kind; padding/point/stretch attributes: non-trivial = accepted; transformations: "
                   "non-trivial = result differs from receiver. Distinct inputs counted." % ALPHABET)
    res["samples"] = [{"parse": "12.5%"}, {"print": [2.675, "px"]}, {"eq": "Layout(origin=(10%,10%)) vs Layout(origin=(10%,10px))"},
                      {"padding": "1px 2px 3px 4px"}]
    res["clauses"] = {
        "theorem": ["== is component-wise (all six kinds), reflexive/symmetric/transitive",
                    "equal values have equal hashes for every hash function on floats/enums/None/ints",
                    "Size.from_string accepts exactly the size language (all strings) and returns the denoted value",
                    "printing: within 1/200, canonical two-decimal form; parse(print(a)) = round2(a); print o parse o print = print",
                    "padding shorthand expands in TTML order",
                    "relativize / fit keep the components they do not recompute; relative layouts are fixed points"],
        "correspondence_only": ["the regex engine / float() / round() / f-string formatting behind from_string and __str__",
                                "receiver not modified by as_percentage_of / fit_to_screen (deep snapshot, execution)",
                                "CPython hash() on floats, enum members, None (abstract in the theorem)",
                                "cross-type and None operands of == (`other and type(self) == type(other)`)"]}
    res["notes"].append("strings with a final newline (Python `$`) or non-ASCII digits are outside the statement's "
                        "alphabet; counted in distribution and compared leniently")
    return res


def replay(ctx, rec):
    from wire import oracle1
    tag = rec.get("replay")
    if tag == "parse":
        s = rec["input"]
        o = obs_parse(s)
        ok = oracle1(1801, [s, o])
        if s.endswith("\n"):
            ok = 1 if ok == 1 or oracle1(1801, [s[:-1], o]) == 1 else 0
        return ok != 1, repr(o)
    if tag == "print":
        v, u = rec["input"]
        s = Size(float(v), UnitEnum(u))
        p = impl.call(str, s)
        if isinstance(p, Err):
            return True, repr(p)
        ok = oracle1(1803, [geom.w_size(s), p.v])
        b = impl.call(Size.from_string, p.v)
        good = isinstance(b, Ok) and b.v.unit == s.unit and str(b.v) == p.v
        return ok != 1 or not good, [p.v, repr(b)]
    if tag == "eq":
        def fix(v):
            k, x = v
            def t(y):  # noqa: E306
                return tuple(t(z) for z in y) if isinstance(y, list) else y
            return (k, t(x))
        a, b = fix(rec["input"][0]), fix(rec["input"][1])
        o = obs_eq(build_val(a), build_val(b))
        if o is None:
            return True, "raised"
        ok = oracle1(1809, [wire_val(a), wire_val(b)] + list(o))
        return ok != 1, o
    if tag == "padding":
        o = obs_padding(rec["input"])
        return oracle1(1807, [rec["input"], o]) != 1, repr(o)
    if tag == "two":
        c, s = rec["input"]
        o = obs_two(Point if c == "Point" else Stretch, s)
        return oracle1(1811, [s, o]) != 1, repr(o)
    if tag == "fresh":
        from fractions import Fraction as F

        def t(y):
            if isinstance(y, list):
                return tuple(t(z) for z in y)
            if isinstance(y, str) and "/" in y and y.replace("/", "").replace("-", "").isdigit():
                return F(y)
            return y
        kind, x, w, h = rec["input"]
        x = t(x)
        mk = {"size": geom.mk_size, "point": geom.mk_point, "stretch": geom.mk_stretch, "padding": geom.mk_padding,
              "layout": geom.mk_layout}[kind]
        bad = []
        for axis in (True, False):
            obj, twin = mk(x), mk(x)
            if kind == "size":
                ops = [lambda o: o.as_percentage_of(video_width=w if axis else None, video_height=None if axis else h)]
            elif kind == "layout":
                ops = [lambda o: o.as_percentage_of(w, h), lambda o: o.fit_to_screen()]
            else:
                ops = [lambda o: o.as_percentage_of(w, h)]
            for op in ops:
                before = geom.snap(obj)
                r = impl.call(op, obj)
                r2 = impl.call(op, twin)
                same = (isinstance(r, Err) and r == r2) or (isinstance(r, Ok) and isinstance(r2, Ok)
                                                            and geom.snap(r.v) == geom.snap(r2.v))
                if geom.snap(obj) != before or not same:
                    bad.append(repr(before) + " -> " + repr(geom.snap(obj)))
        return bool(bad), bad[:2]
    return False, "unknown replay tag"
