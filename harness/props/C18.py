"""C18 - geometry values compare, hash, parse and print consistently.

Streams (extracted model coq/model/Geometry.v vs the implementation, and the Coq property oracles of coq/spec/SpecGeom.v
evaluated on what the implementation produced):
  A  Size.from_string on every string of length <= 4 (quick) / 5 (thorough) over the 15-character alphabet
     0 1 5 9 . + - e space p x m c t %  plus structured longer strings (digit runs up to 30, 309 and 400 digits, leading
     zeros, every unit, near-misses, trailing newlines, non-ASCII digits); oracle ok_parse on EVERY string (no
     exclusion).  Every accepted string is then printed and re-parsed (parse -> print -> parse): oracle ok_print_stmt.
  B  str(Size) for non-negative values (grid, every thousandth in [0,1], random, 1e13..1e22, 2^53+-1) x 5 units;
     oracle ok_print_stmt (<= 2 decimals, unit, within 1/200); re-parse reproduces the printed value.  Model printer:
     compared by VALUE; a different neighbour on an exact decimal tie and a non-canonical but correct form are counted,
     not reported.
  C  ==, !=, hash on pairs of geometry values of every kind (Size .. Layout, None, other types, a subclass instance),
     exhaustive in units / alignments / None-ness (incl. Padding with omitted parts), sampled in magnitudes, with
     adjacent binary64 values (nextafter) and sums such as 0.1+0.2 vs 0.3; oracle ok_eq_g.  An unhashable geometry
     value is a violation.
  D  Padding.from_xml_attribute: judged where the statement speaks (1-4 strings of the size language separated by
     single spaces; oracle ok_padding); everything else counted.  Point/Stretch.from_xml_attribute: not in the
     statement, compared with the model on two well-formed sizes only (disagreement at most).
  E  as_percentage_of / fit_to_screen on every kind: the receiver's geometric fields before == after, equal receivers
     give equal results, and the result equals the model's (request 1302 / 1300) - ties the relativize/fit theorems.
"""
import itertools
import math
from fractions import Fraction

import impl
import geom
from geom import exact, Some
from wire import Ok, Err, oracle_batch, r_result
from pycaption.geometry import Size, Point, Stretch, Padding, Alignment, Layout, UnitEnum

TABLES = ("GenGeom.v",)
ALPHABET = "0159.+-e pxmct%"
TINY = Fraction(1, 2**1074)


def finite(x):
    return isinstance(x, int) or (not math.isinf(x) and not math.isnan(x))


# ------------------------------------------------------------------------------------------------ A
def obs_parse(s):
    """Ok([value, unit]) | Err(code) | ("overflow", unit) when the implementation holds inf"""
    r = impl.call(Size.from_string, s)
    if isinstance(r, Ok):
        if not finite(r.v.value):
            return ("overflow", geom.UNITS.index(r.v.unit), r.v)
        return Ok([exact(r.v.value), geom.UNITS.index(r.v.unit)])
    return r


def structured_strings(rng, n):
    out = ["1" + "0" * 309 + "px", "9" * 400 + "%", "1" + "0" * 308 + "em", "0." + "0" * 40 + "1c", "1" + "0" * 320 + ".5pt"]
    digs = ["0", "1", "7", "00", "007", "10", "100", "12345678901234567890", "99999", "3", "33", "0" * 30 + "1",
            "9007199254740993", "10000000000000000", "1" + "0" * 22]
    fracs = ["", ".0", ".5", ".50", ".05", ".333333333333333333333", ".", ".x", ".5.5", "..5", ".00", ".999", ".005", ".125"]
    units = ["px", "em", "%", "c", "pt", "", "PX", "p", "x", "pxx", "ppx", "cm", "mm", "in", "pc", "ptx", "%%", "c ",
             " px", "px ", "px\n", "px\n\n", "\npx", "em\r", "e", "m", "t", "pt%", "e3px", "cpx", "ptpx", "%\n", "c\n"]
    pre = ["", "", "", "", "+", "-", " ", ".", "0x", "1e", "\n"]
    for _ in range(n):
        r = rng.random()
        if r < 0.6:
            s = rng.choice(pre) + rng.choice(digs) + rng.choice(fracs) + rng.choice(units)
        elif r < 0.8:
            s = "".join(rng.choice(ALPHABET) for _ in range(rng.randint(5, 9)))
        elif r < 0.9:
            s = str(rng.randint(0, 10**rng.randint(1, 25))) + rng.choice(["", "." + str(rng.randint(0, 10**6))]) \
                + rng.choice(["px", "em", "%", "c", "pt"])
        else:
            s = rng.choice(["٣px", "５%", "1.٣em", "0\n", "0\n\n", "\n0", "0 ", " 0", "00", "0.0", "0px", "0%",
                            "5px\n", "5\npx", "", "\n", "px", "%", "5 px", "5px 6px", "1,5px", "1_0px", "１２c",
                            "5px ", "5 px", "٣", "1e+16px", "infpx", "nanpx", "1E3px"])
        out.append(s)
    return out


def stream_parse(ctx, res):
    L = ctx.n(4, 5)
    strings = [""]
    for k in range(1, L + 1):
        strings.extend("".join(t) for t in itertools.product(ALPHABET, repeat=k))
    strings.extend(structured_strings(ctx.rng, ctx.n(6000, 100000)))
    obs = [obs_parse(s) for s in strings]
    models = oracle_batch([(1800, s) for s in strings])
    oks = oracle_batch([(1801, [s, o if not isinstance(o, tuple) else Err(2)]) for s, o in zip(strings, obs)])
    accepted, overflow = [], 0
    for s, o, m, ok in zip(strings, obs, models, oks):
        res["evaluations"] += 1
        mm = r_result(m, lambda v: [Fraction(v[0][0], v[0][1]), v[1]])
        if isinstance(o, tuple):
            # binary64 overflow: the string is in the size language, the implementation accepts it with value inf
            overflow += 1
            res["violations"].append({"kind": "parse-overflow", "shape": "inf", "replay": "parse", "input": s,
                                      "impl_obs": "inf " + geom.UNIT_NAMES[o[1]],
                                      "what": f"Size.from_string of a {len(s)}-character decimal number returns the value "
                                              f"inf (printing it gives {impl.call(str, o[2])!r}, which does not re-parse)"})
            continue
        if isinstance(o, Ok):
            accepted.append((s, o))
            res["nontrivial"].add(("parse", s))
        if ok != 1:
            res["violations"].append({
                "kind": "parse-accepts" if isinstance(o, Ok) else "parse-rejects",
                "replay": "parse", "input": s, "impl_obs": repr(o),
                "what": f"Size.from_string({s!r}) -> {o!r}; the size language says "
                        f"{'reject with the syntax error' if isinstance(o, Ok) else 'accept (or a different error was raised)'}"})
        elif not same_parse(mm, o):
            res["disagreements"].append({"stream": "parse", "input": s, "impl": repr(o), "model": repr(mm)})
    d = res["distribution"]
    d["parse_strings"] = len(strings)
    d["parse_exhaustive_max_len"] = L
    d["parse_accepted"] = len(accepted)
    d["parse_binary64_overflow(known finding C18-parse-overflow)"] = overflow
    d["parse_excluded"] = 0
    # parse -> print -> parse on every accepted string (values up to 1e30 and down to 1e-21 come from here)
    sizes = [Size(float(o.v[0]), geom.UNITS[o.v[1]]) for _, o in accepted]
    check_print(res, sizes, "parse-print-parse", [s for s, _ in accepted])
    d["parse_print_parse_composed"] = len(sizes)


def same_parse(m, o):
    if isinstance(m, Err) or isinstance(o, Err):
        return m == o
    (mv, mu), (ov, ou) = m.v, o.v
    # float(decimal string) is the nearest binary64 to the exact decimal value the model holds (or 0 / denormal)
    return mu == ou and (mv == ov or abs(ov - mv) <= abs(mv) * Fraction(1, 2**52) + TINY)


# ------------------------------------------------------------------------------------------------ B
def parse_printed(p):
    """printed size -> (Fraction, unit name) or None (independent of the implementation's parser)"""
    for u in sorted(geom.UNIT_NAMES, key=len, reverse=True):
        if p.endswith(u):
            num = p[:-len(u)]
            parts = num.split(".")
            if 1 <= len(parts) <= 2 and all(x != "" and all(c in "0123456789" for c in x) for x in parts):
                return Fraction(num), u
            return None
    return None


def check_print(res, sizes, stream, origin=None):
    printed = [impl.call(str, s) for s in sizes]
    wires = [geom.w_size(s) for s in sizes]
    models = oracle_batch([(1802, w) for w in wires])
    oks = oracle_batch([(1813, [w, p.v if isinstance(p, Ok) else ""]) for w, p in zip(wires, printed)])
    strong = oracle_batch([(1803, [w, p.v if isinstance(p, Ok) else ""]) for w, p in zip(wires, printed)])
    d = res["distribution"]
    for i, (s, p, m, ok, st) in enumerate(zip(sizes, printed, models, oks, strong)):
        res["evaluations"] += 1
        desc = [repr(s.value), s.unit.value] + ([origin[i]] if origin else [])
        if isinstance(p, Err) or ok != 1:
            res["violations"].append({"kind": "print-wrong", "replay": "print", "input": desc[:2], "impl_obs": repr(p),
                                      "what": f"str(Size({s.value!r}, {s.unit.value})) = {p!r}: not the value rounded "
                                              f"to two decimals with its unit" + (f" (value parsed from {origin[i]!r})" if origin else "")})
            continue
        v = exact(s.value)
        if v * 100 % 1 != 0:
            res["nontrivial"].add((stream, s.value, s.unit.value))
        if st != 1:
            d["print_correct_but_not_canonical(information)"] = d.get("print_correct_but_not_canonical(information)", 0) + 1
        if p.v != m:
            pv, mv = parse_printed(p.v), parse_printed(m)
            if pv is not None and pv == mv:
                d["print_same_value_other_form_than_model(information)"] = d.get("print_same_value_other_form_than_model(information)", 0) + 1
            elif pv is not None and mv is not None and pv[1] == mv[1] and (v * 100) % 1 == Fraction(1, 2) \
                    and abs(pv[0] - mv[0]) == Fraction(1, 100):
                # exact decimal tie: DESIGN 7.0 x allows either neighbour
                d["print_other_neighbour_on_exact_tie(information)"] = d.get("print_other_neighbour_on_exact_tie(information)", 0) + 1
            else:
                res["disagreements"].append({"stream": stream, "input": desc, "impl": p.v, "model": m})
        # re-parsing a printed value reproduces it: same unit, value within 1/200 (+ the binary64 error of float(printed)),
        # and it prints to the same string again
        b = impl.call(Size.from_string, p.v)
        res["evaluations"] += 1
        good = isinstance(b, Ok) and b.v.unit == s.unit and finite(b.v.value) \
            and abs(exact(b.v.value) - v) <= Fraction(1, 200) + Fraction(1, 10**9) + abs(v) / 2**52 and str(b.v) == p.v
        if not good:
            res["violations"].append({"kind": "print-reparse", "replay": "print", "input": desc[:2], "impl_obs": repr(b),
                                      "what": f"Size.from_string(str(Size({s.value!r}, {s.unit.value}))) = from_string({p.v!r}) "
                                              f"-> {b!r}: does not reproduce the printed value"})


def stream_print(ctx, res):
    rng = ctx.rng
    vals = []
    for v in geom.VALUE_GRID:
        for u in range(5):
            vals.append((v, u))
    for h in range(0, 1001):          # every thousandth around the rounding boundaries 0.000 .. 1.000
        vals.append((h / 1000.0, rng.randrange(5)))
    big = [1e13, 1e15, 1e16, 1.5e16, 1e17, 1e21, 1e22, 9.999999999999999e22, 2.0**53, 2.0**53 - 1, 2.0**53 + 2, 123456789012345.67,
           4503599627370496.5, 1e13 + 0.005, 99999999999999.99, 1e300]
    for v in big:
        vals.append((v, rng.randrange(5)))
    for _ in range(ctx.n(6000, 200000)):
        vals.append(geom.rand_size(rng))
    for _ in range(ctx.n(300, 10000)):
        vals.append((rng.random() * 10 ** rng.randint(12, 23), rng.randrange(5)))
    check_print(res, [geom.mk_size(v) for v in vals], "print")
    res["distribution"]["print_values"] = len(vals)


# ------------------------------------------------------------------------------------------------ C
KINDS = ["other", "size", "point", "stretch", "padding", "alignment", "layout"]


class SubSize(Size):
    """a subclass instance: `type(self) == type(other)` makes it a value of another kind"""


def grid_values(rng, nmag):
    """abstract tagged values: exhaustive in units / alignments / None-ness, sampled in magnitudes"""
    mags = [0, 1, 1.0, 0.5, 10, 33.33, 100, 0.1 + 0.2, 0.3, 1e16, 1e16 + 2] + [geom.rand_value(rng) for _ in range(nmag)]
    vals = [("other", None), ("other", 0), ("other", "10px"), ("other", (1, 0)), ("other", "subsize")]
    sizes = [(m, u) for u in range(5) for m in mags]
    vals += [("size", s) for s in sizes]
    pick = lambda: rng.choice(sizes)  # noqa: E731
    for u1 in range(5):
        for u2 in range(5):
            for _ in range(2):
                a, b = (rng.choice(mags), u1), (rng.choice(mags), u2)
                vals.append(("point", (a, b)))
                vals.append(("stretch", (a, b)))
    for _ in range(40):
        vals.append(("padding", (pick(), pick(), pick(), pick())))
    for mask in range(15):                 # Padding(...) with omitted parts (they default to 0%)
        vals.append(("padding", tuple(pick() if mask & (1 << i) else None for i in range(4))))
    aligns = [(h, v) for h in [None, 0, 1, 2, 3, 4] for v in [None, 0, 1, 2]]
    vals += [("alignment", a) for a in aligns]
    # layouts: every None-ness pattern of the four parts x a few fillings x webvtt strings
    for mask in range(16):
        for _ in range(4):
            o = (pick(), pick()) if mask & 1 else None
            e = (pick(), pick()) if mask & 2 else None
            p = (pick(), pick(), pick(), pick()) if mask & 4 else None
            a = rng.choice(aligns) if mask & 8 else None
            w = rng.choice([None, None, "", "line:5%", "align:left"])
            vals.append(("layout", (o, e, p, a, w)))
    return vals


def build_val(v):
    k, x = v
    if k == "other":
        return SubSize(1, UnitEnum.PIXEL) if x == "subsize" else x
    return {"size": geom.mk_size, "point": geom.mk_point, "stretch": geom.mk_stretch, "padding": geom.mk_padding,
            "alignment": geom.mk_align, "layout": geom.mk_layout}[k](x)


def wire_val(v):
    k, x = v
    if k == "other":
        return [0, 0]
    f = {"size": geom.a_size_w, "point": geom.a_pair_w, "stretch": geom.a_pair_w, "padding": geom.a_padding_w,
         "alignment": geom.a_align_w, "layout": geom.a_layout_w}[k]
    return [KINDS.index(k), f(x)]


def perturb(rng, v):
    """a value of the same kind differing in at most one component (so that near-equal pairs are frequent):
    another unit, +1, +0.01, +1e-9, the ADJACENT binary64 value, one relative ulp"""
    k, x = v
    def ps(s):  # noqa: E306
        if s is None:
            return rng.choice([None, (0, 2), (0.0, 2), (0, 0)])
        r = rng.random()
        if r < 0.3:
            return s
        if r < 0.5:
            return (s[0], (s[1] + 1) % 5)
        f = float(geom.num(s[0]))
        if r < 0.7:
            return (f + rng.choice([1, 0.01, 1e-9]), s[1])
        if r < 0.9:
            return (math.nextafter(f, rng.choice([math.inf, 0.0])), s[1])
        return (f * (1 + 2.0**-52) if f else 5e-324, s[1])
    if k == "other":
        return v
    if k == "size":
        return (k, ps(x))
    if k in ("point", "stretch"):
        i = rng.randrange(2)
        return (k, tuple(ps(s) if j == i else s for j, s in enumerate(x)))
    if k == "padding":
        i = rng.randrange(4)
        return (k, tuple(ps(s) if j == i else s for j, s in enumerate(x)))
    if k == "alignment":
        return (k, rng.choice([x, (x[0], rng.choice([None, 0, 1, 2])), (rng.choice([None, 0, 1, 2, 3, 4]), x[1])]))
    o, e, p, a, w = x
    i = rng.randrange(7)
    j = rng.randrange(2)
    if i == 0 and o:
        o = tuple(ps(s) if n == j else s for n, s in enumerate(o))
    elif i == 1 and e:
        e = tuple(ps(s) if n == j else s for n, s in enumerate(e))
    elif i == 2 and p:
        q = rng.randrange(4)
        p = tuple(ps(s) if n == q else s for n, s in enumerate(p))
    elif i == 3:
        a = rng.choice([a, None, (0, 0)])
    elif i == 4:
        w = rng.choice([None, "", "position:1%"])
    elif i == 5:
        o = None if o else o
    elif i == 6:
        e, p = (None if e else e), (None if rng.random() < 0.5 else p)
    return (k, (o, e, p, a, w))


def obs_eq(a, b, ka, kb):
    """(eq, ne, hash-eq) | "raises" | "unhashable" """
    e = impl.call(lambda: bool(a == b))
    n = impl.call(lambda: bool(a != b))
    if isinstance(e, Err) or isinstance(n, Err):
        return "raises"
    hs = []
    for x, k in ((a, ka), (b, kb)):
        try:
            hs.append(hash(x))
        except TypeError:
            if k != "other":
                return "unhashable"
            hs.append(None)
    return e.v, n.v, (hs[0] == hs[1]) if None not in hs else True


def stream_eq(ctx, res):
    rng = ctx.rng
    vals = grid_values(rng, ctx.n(6, 20))
    pairs = []
    for v in vals:                       # reflexive pairs on separately built objects, and one perturbation each
        pairs.append((v, v))
        pairs.append((v, perturb(rng, v)))
    for _ in range(ctx.n(30000, 1000000)):
        a = rng.choice(vals)
        r = rng.random()
        b = perturb(rng, a) if r < 0.5 else rng.choice(vals)
        pairs.append((a, b))
    obs = []
    reqs_m, reqs_ok = [], []
    for a, b in pairs:
        oa, ob = build_val(a), build_val(b)
        o = obs_eq(oa, ob, a[0], b[0])
        obs.append(o)
        wa, wb = wire_val(a), wire_val(b)
        reqs_m.append((1808, [wa, wb]))
        reqs_ok.append((1809, [wa, wb] + list(o if isinstance(o, tuple) else (False, False, False))))
    models = oracle_batch(reqs_m)
    oks = oracle_batch(reqs_ok)
    kinds = {}
    adjacent = 0
    for (a, b), o, m, ok in zip(pairs, obs, models, oks):
        res["evaluations"] += 1
        kinds[a[0] + "/" + b[0]] = kinds.get(a[0] + "/" + b[0], 0) + 1
        if a[0] == "other" and b[0] == "other":
            continue
        if not isinstance(o, tuple) or ok != 1:
            if o == "raises":
                kind, what = "eq-raises", "== or != raised"
            elif o == "unhashable":
                kind, what = "eq-unhashable", "hash() of a geometry value raised TypeError (equal values cannot have equal hashes)"
            elif o[0] and not o[2]:
                kind, what = "eq-hash", "equal values with different hashes"
            elif o[1] == o[0]:
                kind, what = "eq-ne", "== and != agree"
            else:
                kind, what = "eq-components", "== is not component-wise equality"
            res["violations"].append({"kind": kind, "replay": "eq", "input": [a, b], "impl_obs": o,
                                      "what": f"{a!r} vs {b!r}: {what} (==, !=, hash-eq) = {o}"})
            continue
        if a != b and a[0] == b[0]:
            res["nontrivial"].add(("eq", repr(a), repr(b)))
            if a[0] == "size" and a[1][1] == b[1][1] and a[1][0] != b[1][0] \
                    and abs(exact(float(geom.num(a[1][0]))) - exact(float(geom.num(b[1][0])))) <= abs(exact(float(geom.num(a[1][0])))) / 2**51:
                adjacent += 1
        if bool(m) != o[0]:
            res["disagreements"].append({"stream": "eq", "input": [a, b], "impl": o, "model": m})
    res["distribution"]["eq_pairs"] = len(pairs)
    res["distribution"]["eq_grid_values"] = len(vals)
    res["distribution"]["eq_size_pairs_within_2_ulp"] = adjacent
    res["distribution"]["eq_pair_kinds"] = kinds
    res["distribution"]["eq_excluded"] = "negative, -0.0, inf and NaN magnitudes (statement: non-negative magnitudes): not generated"


# ------------------------------------------------------------------------------------------------ D
def obs_padding(s):
    r = impl.call(Padding.from_xml_attribute, s)
    if isinstance(r, Ok):
        return Ok(geom.w_padding(r.v))
    return r


def obs_two(cls, s):
    r = impl.call(cls.from_xml_attribute, s)
    if isinstance(r, Ok):
        a, b = (r.v.x, r.v.y) if cls is Point else (r.v.horizontal, r.v.vertical)
        return Ok([geom.w_size(a), geom.w_size(b)])
    return r


def stream_attr(ctx, res):
    rng = ctx.rng
    toks = ["1px", "2px", "3px", "4px", "5%", "10%", "0", "1.5em", "2c", "12pt", "0.25%", "7", "px", "", "1 px", "-1px",
            "100%", "33.33%", "1e2px", "00", "3PX"]
    good = toks[:11]
    cases = []
    for k in range(1, 6):                               # every arity with distinct sizes: fixes the order
        cases.append(" ".join(good[:k]))
    for _ in range(ctx.n(3000, 60000)):
        k = rng.choice([1, 1, 2, 2, 3, 3, 4, 4, 4, 5, 6, 0])
        pool = good if rng.random() < 0.75 else toks
        sep = " " if rng.random() < 0.9 else rng.choice(["  ", "\t", ",", " \n"])
        cases.append(sep.join(rng.choice(pool) for _ in range(k)))
    judged = oracle_batch([(1812, s) for s in cases])
    cases_j = [s for s, j in zip(cases, judged) if j == 1]
    obs = [obs_padding(s) for s in cases_j]
    models = oracle_batch([(1806, s) for s in cases_j])
    oks = oracle_batch([(1807, [s, o]) for s, o in zip(cases_j, obs)])
    ar = {}
    for s, o, m, ok in zip(cases_j, obs, models, oks):
        res["evaluations"] += 1
        n = len(s.split(" "))
        ar[n] = ar.get(n, 0) + 1
        if ok != 1:
            res["violations"].append({"kind": "padding-order", "replay": "padding", "input": s, "impl_obs": repr(o),
                                      "what": f"Padding.from_xml_attribute({s!r}) -> {o!r}: not the TTML expansion "
                                              f"(before, end, after, start) of its {n} size(s)"})
            continue
        res["nontrivial"].add(("padding", s))
        mm = r_result(m, lambda v: [[Fraction(x[0][0], x[0][1]), x[1]] for x in v])
        if not same_sizes(mm, o):
            res["disagreements"].append({"stream": "padding", "input": s, "impl": repr(o), "model": repr(mm)})
    # audit w7: the model (1806) against Padding.from_xml_attribute on ALL the other generated strings too - 0 or > 4 tokens,
    # malformed tokens, other separators - error class included, at disagreement level (the ValueError / syntax-error arms
    # of C18_padding_attribute were only counted before)
    rest = [s for s, j in zip(cases, judged) if j != 1]
    n_err = {}
    for s, m in zip(rest, oracle_batch([(1806, s) for s in rest])):
        res["evaluations"] += 1
        o = obs_padding(s)
        mm = r_result(m, lambda v: [[Fraction(x[0][0], x[0][1]), x[1]] for x in v])
        key = "ok" if isinstance(o, Ok) else "error class %d" % o.code
        n_err[key] = n_err.get(key, 0) + 1
        if not same_sizes(mm, o):
            res["disagreements"].append({"stream": "padding-error-arm", "input": s, "impl": repr(o), "model": repr(mm)})
    res["distribution"]["padding_attributes_outside_the_statement_compared_with_the_model(outcome classes)"] = n_err
    res["distribution"]["padding_judged_arity_histogram"] = ar
    res["distribution"]["padding_attributes_outside_the_statement(other separators, 0 or >4 sizes, malformed sizes: counted, not judged)"] = \
        len(cases) - len(cases_j)
    # Point / Stretch attributes: not in the statement; compared with the model on two well-formed sizes only
    cases2 = []
    for _ in range(ctx.n(2000, 40000)):
        k = rng.choice([2, 2, 2, 2, 1, 3, 0])
        pool = good if rng.random() < 0.75 else toks
        cases2.append((rng.choice([Point, Stretch]), " ".join(rng.choice(pool) for _ in range(k))))
    judged = oracle_batch([(1814, s) for _, s in cases2])
    cases2_j = [c for c, j in zip(cases2, judged) if j == 1]
    obs = [obs_two(c, s) for c, s in cases2_j]
    models = oracle_batch([(1810, s) for _, s in cases2_j])
    for (c, s), o, m in zip(cases2_j, obs, models):
        res["evaluations"] += 1
        mm = r_result(m, lambda v: [[Fraction(x[0][0], x[0][1]), x[1]] for x in v])
        if not same_sizes(mm, o):
            res["disagreements"].append({"stream": "two", "input": [c.__name__, s], "impl": repr(o), "model": repr(mm)})
    # audit w7: and on the strings that are NOT two well-formed sizes (0 / 1 / 3 tokens, malformed tokens): the ValueError /
    # syntax-error arms of C18_two_sizes_attribute against the real classes, disagreement level; fixed corpus of the arms first
    rest2 = [(Point, "1px"), (Stretch, "1px"), (Point, "1px 2px 3px"), (Stretch, ""), (Point, "px 1px"), (Stretch, "1px  2px"),
             (Point, "1px 2"), (Stretch, "1px\t2px")] + [c for c, j in zip(cases2, judged) if j != 1]
    n_err2 = {}
    for (c, s), m in zip(rest2, oracle_batch([(1810, s) for _, s in rest2])):
        res["evaluations"] += 1
        o = obs_two(c, s)
        mm = r_result(m, lambda v: [[Fraction(x[0][0], x[0][1]), x[1]] for x in v])
        key = "ok" if isinstance(o, Ok) else "error class %d" % o.code
        n_err2[key] = n_err2.get(key, 0) + 1
        if not same_sizes(mm, o):
            res["disagreements"].append({"stream": "two-error-arm", "input": [c.__name__, s], "impl": repr(o), "model": repr(mm)})
    res["distribution"]["point_stretch_attributes_not_two_wellformed_sizes_compared_with_the_model(outcome classes)"] = n_err2
    res["distribution"]["point_stretch_attributes_compared_with_the_model"] = len(cases2_j)
    res["distribution"]["point_stretch_attributes_not_two_wellformed_sizes(counted)"] = len(cases2) - len(cases2_j)


def same_sizes(m, o):
    if isinstance(m, Err) or isinstance(o, Err):
        return m == o
    return len(m.v) == len(o.v) and all(same_parse(Ok(a), Ok(b)) for a, b in zip(m.v, o.v))


# ------------------------------------------------------------------------------------------------ E
DIMS = [(640, 360), (1920, 1080), (None, 360), (640, None), (None, None), (3, 7), (0, 0), (1280.5, 720), (600, 600), (360, 640)]
REL = Fraction(1, 10**9)


def heap_paths(l):
    o, e, p = l.origin, l.extent, l.padding
    g = lambda x, f: None if x is None else getattr(x, f)  # noqa: E731
    return [l, o, g(o, "x"), g(o, "y"), e, g(e, "horizontal"), g(e, "vertical"), p, g(p, "before"), g(p, "after"),
            g(p, "start"), g(p, "end"), l.alignment]


def heap_profile(result, receiver):
    """per path: 1 the receiver's own object, 0 another object, 2 None"""
    return [2 if a is None else (1 if a is b else 0) for a, b in zip(heap_paths(result), heap_paths(receiver))]


def close_plain(a, b):
    """plain layouts (exact rationals): equal up to 1e-9 relative on the values, alignment equal"""
    for i in range(3):
        if (a[i] is None) != (b[i] is None):
            return False
        if a[i] is not None:
            for sa, sb in zip(a[i], b[i]):
                if sa[1] != sb[1] or abs(sa[0] - sb[0]) > REL * max(1, abs(sb[0])):
                    return False
    return a[3] == b[3]


def stream_fresh(ctx, res):
    """relativizing / fitting leaves the receiver's geometric fields (and everything reachable from them) untouched;
    two equal receivers give equal results (the result is a function of the value); the result is the model's"""
    rng = ctx.rng
    n_changed = 0
    n_model = 0
    pending = []
    heap_pending = []
    oq = lambda x: None if x is None else Some(exact(x))  # noqa: E731
    for i in range(ctx.n(4000, 100000)):
        kind = rng.choice(["size", "point", "stretch", "padding", "layout", "layout", "layout"])
        w, h = rng.choice(DIMS)
        model_req = []
        if kind == "size":
            x = geom.rand_size(rng, wild=False)
            obj, twin = geom.mk_size(x), geom.mk_size(x)
            ax = rng.random() < 0.5
            ops = [lambda o: o.as_percentage_of(video_width=w if ax else None, video_height=None if ax else h)]
            model_req = [(1300, [geom.w_size(obj), oq(w if ax else None), oq(None if ax else h)])]
        elif kind in ("point", "stretch"):
            x = (geom.rand_size(rng, wild=False), geom.rand_size(rng, wild=False))
            mk = geom.mk_point if kind == "point" else geom.mk_stretch
            obj, twin = mk(x), mk(x)
            ops = [lambda o: o.as_percentage_of(w, h)]
        elif kind == "padding":
            x = tuple(geom.rand_size(rng, wild=False) for _ in range(4))
            obj, twin = geom.mk_padding(x), geom.mk_padding(x)
            ops = [lambda o: o.as_percentage_of(w, h)]
        else:
            units = rng.choice([(2,), (2,), (0, 1, 2, 3, 4), (0, 2)])
            x = geom.rand_layout(rng, units=units, webvtt=True, wild=False)
            obj, twin = geom.mk_layout(x), geom.mk_layout(x)
            ops = [lambda o: o.as_percentage_of(w, h), lambda o: o.fit_to_screen()]
            wl = geom.w_layout(obj)
            model_req = [(1302, [True, False, oq(w), oq(h), wl]), (1302, [False, True, None, None, wl])]
            heap_req = [(1815, [0, oq(w), oq(h), wl]), (1815, [1, None, None, wl])]
        reqs = model_req if model_req else [None] * len(ops)
        for oi, (op, rq) in enumerate(zip(ops, reqs)):
            before = geom.value_snap(obj)
            r = impl.call(op, obj)
            after = geom.value_snap(obj)
            r2 = impl.call(op, twin)
            res["evaluations"] += 1
            same = (isinstance(r, Err) and r == r2) or (isinstance(r, Ok) and isinstance(r2, Ok)
                                                        and geom.value_snap(r.v) == geom.value_snap(r2.v))
            if isinstance(r, Ok) and geom.value_snap(r.v) != before:
                n_changed += 1
                res["nontrivial"].add(("fresh", kind, repr(x), w, h))
            if before != after or not same:
                res["violations"].append({
                    "kind": "receiver-modified" if before != after else "result-not-a-function-of-the-value",
                    "replay": "fresh", "input": [kind, x, w, h],
                    "what": f"{kind} {x!r} as_percentage_of/fit_to_screen (video {w}x{h}): "
                            + ("the receiver was modified" if before != after else "equal receivers gave different results"),
                    "impl_obs": [repr(before), repr(after)]})
                continue
            if kind == "layout":
                # heap model (GeomStore.v, request 1815): which objects of the result are the receiver's own
                heap_pending.append((heap_req[oi], r if isinstance(r, Err) else Ok((geom.p_layout(r.v), heap_profile(r.v, obj))),
                                     [kind, x, w, h, oi]))
            if rq is not None:
                if kind == "size":
                    o = Ok((exact(r.v.value), geom.UNITS.index(r.v.unit))) if isinstance(r, Ok) else r
                else:
                    o = Ok(geom.p_layout(r.v)) if isinstance(r, Ok) else r
                pending.append((rq, kind, o, [kind, x, w, h]))
    for (rq, kind, o, inp), m in zip(pending, oracle_batch([p[0] for p in pending])):
        n_model += 1
        if kind == "size":
            mm = r_result(m, geom.r_size)
            good = (isinstance(o, Err) and o == mm) or (isinstance(o, Ok) and isinstance(mm, Ok) and o.v[1] == mm.v[1]
                                                        and abs(o.v[0] - mm.v[0]) <= REL * max(1, abs(mm.v[0])))
        else:
            mm = r_result(m, geom.r_layout)
            good = (isinstance(o, Err) and o == mm) or (isinstance(o, Ok) and isinstance(mm, Ok) and close_plain(o.v, mm.v))
        if not good:
            res["disagreements"].append({"stream": "fresh", "input": inp, "impl": repr(o)[:300], "model": repr(mm)[:300]})
    n_heap, prof, n_prof_diff = 0, {}, 0
    for (rq, o, inp), m in zip(heap_pending, oracle_batch([p[0] for p in heap_pending])):
        mm = r_result(m, lambda y: (geom.r_o(y[0], geom.r_layout), list(y[1])))
        n_heap += 1
        good = (isinstance(o, Err) and o == mm) or (isinstance(o, Ok) and isinstance(mm, Ok) and mm.v[0] is not None
                                                    and close_plain(o.v[0], mm.v[0]))
        if good and isinstance(o, Ok) and o.v[1] != mm.v[1]:
            # which sub-objects are shared is not part of the statement (a rewrite that copies the alignment is harmless):
            # counted, not flagged
            n_prof_diff += 1
        if isinstance(o, Ok):
            key = "".join(map(str, o.v[1]))
            prof[key] = prof.get(key, 0) + 1
        if not good:
            res["disagreements"].append({"stream": "heap", "input": inp, "impl": repr(o)[:400], "model": repr(mm)[:400]})
    res["distribution"]["heap_model_layout_calls_compared(result value and which objects are the receiver's own)"] = n_heap
    res["distribution"]["heap_sharing_profiles_seen"] = len(prof)
    res["distribution"]["heap_sharing_profiles_differing_from_the_model(information: sharing is not in the statement)"] = n_prof_diff
    res["distribution"]["fresh_results_differing_from_receiver"] = n_changed
    res["distribution"]["fresh_results_compared_with_the_model"] = n_model


# ------------------------------------------------------------------------------------------------
# ------------------------------------------------------------------------------------------------ F
def attr_components(kind, o):
    if kind == 0:
        return [o.x, o.y]
    if kind == 1:
        return [o.horizontal, o.vertical]
    return [o.before, o.after, o.start, o.end]


ATTR_PRINT_ORDER = {0: [0, 1], 1: [0, 1], 2: [0, 3, 1, 2]}     # Padding prints before, end, after, start (TTML order)


def attr_case(kind, val):
    """to_xml_attribute of a Point / Stretch / Padding, from_xml_attribute of the result, to_xml_attribute again"""
    obj = [geom.mk_point, geom.mk_stretch, geom.mk_padding][kind](val)
    cls = [Point, Stretch, Padding][kind]
    comps = attr_components(kind, obj)
    p = impl.call(obj.to_xml_attribute)
    if isinstance(p, Err):
        return comps, p, None, None
    b = impl.call(cls.from_xml_attribute, p.v)
    if isinstance(b, Err):
        return comps, p, b, None
    return comps, p, Ok(attr_components(kind, b.v)), impl.call(b.v.to_xml_attribute)


def attr_violation(kind, comps, p, b, rp):
    """statement: printing rounds to two decimals, re-parsing a printed value reproduces it, TTML order -> kind or None"""
    if isinstance(p, Err):
        return "attr-print-raises"
    if p.v != " ".join(str(comps[i]) for i in ATTR_PRINT_ORDER[kind]):
        return "attr-print-order"
    if isinstance(b, Err):
        return "attr-reparse-raises"
    for a, z in zip(comps, b.v):
        va, vz = exact(a.value), exact(z.value)
        if a.unit != z.unit or abs(va - vz) > Fraction(1, 200) + abs(va) * Fraction(1, 2**51):
            return "attr-reparse"
    if not (isinstance(rp, Ok) and rp.v == p.v):
        return "attr-reprint"
    return None


def stream_attr_print(ctx, res):
    """wave 7: Point / Stretch / Padding.to_xml_attribute and from_xml_attribute of the printed attribute, against the model
    (request 1820: point_attr / stretch_attr / padding_attr and point_of_attr / stretch_of_attr / padding_from_attr)"""
    rng = ctx.rng
    cases = []
    sz = lambda: geom.rand_size(rng, wild=rng.random() < 0.3)  # noqa: E731
    # every pair / quadruple of distinct units once, then random values
    for u in range(5):
        for v in range(5):
            cases.append((rng.choice([0, 1]), ((1.005 + u, u), (2.675 + v, v))))
    cases.append((2, ((1, 0), (2, 1), (3, 2), (4, 3))))
    for mask in range(16):
        cases.append((2, tuple(None if mask >> i & 1 else (i + 1.125, 2) for i in range(4))))
    for _ in range(ctx.n(1500, 30000)):
        kind = rng.choice([0, 1, 2, 2])
        if kind == 2:
            cases.append((2, tuple(None if rng.random() < 0.1 else sz() for _ in range(4))))
        else:
            cases.append((kind, (sz(), sz())))
    reqs = [(1820, [k, geom.a_padding_w(v) if k == 2 else geom.a_pair_w(v)]) for k, v in cases]
    hist = {}
    for (kind, val), m in zip(cases, oracle_batch(reqs)):
        res["evaluations"] += 1
        comps, p, b, rp = attr_case(kind, val)
        name = ["Point", "Stretch", "Padding"][kind]
        bad = attr_violation(kind, comps, p, b, rp)
        if bad:
            res["violations"].append({"kind": bad, "replay": "attr", "input": [kind, val], "impl_obs": repr((p, b, rp))[:400],
                                      "what": f"{name}{val!r}: to_xml_attribute -> {p!r}, from_xml_attribute of it -> "
                                              f"{b!r}, printed again -> {rp!r}: not 'before end after start' / 'x y' in two "
                                              f"decimals that re-parse to the value within 1/200 and print the same"})
            continue
        hist[name] = hist.get(name, 0) + 1
        if any(exact(c.value) * 100 % 1 for c in comps):
            res["nontrivial"].add(("attr", kind, repr(val)))
        mstr, mres = m
        mm = r_result(mres, lambda v: [[Fraction(x[0][0], x[0][1]), x[1]] for x in v])
        if mstr != p.v or not same_sizes(mm, Ok([geom.w_size(z) for z in b.v])):
            res["disagreements"].append({"stream": "attr-print", "input": [kind, repr(val)], "impl": repr((p.v, b))[:300],
                                         "model": repr((mstr, mm))[:300]})
    res["distribution"]["attribute_print_reparse_cases(to_xml_attribute -> from_xml_attribute -> to_xml_attribute)"] = hist


# ------------------------------------------------------------------------------------------------ G
def vh_receiver(kind, x):
    return {"size": geom.mk_size, "point": geom.mk_point, "stretch": geom.mk_stretch, "padding": geom.mk_padding,
            "layout": geom.mk_layout}[kind](x)


def vh_call(kind, x, w, h, horiz=None):
    """one relativization of a fresh receiver -> (observation for the Coq oracle, oracle request, snapshot of the result)"""
    oq = lambda v: None if v is None else Some(exact(v))  # noqa: E731
    obj = vh_receiver(kind, x)
    if kind == "size":
        d = w if horiz else h
        r = impl.call(lambda: obj.as_percentage_of(video_width=d if horiz else None, video_height=None if horiz else d))
        o = Ok(geom.w_size(r.v)) if isinstance(r, Ok) else r
        return o, (1301, [geom.w_size(obj), horiz, oq(d), o]), (geom.value_snap(r.v) if isinstance(r, Ok) else r)
    r = impl.call(lambda: obj.as_percentage_of(w, h))
    wrap = {"point": lambda v: Layout(origin=v), "stretch": lambda v: Layout(extent=v), "padding": lambda v: Layout(padding=v),
            "layout": lambda v: v}[kind]
    o = geom.res_layout(Ok(wrap(r.v)) if isinstance(r, Ok) else r)
    return o, (1304, [geom.w_layout(wrap(obj)), oq(w), oq(h), o]), (geom.value_snap(r.v) if isinstance(r, Ok) else r)


def value_history_cases(rng, n_random):
    """(kind, value, w, h, horiz): equal Sizes against video_width=N and then video_height=N with the SAME N, both orders
    (each order is the first use of its value); composites on square videos and on pairs of videos where the width of one
    is the height of the next; then random values over the same video sizes"""
    cases = []
    k = 0
    for u in range(5):
        for N in (600, 360, 15, 32):
            for rep in range(2):
                v = 2 + k / 64.0                      # a value not used anywhere else in the run
                k += 1
                order = (True, False) if rep == 0 else (False, True)
                for horiz in order:
                    cases.append(("size", (v, u), N, N, horiz))
    for u in range(5):
        s = (2, u)
        for (w, h) in ((600, 600), (640, 360), (360, 640), (15, 15), (32, 32)):
            cases.append(("point", (s, s), w, h, None))
            cases.append(("stretch", (s, s), w, h, None))
            cases.append(("padding", (s, s, s, s), w, h, None))
            cases.append(("layout", ((s, s), (s, s), (s, s, s, s), (0, 0), None), w, h, None))
    dims = [(600, 600), (640, 360), (360, 640), (360, 360), (1080, 1920), (1920, 1080), (15, 32), (32, 15), (None, 600), (600, None)]
    for _ in range(n_random):
        kind = rng.choice(["size", "size", "point", "stretch", "padding", "layout"])
        sz = lambda: (rng.choice([1, 2, 2.5, 8, 12, 33.33]), rng.randrange(5))  # noqa: E731  (few values: equal Sizes recur)
        w, h = rng.choice(dims)
        if kind == "size":
            cases.append(("size", sz(), w, h, rng.random() < 0.5))
        elif kind in ("point", "stretch"):
            cases.append((kind, (sz(), sz()), w, h, None))
        elif kind == "padding":
            cases.append((kind, (sz(), sz(), sz(), sz()), w, h, None))
        else:
            cases.append((kind, ((sz(), sz()), (sz(), sz()) if rng.random() < 0.5 else None,
                                 (sz(), sz(), sz(), sz()) if rng.random() < 0.5 else None, None, None), w, h, None))
    return cases


def run_value_history(cases, res, count=True):
    first = [vh_call(*c) for c in cases]
    oks = oracle_batch([f[1] for f in first])
    bad = []
    for c, (o, rq, snap_), ok in zip(cases, first, oks):
        if count:
            res["evaluations"] += 1
        kind, x, w, h, horiz = c
        if ok != 1:
            bad.append({"kind": "relativize-value-after-other-calls", "replay": "value-history", "input": list(c), "impl_obs": repr(o)[:300],
                        "what": f"{kind} {x!r}.as_percentage_of(" + (f"video_{'width' if horiz else 'height'}={w if horiz else h}"
                                                                        if kind == "size" else f"{w}, {h}")
                                + f") -> {o!r}: not the exact percentage of its own reference (equal values were relativized "
                                  f"against other references earlier in the process)"})
    # every call once more, on another equal receiver, after all the other calls and in the reverse order
    for c, f in zip(reversed(cases), reversed(first)):
        again = vh_call(*c)[2]
        if count:
            res["evaluations"] += 1
        if again != f[2]:
            bad.append({"kind": "result-depends-on-call-history", "replay": "value-history", "input": list(c),
                        "impl_obs": repr((f[2], again))[:300],
                        "what": f"{c[0]} {c[1]!r}.as_percentage_of (video {c[2]}x{c[3]}) gave {f[2]!r} and, after other calls, {again!r}"})
    return bad


def other_value_ops(rng, n):
    """the other value operations of the C18 streams as thunks on fresh receivers: str, from_string, hash, ==, fit_to_screen,
    to_xml_attribute / from_xml_attribute -> [(label, input, thunk returning a comparable snapshot)]"""
    def snap_(r):
        return r if isinstance(r, Err) else geom.value_snap(r.v)
    ops = []
    for _ in range(n):
        k = rng.randrange(7)
        x = geom.rand_size(rng, wild=False)
        if k == 0:
            ops.append(("str", x, lambda x=x: str(geom.mk_size(x))))
        elif k == 1:
            st = str(geom.mk_size(x))
            ops.append(("from_string", st, lambda st=st: snap_(impl.call(Size.from_string, st))))
        elif k == 2:
            ops.append(("hash", x, lambda x=x: hash(geom.mk_size(x))))
        elif k == 3:
            l = geom.rand_layout(rng, units=(2,), wild=False)
            ops.append(("fit_to_screen", l, lambda l=l: snap_(impl.call(lambda: geom.mk_layout(l).fit_to_screen()))))
        elif k == 4:
            pd = tuple(geom.rand_size(rng, wild=False) for _ in range(4))
            ops.append(("padding-attribute", pd, lambda pd=pd: snap_(impl.call(
                lambda: Padding.from_xml_attribute(geom.mk_padding(pd).to_xml_attribute())))))
        elif k == 5:
            l = geom.rand_layout(rng, wild=False)
            l2 = geom.rand_layout(rng, wild=False) if rng.random() < 0.5 else l
            ops.append(("eq+hash", (l, l2), lambda l=l, l2=l2: (bool(geom.mk_layout(l) == geom.mk_layout(l2)),
                                                               hash(geom.mk_layout(l)), hash(geom.mk_layout(l2)))))
        else:
            y = geom.rand_size(rng, wild=False)
            ops.append(("point-attribute", (x, y), lambda x=x, y=y: geom.mk_point((x, y)).to_xml_attribute()))
    return ops


def stream_value_history(ctx, res):
    """a value operation depends only on the receiver and the reference, not on the calls made before it"""
    cases = value_history_cases(ctx.rng, ctx.n(1500, 30000))
    ops = other_value_ops(ctx.rng, ctx.n(1500, 30000))
    first = [f() for _, _, f in ops]
    bad = run_value_history(cases, res)
    nbad = 0
    for (label, inp, f), r1 in zip(reversed(ops), reversed(first)):
        res["evaluations"] += 2
        r2 = f()
        if r1 != r2 and nbad < 2:
            nbad += 1
            bad.append({"kind": "result-depends-on-call-history", "replay": "none", "input": [label, repr(inp)],
                        "impl_obs": repr((r1, r2))[:300],
                        "what": f"{label} of {inp!r} gave {r1!r} and, on an equal receiver after other calls, {r2!r}"})
    res["distribution"]["value_history_other_operations_repeated(str, from_string, hash, ==, fit_to_screen, attributes)"] = len(ops)
    seen = set()
    for b in bad:
        if b["kind"] not in seen or len(seen) < 3:
            res["violations"].append(b)
            seen.add(b["kind"])
    for c in cases:
        if c[0] != "size" or c[1][1] != 2:
            res["nontrivial"].add(("value-history", repr(c)))
    res["distribution"]["value_history_calls(each judged by the Coq oracle and repeated after all other calls)"] = len(cases)
    res["distribution"]["value_history_square_or_swapped_video_cases"] = sum(1 for c in cases if c[2] == c[3] or (c[2], c[3]) in ((360, 640), (1080, 1920), (32, 15)))


# ------------------------------------------------------------------------------------------------ H
import operator as _op

BINOPS = [("+", _op.add), ("-", _op.sub), ("*", _op.mul), ("/", _op.truediv), ("<", _op.lt), ("<=", _op.le), ("==", _op.eq),
          ("!=", _op.ne), ("+=", _op.iadd), ("-=", _op.isub), ("*=", _op.imul), ("/=", _op.itruediv)]
UNOPS = [("abs", abs), ("neg", _op.neg), ("pos", _op.pos), ("bool", bool), ("hash", hash), ("str", str), ("repr", repr)]


def operands_check(label, operands, thunk):
    """run thunk(); every operand (not only the receiver) must have the same snapshot and the same hash afterwards, and an
    operand used as a dict key must still be found -> (violation dict or None, outcome tag)"""
    before = [geom.value_snap(o) for o in operands]
    hashes = [impl.call(hash, o) for o in operands]
    keyed = [({o: True} if isinstance(hh, Ok) else None) for o, hh in zip(operands, hashes)]
    r = impl.call(thunk)
    after = [geom.value_snap(o) for o in operands]
    hashes2 = [impl.call(hash, o) for o in operands]
    lost = [i for i, (o, d) in enumerate(zip(operands, keyed)) if d is not None and o not in d]
    same_hash = all((isinstance(a, Err) and isinstance(b, Err)) or a == b for a, b in zip(hashes, hashes2))
    if before != after or not same_hash or lost:
        return {"kind": "operand-modified", "replay": "operands", "input": [label, repr(before)],
                "impl_obs": repr(after)[:300],
                "what": f"{label}: an operand was modified ({before!r} -> {after!r}), its hash changed, or it is no longer found "
                        f"as a dict key"}, "viol"
    return None, ("raised" if isinstance(r, Err) else "ok")


def shared_layout_set(lay, ncaps, at_nodes):
    from pycaption import CaptionSet, CaptionList, Caption, CaptionNode
    caps = []
    for k in range(ncaps):
        nodes = [CaptionNode.create_text("word%d" % k, layout_info=lay if at_nodes else None)]
        caps.append(Caption((k + 1) * 2000000, (k + 1) * 2000000 + 1500000, nodes, layout_info=lay))
    return CaptionSet({"en-US": CaptionList(caps, layout_info=lay if at_nodes else None)})


def check_shared_layout(l, fmt, cfg, ncaps, at_nodes):
    """ONE Layout object shared by every caption (and node / language) of a set, written once: every cue / caption must be
    positioned identically, and the caller's layout must equal its snapshot afterwards"""
    import re as _re
    from pycaption import DFXPWriter, SAMIWriter, WebVTTWriter, DFXPReader
    rel, fit, w, h = cfg
    lay = geom.mk_layout(l)
    cs = shared_layout_set(lay, ncaps, at_nodes)
    before = geom.value_snap(lay)
    hb = hash(lay)
    W = {"vtt": WebVTTWriter, "dfxp": DFXPWriter, "sami": SAMIWriter}[fmt]
    r = impl.call(lambda: W(relativize=rel, fit_to_screen=fit, video_width=w, video_height=h).write(cs))
    base = {"replay": "shared-layout", "input": [list(l), fmt, list(cfg), ncaps, at_nodes]}
    layouts_after = [c.layout_info for c in cs.get_captions("en-US")]
    if geom.value_snap(lay) != before or hash(lay) != hb or any(x is not lay for x in layouts_after):
        return dict(base, kind="operand-modified", impl_obs=repr(geom.value_snap(lay))[:300],
                    what=f"{fmt} writer: the Layout object shared by the captions of the written set was modified / replaced "
                         f"({before!r} -> {geom.value_snap(lay)!r})")
    if isinstance(r, Err):
        return None
    if fmt == "vtt":
        settings = [m.group(1) for m in _re.finditer(r"(?m)^\S+ --> \S+(.*)$", r.v)]
        if len(settings) != ncaps or len(set(settings)) != 1:
            return dict(base, kind="shared-layout-drift", impl_obs=repr(settings)[:300],
                        what=f"WebVTT: {ncaps} captions sharing ONE Layout object got the cue settings {settings!r} (must be identical)")
    elif fmt == "dfxp":
        rd = impl.call(lambda: DFXPReader().read(r.v))
        if isinstance(rd, Ok):
            ls = [geom.value_snap(c.layout_info) for c in rd.v.get_captions("en-US")]
            if len(ls) != ncaps or any(x != ls[0] for x in ls):
                return dict(base, kind="shared-layout-drift", impl_obs=repr(ls)[:300],
                            what=f"DFXP: {ncaps} captions sharing ONE Layout object read back with different layouts")
    return None


def stream_operands(ctx, res):
    """values are not modified: augmented assignment and every operator the classes define leave ALL operands (and their
    hashes, as dict keys) unchanged; one Layout object shared by several captions gives identical cue settings"""
    rng = ctx.rng
    out = {}

    def note(k):
        out[k] = out.get(k, 0) + 1
    bad = []
    # ---- operators on Sizes (same unit / other unit), Points, Stretches, Paddings
    for i in range(ctx.n(1200, 30000)):
        u = rng.randrange(5)
        s = geom.mk_size((geom.rand_value(rng, wild=False), u))
        t = geom.mk_size((geom.rand_value(rng, wild=False), u if rng.random() < 0.8 else rng.randrange(5)))
        name, f = BINOPS[i % len(BINOPS)]
        other = t if rng.random() < 0.8 else rng.choice([2, 0.5])

        def thunk(f=f, s=s, other=other):
            x = s            # x = s; x += t  (for the in-place operators: operator.iadd(x, t))
            x = f(x, other)
            return x
        v, tag = operands_check(f"Size {geom.value_snap(s)!r} {name} {other!r}", [s] + ([other] if other is t else []), thunk)
        res["evaluations"] += 1
        note(f"size {name}:{tag}")
        if v:
            bad.append(v)
        uname, g = UNOPS[i % len(UNOPS)]
        v, tag = operands_check(f"{uname}(Size {geom.value_snap(s)!r})", [s], lambda g=g, s=s: g(s))
        note(f"size {uname}:{tag}")
        if v:
            bad.append(v)
    for i in range(ctx.n(400, 8000)):
        sz = lambda: geom.rand_size(rng, units=(2,) if rng.random() < 0.7 else (0, 1, 2, 3, 4), wild=False)  # noqa: E731
        p, q = geom.mk_point((sz(), sz())), geom.mk_point((sz(), sz()))
        st = geom.mk_stretch((sz(), sz()))
        pd = geom.mk_padding((sz(), sz(), sz(), sz()))
        for label, ops, thunk in (
                ("Point - Point", [p, q], lambda: p - q), ("Point -= Point", [p, q], lambda: _op.isub(p, q)),
                ("Point + Point", [p, q], lambda: p + q), ("Point.add_stretch", [p, st], lambda: p.add_stretch(st)),
                ("Point.align_from_origin", [p, q], lambda: Point.align_from_origin(p, q)),
                ("Point == Point / hash", [p, q], lambda: (p == q, p != q, hash(p), hash(q))),
                ("Stretch == / bool / attr", [st, pd], lambda: (st == st, bool(st), st.to_xml_attribute(), pd.to_xml_attribute(), pd == pd)),
                ("Padding.as_percentage_of", [pd, st], lambda: pd.as_percentage_of(640, 360))):
            v, tag = operands_check(label, ops, thunk)
            res["evaluations"] += 1
            note(f"{label}:{tag}")
            if v:
                bad.append(v)
    # ---- layouts: ==, hash, relativize, fit on pairs; both operands snapshotted
    for i in range(ctx.n(400, 8000)):
        a = geom.mk_layout(geom.rand_layout(rng, wild=False))
        b = geom.mk_layout(geom.rand_layout(rng, wild=False))
        for label, thunk in (("Layout == / != / hash", lambda: (a == b, a != b, b == a, hash(a), hash(b))),
                             ("Layout.as_percentage_of + fit_to_screen", lambda: a.as_percentage_of(640, 360).fit_to_screen()),
                             ("Layout in list / dict", lambda: (a in [b, a], {a: 1, b: 2}.get(a)))):
            v, tag = operands_check(label, [a, b], thunk)
            res["evaluations"] += 1
            note(f"{label}:{tag}")
            if v:
                bad.append(v)
    # ---- ONE Layout object shared by several captions, at writer level
    shared = []
    P = lambda v: (v, 2)  # noqa: E731
    dets = [((P(10), P(10)), None, (P(5), P(5), P(5), P(5)), None, None),
            ((P(10), P(20)), (P(60), P(30)), (P(1), P(2), P(3), P(4)), (0, 0), None),
            ((P(15), P(5)), (P(50), P(10)), (P(0), P(0), P(5), P(0)), None, None)]
    for l in dets:
        for fmt in ("vtt", "dfxp", "sami"):
            for cfg in ((False, False, None, None), (True, True, None, None), (True, False, 640, 360), (True, True, 640, 360)):
                for at_nodes in (False, True):
                    shared.append((l, fmt, cfg, 3 + (at_nodes and 1), at_nodes))
    for _ in range(ctx.n(150, 3000)):
        l = geom.rand_layout(rng, units=(2,), p_none=0.15, wild=False)
        shared.append((l, rng.choice(["vtt", "vtt", "dfxp", "sami"]),
                       rng.choice([(False, False, None, None), (True, True, None, None), (True, True, 640, 360)]),
                       rng.randint(2, 5), rng.random() < 0.4))
    for c in shared:
        v = check_shared_layout(*c)
        res["evaluations"] += 1
        note(f"shared layout {c[1]}:{'viol' if v else 'ok'}")
        if v:
            bad.append(v)
        elif c[0][0] is not None and c[0][2] is not None:
            res["nontrivial"].add(("shared-layout", repr(c)))
    seen = {}
    for v in bad:
        if seen.get(v["kind"], 0) < 2:
            seen[v["kind"]] = seen.get(v["kind"], 0) + 1
            res["violations"].append(v)
    res["distribution"]["operands(all operands snapshotted and hashed before / after every operator; one Layout object shared by several captions)"] = out


def run(ctx):
    res = {"evaluations": 0, "nontrivial": set(), "violations": [], "disagreements": [], "distribution": {},
           "streams": 8, "notes": []}
    stream_parse(ctx, res)
    stream_print(ctx, res)
    stream_eq(ctx, res)
    stream_attr(ctx, res)
    stream_fresh(ctx, res)
    stream_attr_print(ctx, res)
    stream_value_history(ctx, res)
    stream_operands(ctx, res)
    res["rule"] = ("parse: exhaustive short strings over the alphabet %r + structured long strings (no exclusion), non-trivial = "
                   "accepted; print: value grid + random non-negative binary64 values up to 1e23 x 5 units and every value "
                   "parsed in stream A, non-trivial = not a multiple of 0.01; eq: pairs over a grid exhaustive in units/alignments/"
                   "None-ness with adjacent binary64 values, non-trivial = distinct values of the same kind; padding attributes: "
                   "non-trivial = judged (1-4 well-formed sizes, single spaces); transformations: non-trivial = result differs "
                   "from receiver. Distinct inputs counted." % ALPHABET)
    res["samples"] = [{"parse": "12.5%"}, {"print": [2.675, "px"]}, {"eq": "Size(1.0,px) vs Size(nextafter(1.0),px)"},
                      {"padding": "1px 2px 3px 4px"}]
    res["clauses"] = {
        "theorem": ["== is component-wise = identity of normal forms (all six kinds), reflexive/symmetric/transitive",
                    "equal values have equal hashes for every hash function of the numeric value / enum member / None / int",
                    "Size.from_string accepts exactly the size language (ALL strings) and returns the denoted value; else the syntax error",
                    "printing: within 1/200, <= 2 decimals (canonical form: information); parse(print(a)) = round2(a); print o parse o print = print",
                    "padding shorthand expands in TTML order",
                    "Point / Stretch / Padding: from_xml_attribute(to_xml_attribute(v)) = v rounded to two decimals per component, in its own slot (TTML order), and prints the same again",
                    "relativize / fit keep the components they do not recompute (definitional lemmas about the model)"],
        "correspondence_only": ["the regex engine / float() / round() / f-string formatting behind from_string and __str__",
                                "binary64: values beyond 1.8e308 become inf (known finding C18-parse-overflow); NaN / negative values not generated",
                                "receiver not modified by as_percentage_of / fit_to_screen (snapshot of the geometric fields, execution)",
                                "no operand of any operator (+, -, +=, -=, *, /, <, ==, abs, neg, hash, str ...) or method is modified, hashes stable while used as dict keys; one Layout object shared by several captions gives identical cue settings in every writer (execution)",
                                "CPython hash() on floats, enum members, None; that every geometry value is hashable"]}
    return res


def replay(ctx, rec):
    from wire import oracle1
    tag = rec.get("replay")
    if tag == "parse":
        s = rec["input"]
        o = obs_parse(s)
        if isinstance(o, tuple):
            return rec.get("kind") == "parse-overflow", "inf"
        ok = oracle1(1801, [s, o])
        return ok != 1, repr(o)
    if tag == "print":
        v, u = rec["input"][:2]
        s = Size(float(v), UnitEnum(u))
        p = impl.call(str, s)
        if isinstance(p, Err):
            return True, repr(p)
        ok = oracle1(1813, [geom.w_size(s), p.v])
        b = impl.call(Size.from_string, p.v)
        good = isinstance(b, Ok) and b.v.unit == s.unit and str(b.v) == p.v
        return ok != 1 or not good, [p.v, repr(b)]
    if tag == "eq":
        def fix(v):
            k, x = v
            def t(y):  # noqa: E306
                return tuple(t(z) for z in y) if isinstance(y, list) else y
            return (k, t(x))
        a, b = fix(rec["input"][0]), fix(rec["input"][1])
        o = obs_eq(build_val(a), build_val(b), a[0], b[0])
        if not isinstance(o, tuple):
            return True, o
        ok = oracle1(1809, [wire_val(a), wire_val(b)] + list(o))
        return ok != 1, o
    if tag == "shared-layout":
        def t3(y):
            return tuple(t3(z) for z in y) if isinstance(y, list) else y
        l, fmt, cfg, ncaps, at_nodes = rec["input"]
        v = check_shared_layout(t3(l), fmt, tuple(cfg), ncaps, at_nodes)
        return bool(v) and v["kind"] == rec.get("kind"), (v or {"what": "ok"})["what"]
    if tag == "value-history":
        def t2(y):
            return tuple(t2(z) for z in y) if isinstance(y, list) else y
        import random
        cases = value_history_cases(random.Random(0), 0)
        mine = tuple(t2(rec["input"]))
        if mine not in cases:
            cases.append(mine)
        bad = [b for b in run_value_history(cases, {"evaluations": 0}, count=False) if b["kind"] == rec.get("kind")]
        return bool(bad), (bad or [{"what": "ok"}])[0]["what"]
    if tag == "attr":
        def t(y):
            return tuple(t(z) for z in y) if isinstance(y, list) else y
        kind, val = rec["input"]
        comps, p, b, rp = attr_case(kind, t(val))
        return attr_violation(kind, comps, p, b, rp) == rec.get("kind"), repr((p, b, rp))[:300]
    if tag == "padding":
        o = obs_padding(rec["input"])
        return oracle1(1807, [rec["input"], o]) != 1, repr(o)
    if tag == "fresh":
        from fractions import Fraction as F

        def t(y):
            if isinstance(y, list):
                return tuple(t(z) for z in y)
            if isinstance(y, str) and "/" in y and y.replace("/", "").replace("-", "").isdigit():
                return F(y)
            return y
        kind, x, w, h = rec["input"]
        x = t(x)
        mk = {"size": geom.mk_size, "point": geom.mk_point, "stretch": geom.mk_stretch, "padding": geom.mk_padding,
              "layout": geom.mk_layout}[kind]
        bad = []
        for axis in (True, False):
            obj, twin = mk(x), mk(x)
            if kind == "size":
                ops = [lambda o: o.as_percentage_of(video_width=w if axis else None, video_height=None if axis else h)]
            elif kind == "layout":
                ops = [lambda o: o.as_percentage_of(w, h), lambda o: o.fit_to_screen()]
            else:
                ops = [lambda o: o.as_percentage_of(w, h)]
            for op in ops:
                before = geom.value_snap(obj)
                r = impl.call(op, obj)
                r2 = impl.call(op, twin)
                same = (isinstance(r, Err) and r == r2) or (isinstance(r, Ok) and isinstance(r2, Ok)
                                                            and geom.value_snap(r.v) == geom.value_snap(r2.v))
                if geom.value_snap(obj) != before or not same:
                    bad.append(repr(before) + " -> " + repr(geom.value_snap(obj)))
        return bool(bad), bad[:2]
    return False, "unknown replay tag"
