"""C07 - DFXP output is well-formed XML and internally consistent.

Two strict parsers judge every document: expat (xml.etree, namespaces on) decides well-formedness; lxml must agree
except for its xml:id rule (an xml:id that is not an NCName, or is defined twice, is an lxml complaint the XML 1.0
grammar does not make - counted; duplicates are judged by the Coq oracle ok_refs on the expat tree).
Streams
  S  single values through the public API: a style value on a <p> (bs4 attribute path) and on a <span> (hand-written
     path): Coq attr_parse(literal) == value (violation otherwise); lxml agrees; the literal's spelling against the
     model (attr_out / quoteattr) is counted information only.  Malformed literals and malformed CONTENT: the Coq
     spec parsers and lxml accept / reject together (validates the spec).
  P  <p> payloads: node lists (adversarial texts, breaks, balanced / nested / attribute-less style nodes, `region`
     keys) through DFXPWriter and LegacyDFXPWriter: Coq content_parse accepts the payload and its events equal
     lxml's; the events also equal those of the model's payload (recreate_text); the bytes are counted only.
  R  regions and references: layouts on set / language / caption / node level (equal objects, empty layouts, the
     default, webvtt_positioning-only layouts) through a recording RegionCreator subclass; styles with class chains;
     DFXPWriter / SinglePositioning / LegacyDFXPWriter -> ids and references == Coq DfxpDoc / DfxpRegion model UP TO
     a renaming of the region ids; span attribute dictionaries compared unordered.
  D  whole documents: caption sets from all six readers (several templates each) and API-built sets (adversarial
     texts, style values, class names and style ids with markup characters, language codes, percent and absolute-unit
     layouts) x three writers x options -> strict parse (both parsers), root tt in the TTML namespace, definitions in
     the head, one div per written language, one p with begin/end per caption (per run for legacy/single), Coq ok_refs
     on ids / style= (head AND body) / region=.
  H  histories: one writer object, 2-4 write() calls on sets with different style-id vocabularies.
  K  (wave 7) the document skeleton: the bs4 tree every writer of stream D hands to prettify() is captured (a spy around
     BeautifulSoup.prettify), cut into the skeleton tt / head / styling / style* / layout / region* / body / div* / p*
     (attribute dictionaries in insertion order, the <p> strings) and rendered by the Coq model DfxpSkel.dfxp_document
     (request 714): the string must EQUAL the writer's output byte for byte. The Coq document machine (request 715:
     SpecXmlDoc.doc_parse + ns_ok + root tt in the TTML namespace) must accept every such output, count as many elements
     as expat, and agree with expat on damaged variants of it (second root, text outside the root, white space before
     the declaration, missing end tag, undeclared tts prefix, no declaration, other quotes / standalone); and on 200
     (3 000) generated, mostly malformed XML declarations (order, quotes, Eq, S, version / encoding / standalone values).
     The <style> dictionaries of the captured tree (insertion order) == DfxpSkelHead.style_elems of the set's style table
     (request 716; main and legacy writer).
Every R / D / H violation record carries the pickled caption set(s): `./check C07 --replay` re-runs it.
"""
import re
import json
import base64
import pickle
import xml.etree.ElementTree as ET
from copy import deepcopy

import impl
import gens
import sccgen as G
from wire import Ok, Err, Some, oracle_batch
from lxml import etree
from pycaption import (DFXPWriter, DFXPReader, SRTReader, WebVTTReader, SAMIReader, SCCReader, MicroDVDReader,
                       SCCWriter, CaptionSet, CaptionList, Caption, CaptionNode)
from pycaption.dfxp import SinglePositioningDFXPWriter, LegacyDFXPWriter
from pycaption.dfxp.base import RegionCreator
import bs4
from bs4 import BeautifulSoup
from bs4.element import Tag, NavigableString
from pycaption.geometry import Layout, Point, Size, Stretch, Padding, Alignment, UnitEnum, HorizontalAlignmentEnum, \
    VerticalAlignmentEnum

TT = "{http://www.w3.org/ns/ttml}"
TTS = "{http://www.w3.org/ns/ttml#styling}"
XMLNS = "{http://www.w3.org/XML/1998/namespace}"
WRITERS = {"main": DFXPWriter, "single": SinglePositioningDFXPWriter, "legacy": LegacyDFXPWriter}
VALUE_ATOMS = ["&", "<", ">", '"', "'", "&amp;", "&lt;", "&#60;", "&quot;", ";", "#", "a", "b c", "é", "中", "\U0001F600",
               " ", "=", "/", "]]>", "<!--", "-->", "<br/>", "</span>", "x", "1c", "Arial", "#ff0000", "\t", "\n"]
NCNAMES = ["k1", "a.b", "é1", "_x-1", "default", "p", "Style2", "z"]
WILD_NAMES = ["a&b", "x\"y'z", "1x", "a b", "a<b", "q'", "é&>", "]]>"]     # not NCNames: judged by expat only
REGION_LIKE = ["bottom", "r0", "r1"]         # style ids that collide with region ids (known finding)
LANGS = ["en-US", "fr", "de", 'e"n&', "a<b>", "x'y\"z", "pt-BR", "und"]


def xml_char_ok(s):
    return all(c in "\t\n\r" or 0x20 <= ord(c) <= 0xD7FF or 0xE000 <= ord(c) <= 0xFFFD or 0x10000 <= ord(c) for c in s)


def rand_value(rng, maxn=5, ws=True):
    atoms = VALUE_ATOMS if ws else [a for a in VALUE_ATOMS if a not in ("\t", "\n")]
    return "".join(rng.choice(atoms) for _ in range(rng.randint(1, maxn)))


def rand_vis_text(rng):
    while True:
        t = gens.rand_text(rng, adversarial=0.6)
        if gens.visible(t) and xml_char_ok(t) and "\n" not in t and "\r" not in t:
            return t


def strict_parse(text, acc):
    """-> (expat tree root, None) or (None, violation dict)"""
    try:
        root = ET.fromstring(text.encode("utf-8"))
    except ET.ParseError as e:
        return None, {"kind": "ill-formed-xml", "what": "expat (strict, namespaces on) rejects the output: %s" % e}
    try:
        etree.fromstring(text.encode("utf-8"))
    except etree.XMLSyntaxError as e:
        if "is not an NCName" in str(e):
            acc.count("X_lxml_refuses_an_xml:id_that_is_not_an_NCName(expat accepts)")
        elif "already defined" in str(e):
            acc.count("X_lxml_refuses_a_duplicate_xml:id(judged by ok_refs on the expat tree)")
        else:
            return None, {"kind": "ill-formed-xml", "what": "lxml (strict) rejects the output although expat accepts it: %s" % e}
    return root, None


def pickled(*objs):
    return base64.b64encode(pickle.dumps(objs)).decode("ascii")


def norm_attr(v):
    return re.sub(r"[\t\n\r]", " ", v)


class Acc:
    def __init__(self):
        self.res = {"evaluations": 0, "nontrivial": set(), "violations": [], "disagreements": [], "distribution": {},
                    "streams": 5, "notes": []}

    def count(self, k, n=1):
        d = self.res["distribution"]
        d[k] = d.get(k, 0) + n


# ------------------------------------------------------------------------------------------------ S
def stream_values(ctx, acc):
    rng = ctx.rng
    vals = ['r&d', 'a"b<c&d', "it's", 'x"y\'z', "<", "&", '"', "'", "a\tb", "a\nb", "]]>"]
    vals += [rand_value(rng) for _ in range(ctx.n(300, 6000))]
    vals = [v for v in vals if xml_char_ok(v)]
    caps = []
    for i, v in enumerate(vals):
        nodes = [CaptionNode.create_style(True, {"font-family": v}), CaptionNode.create_text("t%d" % i),
                 CaptionNode.create_style(False, {"font-family": v})]
        caps.append(Caption(i * 1000000, i * 1000000 + 500000, nodes, style={"color": v}))
    out = impl.call(lambda: DFXPWriter().write(CaptionSet({"en": CaptionList(caps)})))
    if not isinstance(out, Ok):
        acc.res["violations"].append({"kind": "write-raises", "what": "DFXPWriter.write raised on style values", "input": vals[:20],
                                      "replay": "none"})
        return
    p_lits = re.findall(r"<p [^>]*?tts:color=(\"[^\"]*\"|'[^']*')", out.v)
    s_lits = re.findall(r"<span [^>]*?tts:fontFamily=(\"[^\"]*\"|'[^']*')", out.v)
    try:
        root = etree.fromstring(out.v.encode("utf-8"))
        lx_p = [p.get(TTS + "color") for p in root.iter(TT + "p")]
        lx_s = [s.get(TTS + "fontFamily") for s in root.iter(TT + "span")]
    except etree.XMLSyntaxError as e:
        lx_p = lx_s = None
        acc.res["violations"].append({"kind": "ill-formed-xml", "what": "style values make the document ill-formed: %s" % e,
                                      "input": {"values": vals[:40]}, "document": out.v[:3000], "replay": "values", "values": vals})
    reqs = [(700, v) for v in vals] + [(701, v) for v in vals]
    m = oracle_batch(reqs)
    mp, ms = m[:len(vals)], m[len(vals):]
    if len(p_lits) != len(vals) or len(s_lits) != len(vals):
        acc.res["disagreements"].append({"stream": "S", "what": "could not locate the attribute literals in the output",
                                         "found": [len(p_lits), len(s_lits), len(vals)]})
        return
    back = oracle_batch([(702, l) for l in p_lits + s_lits])
    for i, v in enumerate(vals):
        acc.res["evaluations"] += 1
        if any(c in v for c in "&<>\"'"):
            acc.res["nontrivial"].add(("S", v))
        bp, bs = back[i], back[len(vals) + i]
        wf = bp != [] and bs != []
        if not wf or (bs[0] != v) or (bp[0] != v):
            acc.res["violations"].append({"kind": "attribute-value-ill-formed", "input": v, "replay": "values", "values": [v],
                                          "what": "attribute literal %r / %r for value %r does not parse back to the value"
                                                  % (p_lits[i], s_lits[i], v)})
            continue
        if lx_p is not None and (lx_p[i] != norm_attr(v) or lx_s[i] != v):
            acc.res["disagreements"].append({"stream": "S", "input": v, "impl": [lx_p[i], lx_s[i]], "model": [norm_attr(v), v],
                                             "what": "lxml decodes the attribute differently from the Coq spec parser"})
        if p_lits[i] != mp[i] or s_lits[i] != ms[i]:
            # another well-formed spelling of the same value (quote choice, &quot; ...): not the property's business
            acc.count("S_literal_spelled_differently_from_the_model(value equal)")
    # malformed literals: the spec parser and lxml accept / reject together
    lits = []
    for _ in range(ctx.n(400, 8000)):
        q = rng.choice("\"'")
        body = "".join(rng.choice(["&", "<", ">", ";", "#", "x", "a", "amp", "lt", "quot", "apos", "6", "0", "f", "g", " ",
                                   "'" if q == '"' else '"', "&amp;", "&#x41;", "&#65;", "&#0;", "&#xD800;", "&bogus;"])
                       for _ in range(rng.randint(0, 5)))
        lits.append(q + body + q)
    got = oracle_batch([(702, l) for l in lits])
    for l, g in zip(lits, got):
        acc.res["evaluations"] += 1
        try:
            lv = etree.fromstring(("<a x=%s/>" % l).encode("utf-8")).get("x")
        except etree.XMLSyntaxError:
            lv = None
        cv = g[0] if g != [] else None
        if (lv is None) != (cv is None) or (lv is not None and lv != norm_attr(cv)):
            acc.res["disagreements"].append({"stream": "S-malformed", "input": l, "impl": lv, "model": cv,
                                             "what": "spec attribute parser and lxml disagree"})
        elif cv is None:
            acc.count("S_malformed_rejected_by_both")
    acc.count("S_values", len(vals))
    # malformed CONTENT: the spec content machine and lxml accept / reject together (']]>', stray markup, bad references,
    # unbalanced / overlapping tags, duplicate attributes)
    conts = ["a]]>b", "]]>", "a]]&gt;b", "<span x=\"]]>\">t</span>", "a > b", "]] >", "]]]>", "<br/>]]>"]
    atoms = ["a", " ", "]]", "]", ">", "&gt;", "&amp;", "&", "<", "<br/>", "<span>", "</span>", "<span x=\"1\">", "<span x='1' x='2'>",
             "&#65;", "&#0;", "&bogus;", "<i>", "</i>", "\"", "'", "é"]
    for _ in range(ctx.n(400, 8000)):
        conts.append("".join(rng.choice(atoms) for _ in range(rng.randint(1, 6))))
    got = oracle_batch([(703, c) for c in conts])
    for c, g in zip(conts, got):
        acc.res["evaluations"] += 1
        try:
            pe = etree.fromstring(("<p>%s</p>" % c).encode("utf-8"))
            lv = strip_events(lx_events(pe))
        except etree.XMLSyntaxError:
            lv = None
        cv = strip_events(coq_events(g[0])) if g != [] else None
        if lv != cv:
            acc.res["disagreements"].append({"stream": "S-malformed-content", "input": c, "impl": lv, "model": cv,
                                             "what": "spec content machine and lxml disagree (accept/reject or events)"})
        elif cv is None:
            acc.count("S_malformed_content_rejected_by_both")
        else:
            acc.count("S_content_accepted_by_both")


# ------------------------------------------------------------------------------------------------ P
STYLE_KEYS = ["text-align", "italics", "font-family", "font-size", "color", "display-align"]


def rand_style(rng, allow_empty=True):
    r = rng.random()
    if allow_empty and r < 0.15:
        return {"bold": True}                       # no DFXP attribute: no span is opened
    d = {}
    for k in rng.sample(STYLE_KEYS, rng.randint(1, 3)):
        d[k] = (rng.random() < 0.8) if k == "italics" else rand_value(rng, 3, ws=rng.random() < 0.3)
    if rng.random() < 0.12:
        d["region"] = rng.choice(["bottom", "bottom", "r0", "zz"])     # a key only LegacyDFXPWriter._recreate_style reads
    return d


def wire_value(v):
    """style values as the model sees them: strings; True -> "x", False / None -> "" (falsy)"""
    if isinstance(v, str):
        return v
    return "x" if v else ""


def rand_nodes(rng, depth=0):
    """balanced node list: texts, breaks, style start/end pairs (possibly nested)"""
    nodes = []
    n = rng.randint(1, 4)
    for i in range(n):
        r = rng.random()
        if r < 0.5 or depth > 1:
            nodes.append(("text", rand_vis_text(rng) + rng.choice(["", "", " "])))
        elif r < 0.7 and nodes:
            nodes.append(("break",))
            nodes.append(("text", rand_vis_text(rng)))
        else:
            st = rand_style(rng)
            nodes.append(("start", st))
            nodes += rand_nodes(rng, depth + 1)
            nodes.append(("end", st))
    return nodes


def to_caption_nodes(nodes, layouts=None):
    out = []
    for i, n in enumerate(nodes):
        lay = layouts[i] if layouts else None
        if n[0] == "text":
            out.append(CaptionNode.create_text(n[1], layout_info=lay))
        elif n[0] == "break":
            out.append(CaptionNode.create_break(layout_info=lay))
        elif n[0] == "start":
            out.append(CaptionNode.create_style(True, dict(n[1]), layout_info=lay))
        else:
            out.append(CaptionNode.create_style(False, dict(n[1]), layout_info=lay))
    return out


def lx_events(p):
    ev = []

    def walk(e, top):
        if not top:
            ev.append([1, etree.QName(e).localname if not e.prefix else e.prefix + ":" + etree.QName(e).localname,
                       sorted([attr_name(e, k), v] for k, v in e.attrib.items())])
        if e.text:
            ev.append(e.text)
        for ch in e:
            walk(ch, False)
            if ch.tail:
                ev.append(ch.tail)
        if not top:
            ev.append([2, etree.QName(e).localname])
    walk(p, True)
    return ev


def attr_name(e, k):
    q = etree.QName(k)
    if q.namespace == TTS[1:-1]:
        return "tts:" + q.localname
    if q.namespace == XMLNS[1:-1]:
        return "xml:" + q.localname
    return q.localname


def coq_events(evs):
    out = []
    for e in evs:
        if isinstance(e, int):
            if out and isinstance(out[-1], str):
                out[-1] += chr(e)
            else:
                out.append(chr(e))
        elif e[0] == 1:
            out.append([1, e[1], sorted([k, v] for k, v in e[2])])
        else:
            out.append([2, e[1]])
    return out


def strip_events(ev):
    ev = [e for e in ev]
    if ev and isinstance(ev[0], str):
        ev[0] = ev[0].lstrip()
    if ev and isinstance(ev[-1], str):
        ev[-1] = ev[-1].rstrip()
    return [e for e in ev if e != ""]


def ws_events(ev):
    """events with the whitespace of character data normalised: runs collapsed, every text segment stripped, empty
    segments dropped (where blanks and line breaks stand in the payload is C03's business, not C07's)"""
    out = []
    for e in ev:
        if isinstance(e, str):
            if out and isinstance(out[-1], str):
                out[-1] = out[-1] + e
                continue
        out.append(e)
    out = [re.sub(r"\s+", " ", e).strip() if isinstance(e, str) else e for e in out]
    return [e for e in out if e != ""]


def stream_payload(ctx, acc):
    rng = ctx.rng
    cases = []
    fixed = [[("start", {"color": 'r&d'}), ("text", "x & <y>"), ("end", {})],
             [("start", {"region": "bottom", "color": "red"}), ("text", "legacy region"), ("end", {}),
              ("start", {"region": "r7"}), ("text", "no such region"), ("end", {})],
             [("start", {"italics": False}), ("text", "not italic ]]> here"), ("end", {})],
             [("text", "a "), ("break",), ("text", " b"), ("start", {"italics": True}), ("start", {"bold": True}),
              ("text", "c"), ("end", {}), ("text", "d"), ("end", {})],
             [("start", {"bold": True}), ("text", "plain"), ("end", {})]]
    for f in fixed:
        cases.append([f])
    for _ in range(ctx.n(250, 5000)):
        cases.append([rand_nodes(rng) for _ in range(rng.randint(1, 3))])
    for wname in ("main", "legacy"):
        style_reqs = []
        for caps in cases:
            for nodes in caps:
                for n in nodes:
                    if n[0] == "start":
                        cp = [[k, wire_value(v)] for k, v in n[1].items()]
                        style_reqs.append((712, [cp, [], ["bottom"]]) if wname == "legacy" else (705, [cp, []]))
        attrs = iter(oracle_batch(style_reqs))
        reqs = []
        for caps in cases:
            for nodes in caps:
                pn = []
                for n in nodes:
                    if n[0] == "text":
                        pn.append([0, n[1]])
                    elif n[0] == "break":
                        pn.append([1])
                    elif n[0] == "start":
                        pn.append([2, next(attrs)])
                    else:
                        pn.append([3])
                reqs.append((704, [1 if wname == "legacy" else 0, 0, pn]))
        models = iter(oracle_batch(reqs))
        payloads, wanted = [], []
        for caps in cases:
            cs = CaptionSet({"en": CaptionList([Caption(i * 2000000, i * 2000000 + 1000000, to_caption_nodes(nodes))
                                                 for i, nodes in enumerate(caps)])})
            out = impl.call(lambda: WRITERS[wname]().write(cs))
            ms = [next(models) for _ in caps]
            acc.res["evaluations"] += 1
            inp = {"writer": wname, "captions": caps}
            if not isinstance(out, Ok):
                acc.res["violations"].append({"kind": "write-raises", "what": "%s writer raised" % wname, "input": inp, "replay": "payload"})
                continue
            got = [x.strip() for x in re.findall(r"<p [^>]*>(.*?)</p>", out.v, re.S)]
            try:
                root = etree.fromstring(out.v.encode("utf-8"))
                lx = [strip_events(lx_events(p)) for p in root.iter(TT + "p")]
            except etree.XMLSyntaxError as e:
                acc.res["violations"].append({"kind": "ill-formed-xml", "what": "payload makes the document ill-formed: %s" % e,
                                              "input": inp, "document": out.v[:3000], "replay": "payload"})
                continue
            if len(got) != len(caps) or any(m[1] != 0 for m in ms):
                acc.res["disagreements"].append({"stream": "P", "input": inp, "what": "payload count / open span flag", "impl": got})
                continue
            payloads.append((inp, got, lx, [m[0].strip() for m in ms]))   # prettify strips the text node
            wanted += [(703, g) for g in got] + [(703, m[0].strip()) for m in ms]
        parsed = iter(oracle_batch(wanted))
        for inp, got, lx, ms in payloads:
            evs = [next(parsed) for _ in got]
            mevs = [next(parsed) for _ in ms]
            bad = [g for g, e in zip(got, evs) if e == []]
            if bad:
                acc.res["violations"].append({"kind": "payload-ill-formed", "what": "the strict content parser rejects %r" % bad[0],
                                              "input": inp, "replay": "payload"})
                continue
            ce = [strip_events(coq_events(e[0])) for e in evs]
            if ce != lx:
                acc.res["disagreements"].append({"stream": "P", "input": inp, "impl": lx, "model": ce,
                                                 "what": "lxml and the Coq content parser see different events"})
            elif any(e == [] for e in mevs) or [ws_events(strip_events(coq_events(e[0]))) for e in mevs] != [ws_events(x) for x in ce]:
                acc.res["disagreements"].append({"stream": "P", "input": inp, "impl": got, "model": ms,
                                                 "what": "the events of the payload differ from those of the model's payload "
                                                         "(recreate_text), whitespace runs collapsed"})
            else:
                if got != ms:
                    acc.count("P_payload_bytes_differ_from_the_model(events equal up to whitespace)")
                acc.res["nontrivial"].add(("P", inp["writer"], json.dumps(inp["captions"], sort_keys=True)))
                acc.count("P_spans", sum(g.count("<span") for g in got))
    acc.count("P_cases", 2 * len(cases))


# ------------------------------------------------------------------------------------------------ R
def layout_pool(absolute=False):
    pct = UnitEnum.PERCENT
    o1 = Point(Size(10, pct), Size(20, pct))
    o2 = Point(Size(30, pct), Size(40, pct))
    ext = Stretch(Size(50, pct), Size(20, pct))
    pad = Padding(Size(1, pct), Size(2, pct), Size(3, pct), Size(4, pct))
    al = Alignment(HorizontalAlignmentEnum.LEFT, VerticalAlignmentEnum.TOP)
    from pycaption.dfxp.base import DFXP_DEFAULT_REGION
    mk = [lambda: None, lambda: None, lambda: Layout(origin=o1), lambda: Layout(origin=o1), lambda: Layout(origin=o2),
          lambda: Layout(extent=ext), lambda: Layout(origin=o1, extent=ext, padding=pad), lambda: Layout(alignment=al),
          lambda: Layout(), lambda: DFXP_DEFAULT_REGION,
          lambda: Layout(alignment=Alignment(HorizontalAlignmentEnum.CENTER, VerticalAlignmentEnum.BOTTOM)),
          # alignments with only ONE component (a DFXP input with an unknown tts:textAlign plus tts:displayAlign
          # yields the first): no attribute may be written with the value None
          lambda: Layout(alignment=Alignment(None, VerticalAlignmentEnum.TOP)),
          lambda: Layout(alignment=Alignment(HorizontalAlignmentEnum.RIGHT, None)),
          lambda: Layout(origin=o2, alignment=Alignment(None, VerticalAlignmentEnum.CENTER)),
          lambda: Layout(extent=ext, alignment=Alignment(HorizontalAlignmentEnum.LEFT, None)),
          lambda: Layout(alignment=Alignment(None, None)),
          # what WebVTTReader returns: only webvtt_positioning (truthy, but creates no region; equal to Layout()),
          # alone and next to an origin (equal to Layout(origin=o1))
          lambda: Layout(webvtt_positioning="line:10%"), lambda: Layout(webvtt_positioning="position:20% align:start"),
          lambda: Layout(origin=o1, webvtt_positioning="line:0"),
          # origin + extent beyond the screen: fit_to_screen has something to clip
          lambda: Layout(origin=Point(Size(60, pct), Size(70, pct)), extent=Stretch(Size(60, pct), Size(50, pct)))]
    if absolute:
        px, em, c = UnitEnum.PIXEL, UnitEnum.EM, UnitEnum.CELL
        mk += [lambda: Layout(origin=Point(Size(64, px), Size(36, px))),
               lambda: Layout(origin=Point(Size(100, px), Size(300, px)), extent=Stretch(Size(600, px), Size(100, px))),
               lambda: Layout(origin=Point(Size(2, em), Size(3, em))),
               lambda: Layout(origin=Point(Size(4, c), Size(5, c)), extent=Stretch(Size(10, c), Size(2, c))),
               lambda: Layout(padding=Padding(Size(5, px), Size(5, px), Size(5, px), Size(5, px)))]
    return mk


class Recorder:
    seen = None


# ---- stream K: the tree handed to prettify -------------------------------------------------------------------------
class TreeSpy:
    last = None


_orig_prettify = BeautifulSoup.prettify


def _spy_prettify(self, *a, **k):
    if isinstance(self, BeautifulSoup):
        try:
            TreeSpy.last = skeleton_of_tree(self)
        except Exception as e:                      # never disturb the writer
            TreeSpy.last = ("error", repr(e))
    return _orig_prettify(self, *a, **k)


BeautifulSoup.prettify = _spy_prettify


def _kids(tag):
    """element children; None when there is a non-blank string among the children"""
    out = []
    for c in tag.contents:
        if isinstance(c, Tag):
            out.append(c)
        elif isinstance(c, NavigableString) and type(c) is NavigableString:
            if c.strip():
                return None
        else:
            return None
    return out


def _attrs(tag):
    return [[str(k), str(v)] for k, v in tag.attrs.items()]


def skeleton_of_tree(soup):
    """the skeleton the model renders, or ("no-skeleton", why)"""
    top = _kids(soup)
    if top is None or [t.name for t in top] != ["tt"]:
        return ("no-skeleton", "root")
    tt = top[0]
    k = _kids(tt)
    if k is None or [t.name for t in k] != ["head", "body"] or k[0].attrs or k[1].attrs:
        return ("no-skeleton", "tt children")
    head, body = k
    hk = _kids(head)
    if hk is None or [t.name for t in hk] != ["styling", "layout"] or hk[0].attrs or hk[1].attrs:
        return ("no-skeleton", "head children")
    sts, rgs = _kids(hk[0]), _kids(hk[1])
    if sts is None or rgs is None or any(t.name != "style" or t.contents for t in sts) or any(t.name != "region" or t.contents for t in rgs):
        return ("no-skeleton", "styling / layout children")
    divs = _kids(body)
    if divs is None or any(t.name != "div" for t in divs):
        return ("no-skeleton", "body children")
    dvs = []
    for dv in divs:
        ps = _kids(dv)
        if ps is None or any(t.name != "p" for t in ps):
            return ("no-skeleton", "div children")
        pl = []
        for p_ in ps:
            if len(p_.contents) != 1 or type(p_.contents[0]) is not NavigableString:
                return ("no-skeleton", "p children")
            pl.append([_attrs(p_), str(p_.contents[0])])
        dvs.append([_attrs(dv), pl])
    return ("ok", [_attrs(tt), [_attrs(t) for t in sts], [_attrs(t) for t in rgs], dvs])


TTS_DECL = ' xmlns:tts="http://www.w3.org/ns/ttml#styling"'


def damaged_variants(out):
    """(label, text, expected verdict of the spec or None = whatever expat says)"""
    v = [("second_root", out + "<x/>"), ("text_after_root", out + "x"), ("text_before_declaration", "x" + out),
         ("white_space_before_declaration", "\n" + out), ("end_tag_missing", out.rstrip()[:-len("</tt>")]),
         ("no_declaration", out.split("\n", 1)[1] if out.startswith("<?xml") else out),
         ("other_declaration", out.replace('<?xml version="1.0" encoding="utf-8"?>', "<?xml version='1.0'  encoding = \"UTF-8\" standalone='yes' ?>", 1)),
         ("declaration_without_version", out.replace(' version="1.0"', "", 1)),
         ("reference_after_root", out + "&#32;")]
    if TTS_DECL in out:
        v.append(("tts_prefix_undeclared", out.replace(TTS_DECL, "", 1)))
    return v


def expat_accepts(text):
    try:
        root = ET.fromstring(text.encode("utf-8"))
        return True, sum(1 for _ in root.iter())
    except ET.ParseError:
        return False, 0


def rand_declaration_doc(rng):
    """a document with a random, often malformed, XML declaration"""
    def q(v):
        c = rng.choice(['"', "'"])
        return c + v + c
    if rng.random() < 0.3:                  # a well-formed one, spelled freely
        s = "<?xml" + rng.choice([" ", "\n", "  "]) + "version" + rng.choice(["=", " =", "= ", " = ", "\t=\n"]) + q(rng.choice(["1.0", "1.1", "1.23"]))
        if rng.random() < 0.6:
            s += rng.choice([" ", "\t"]) + "encoding" + rng.choice(["=", " = "]) + q(rng.choice(["utf-8", "UTF-8", "utf_8", "U.8-x"]))
        if rng.random() < 0.4:
            s += rng.choice([" ", "\n "]) + "standalone" + rng.choice(["=", " ="]) + q(rng.choice(["yes", "no"]))
        return s + rng.choice(["", " ", "\n"]) + "?>" + rng.choice(["<a/>", "\n<a/>\n", " <a b='1'>x</a>"])
    items = [("version", rng.choice(["1.0", "1.0", "1.0", "1.1", "1.", "2.0", "1.00", "1.0 ", "", " 1.0", "1,0"]))]
    if rng.random() < 0.6:
        items.append(("encoding", rng.choice(["utf-8", "UTF-8", "utf_8", "-utf8", "8utf", "utf 8", ""])))
    if rng.random() < 0.4:
        items.append(("standalone", rng.choice(["yes", "no", "maybe", "YES", ""])))
    if rng.random() < 0.15:
        rng.shuffle(items)
    if rng.random() < 0.1:
        items = items[1:]
    if rng.random() < 0.08:
        items.append(("version", "1.0"))
    s = "<?xml"
    for k, v in items:
        s += rng.choice([" ", " ", "  ", "\n", ""] if rng.random() < 0.2 else [" "]) + k + rng.choice(["=", " =", "= ", " = ", "\t=\n"]) \
            + (q(v) if rng.random() < 0.95 else '"' + v + "'")
    s += rng.choice(["", "", " ", "\n"]) + rng.choice(["?>", "?>", "?>", "? >", ">", "?"])
    return s + rng.choice(["<a/>", "\n<a/>\n"])


def stream_declarations(ctx, acc):
    """the XML declaration grammar of the spec (SpecXmlDoc.xml_decl) against expat"""
    rng = ctx.rng
    docs = [rand_declaration_doc(rng) for _ in range(ctx.n(200, 3000))]
    for d, r in zip(docs, oracle_batch([(715, d) for d in docs])):
        acc.res["evaluations"] += 1
        try:
            ET.fromstring(d.encode("utf-8"))
            ok = True
        except ET.ParseError:
            ok = False
        except LookupError:                 # well-formed, but an encoding name Python does not know
            ok = True
        spec = bool(r[0])
        m = re.search(r"""version\s*=\s*["']([^"']*)["']""", d)
        if ok == spec:
            acc.count("K_declarations_%s_by_expat_and_by_the_spec" % ("accepted" if ok else "refused"))
        elif ok and m and not re.fullmatch(r"1\.[0-9]+", m.group(1)):
            acc.count("K_declaration_version_is_not_a_VersionNum(expat does not check production 26; the spec refuses)")
        elif ok and not d[5:6].isspace():
            acc.count("K_declaration_is_a_processing_instruction(no white space after <?xml; the spec knows no PIs)")
        else:
            acc.res["disagreements"].append({"stream": "K-declaration", "input": {"document": d}, "what": "XML declaration: expat %s, "
                                             "SpecXmlDoc.doc_parse %s" % ("accepts" if ok else "refuses", "accepts" if spec else "refuses")})


def decorated_document(seen, inline_on):
    """-> wire value of coq xset (model/DfxpSkelBody.v): abstract_document of the set the RegionCreator saw, decorated with
    what the reference model does not look at: language codes, begin / end, the positioning attributes
    (_convert_layout_to_attributes of the layout get_positioning_info picks: first truthy of node, caption, language,
    else the set's) that write_inline_positioning adds"""
    from pycaption.dfxp.base import _convert_layout_to_attributes

    def conv(l):
        return [[str(k), str(v)] for k, v in _convert_layout_to_attributes(l).items()] if inline_on else []

    def picked(*ls):
        for l in ls:
            if l:
                return l
        return ls[-1]
    d = abstract_document(seen)
    set_l = seen.layout_info
    langs = []
    for (ll, caps), lang in zip(d[2], seen.get_languages()):
        lang_l = seen.get_layout_info(lang)
        xcaps = []
        for (cl, st, ns), c in zip(caps, seen.get_captions(lang)):
            xns = [[rn[0], rn[1], rn[2], conv(n.layout_info) if (rn[1] and n.layout_info) else []] for rn, n in zip(ns, c.nodes)]
            xcaps.append([cl, st, xns, c.format_start(), c.format_end(), conv(picked(c.layout_info, lang_l, set_l))])
        langs.append([ll, xcaps, lang, conv(picked(lang_l, set_l))])
    return [d[0], d[1], langs]


SPAN_RE = re.compile(r'<span((?: [^\s=]+=(?:"[^"]*"|\'[^\']*\'))+)>')
SPAN_ATTR_RE = re.compile(r' ([^\s=]+)=("[^"]*"|\'[^\']*\')')


def spans_of_payload(text):
    """the attribute dictionaries of the <span> start tags _recreate_span wrote into a <p> string (quoteattr undone)"""
    from xml.sax.saxutils import unescape
    ent = {"&quot;": '"', "&#10;": "\n", "&#13;": "\r", "&#9;": "\t"}
    return [[[k, unescape(v[1:-1], ent)] for k, v in SPAN_ATTR_RE.findall(m.group(1))] for m in SPAN_RE.finditer(text)]


def region_number(rid_):
    return -1 if rid_ == "bottom" else int(rid_[1:])


def stream_skeleton(ctx, acc, docs):
    """docs: list of (inp, rp, out, captured skeleton, style table, decorated set of the main writer or None)"""
    rng = ctx.rng
    reqs, plan = [], []
    for inp, rp, out, sk, table, xdoc in docs:
        if len(out) > 60000:
            acc.count("K_document_longer_than_60000_characters(not sent)")
            continue
        if not xml_char_ok(out):
            acc.count("K_document_with_non_XML_characters(outside the domain)")
            continue
        if sk is None or sk[0] != "ok":
            acc.count("K_tree_is_not_the_skeleton:%s" % (sk[1] if sk else "not captured"))
            acc.res["disagreements"].append({"stream": "K-skeleton", "input": inp, "what": "the tree handed to prettify is not the "
                                             "skeleton tt/head/styling/layout/body/div/p of the model: %r" % (sk,)})
            continue
        reqs.append((714, sk[1]))
        plan.append(("render", inp, rp, out, None))
        if table is not None:
            # the <style> dictionaries of the tree (insertion order) against DfxpSkelHead.style_elems of the style table
            reqs.append((716, table))
            plan.append(("styling", inp, rp, sk[1][1], None))
        else:
            acc.count("K_styling_of_single_positioning_writer(text-align removed first: not compared)")
        if xdoc is not None and xdoc[0] == "ok" and not ctx.thorough and rng.random() >= 0.6:
            acc.count("K_tree_tie_not_sampled(quick tier compares 60 % of the main-writer documents; thorough all)")
        elif xdoc is not None and xdoc[0] == "ok":
            # round 4: <layout> and <body> of the tree (insertion order) against DfxpSkelBody.tree_of of the set the writer
            # traversed; the layout attributes of a <region> are taken from the tree
            rg = sk[1][2]
            ids_ = [dict(map(tuple, a)).get("xml:id") for a in rg]
            if all(isinstance(i, str) and re.fullmatch(r"bottom|r[0-9]+", i) for i in ids_):
                reqs.append((717, [xdoc[1], [[region_number(i), [kv for kv in a if kv[0] != "xml:id"]] for i, a in zip(ids_, rg)]]))
                plan.append(("tree", inp, rp, sk[1], None))
            else:
                acc.res["disagreements"].append(dict({"stream": "K-tree", "input": inp, "what": "a <region> of the tree has no "
                                                 "xml:id of the form bottom / r<k>: %r" % (ids_,)}, **rp))
        elif xdoc is not None:
            acc.count("K_tree_not_compared:" + xdoc[0])
        reqs.append((715, out))
        plan.append(("parse", inp, rp, out, None))
        if rng.random() < 0.10:
            for label, text in damaged_variants(out):
                reqs.append((715, text))
                plan.append(("damaged", inp, rp, text, label))
    for (kind, inp, rp, text, label), r in zip(plan, oracle_batch(reqs)):
        acc.res["evaluations"] += 1
        if kind == "tree":
            want_regions = text[2]
            want_body = [[dv[0], [[p_[0], spans_of_payload(p_[1])] for p_ in dv[1]]] for dv in text[3]]
            got_body = [[dv[0], [[p_[0], [sp for sp in p_[1] if sp]] for p_ in dv[1]]] for dv in r[1]] if isinstance(r, list) and len(r) == 7 else None
            refs_of = lambda k, b: [v for dv in b for el in [dv[0]] + [e for p_ in dv[1] for e in [p_[0]] + p_[1]] for kk, v in el if kk == k]   # noqa: E731
            if got_body is None or r[0] != want_regions or got_body != want_body:
                acc.res["disagreements"].append(dict({"stream": "K-tree", "input": inp, "what": "the <region> / <div> / <p> / <span> "
                                                 "attribute dictionaries of the tree (insertion order) differ from DfxpSkelBody.tree_of "
                                                 "of the caption set the writer traversed", "model": r if got_body is None else [r[0], got_body],
                                                 "impl": [want_regions, want_body]}, **rp))
            elif r[6] and r[5] != 0:
                acc.res["disagreements"].append(dict({"stream": "K-tree", "input": inp, "what": "ok_refs of the ids / references read "
                                                 "from the model tree = %r inside dom_doc (theorem C07_document_references_resolved)" % (r[5],)}, **rp))
            else:
                acc.count("K_layout_and_body_of_the_tree_equal_the_model(DfxpSkelBody.tree_of)")
                acc.count("K_tree_region_elements", len(want_regions))
                acc.count("K_tree_div_elements", len(want_body))
                acc.count("K_tree_p_elements", sum(len(dv[1]) for dv in want_body))
                acc.count("K_tree_span_dictionaries", sum(len(p_[1]) for dv in want_body for p_ in dv[1]))
                acc.count("K_tree_region_references", len(refs_of("region", want_body)))
                acc.count("K_tree_style_references_in_the_body", len(refs_of("style", want_body)))
                acc.count("K_tree_elements_with_inline_positioning_attributes",
                          sum(1 for dv in want_body for el in [dv[0]] + [e for p_ in dv[1] for e in [p_[0]] + p_[1]]
                              if any(k.startswith("tts:origin") or k.startswith("tts:extent") or k.startswith("tts:padding") for k, _ in el)))
                acc.count("K_tree_documents_outside_dom_doc(style id = region id; dictionaries still equal)", 0 if r[6] else 1)
                if refs_of("region", r[1]) != r[4] or [v for a in want_regions for k, v in a if k == "xml:id"] != r[2][len(r[2]) - len(want_regions):]:
                    acc.res["disagreements"].append(dict({"stream": "K-tree", "input": inp, "what": "tree_region_refs / tree_ids of the "
                                                     "model differ from the references / ids read from the captured tree"}, **rp))
            continue
        if kind == "styling":
            if r == text:
                acc.count("K_styling_sections_of_the_tree_equal_the_model(DfxpSkelHead.style_elems)")
                acc.count("K_style_elements_in_those", len(text))
            else:
                acc.res["disagreements"].append(dict({"stream": "K-styling", "input": inp, "what": "the <style> attribute dictionaries of the "
                                                 "tree (insertion order) differ from DfxpSkelHead.style_elems of the style table",
                                                 "model": r, "impl": text}, **rp))
            continue
        if kind == "render":
            if r == text:
                acc.count("K_documents_rendered_by_the_model_equal_the_output_byte_for_byte")
                acc.count("K_p_elements_rendered", text.count("<p "))
                acc.count("K_empty_element_tags_rendered", text.count("/>") - text.count("<br/>"))
                acc.res["nontrivial"].add(("K", inp["writer"], text))
            else:
                i = next((j for j, (a, b) in enumerate(zip(r, text)) if a != b), min(len(r), len(text))) if isinstance(r, str) else 0
                acc.res["disagreements"].append(dict({"stream": "K-render", "input": inp, "what": "DfxpSkel.dfxp_document of the tree the "
                                                 "writer built differs from the writer's output at offset %d" % i,
                                                 "model": (r[max(0, i - 80):i + 80] if isinstance(r, str) else r),
                                                 "impl": text[max(0, i - 80):i + 80]}, **rp))
        else:
            ok, n = expat_accepts(text)
            spec_ok = bool(r[0]) and bool(r[1])
            if kind == "parse":
                if not ok:
                    # the violation itself is reported by stream D; here: the document machine must refuse it too
                    if spec_ok:
                        acc.res["disagreements"].append(dict({"stream": "K-parse", "input": inp, "what": "the Coq document machine accepts "
                                                         "(doc_parse and ns_ok) an output that expat refuses", "document": text[:3000]}, **rp))
                    else:
                        acc.count("K_outputs_refused_by_expat_and_by_the_document_machine")
                    continue
                if spec_ok and r[2] and r[3] == n:
                    acc.count("K_outputs_accepted_by_the_document_machine(ns_ok, tt in TTML namespace, element count = expat)")
                else:
                    acc.res["disagreements"].append(dict({"stream": "K-parse", "input": inp, "what": "the Coq document machine "
                                                     "(doc_parse, ns_ok, root_in_ns, elements) answers %r on an output expat accepts with %d elements" % (r, n),
                                                     "document": text[:3000]}, **rp))
            else:
                if spec_ok == ok and (not ok or r[3] == n):
                    acc.count("K_damaged_%s_%s_by_both" % (label, "accepted" if ok else "refused"))
                else:
                    acc.res["disagreements"].append({"stream": "K-damaged", "input": inp, "what": "damaged document (%s): expat %s, "
                                                     "Coq document machine %r" % (label, "accepts" if ok else "refuses", r),
                                                     "document": text[:3000]})


def recording_writer(base, **kw):
    class RC(RegionCreator):
        def __init__(self, dfxp, caption_set):
            super().__init__(dfxp, caption_set)
            Recorder.seen = caption_set

    class W(base):
        @staticmethod
        def _get_region_creator_class():
            return RC
    return W(**kw)


def creates_region(l):
    """the test of RegionCreator._create_unique_regions, restated"""
    return bool(l.origin or l.extent or l.padding or l.alignment)


def abstract_layouts(cs):
    """-> wire value of coq rset; a layout is abstracted to (equality class, creates a region, truthy);
    class 0 = equal to DFXP_DEFAULT_REGION"""
    from pycaption.dfxp.base import DFXP_DEFAULT_REGION
    classes = [DFXP_DEFAULT_REGION]

    def ab(l):
        if l is None:
            return []
        for i, c in enumerate(classes):
            if c == l:
                return [i, 1 if creates_region(l) else 0, 1 if l else 0]
        classes.append(l)
        return [len(classes) - 1, 1 if creates_region(l) else 0, 1 if l else 0]
    langs = []
    for lang in cs.get_languages():
        caps = []
        for c in cs.get_captions(lang):
            ns = [[ab(n.layout_info), 1 if (n.type_ == CaptionNode.STYLE and n.start) else 0] for n in c.nodes]
            caps.append([ab(c.layout_info), ns])
        langs.append([ab(cs.get_layout_info(lang)), caps])
    return [ab(cs.layout_info), langs]


def tag_collision(v):
    """the known failure, exactly: ids are not unique AND every duplicated id is both the id of a written <style> and of
    a <region> (style ids and region ids share the xml:id space)"""
    if v.get("kind") == "ids-not-unique" and v.get("duplicated") and v.get("duplicates_are_style_and_region_ids"):
        v["shape"] = "style-id-equals-region-id"
    return v


def content_pairs(d):
    return [[k, wire_value(v)] for k, v in d.items() if isinstance(k, str)]


def abstract_document(cs, langs=None):
    """-> wire value of coq dset (model/DfxpDoc.v) for the caption set the writer traverses"""
    rset = abstract_layouts(cs)
    out = []
    for li, lang in enumerate(cs.get_languages()):
        caps = []
        for ci, c in enumerate(cs.get_captions(lang)):
            rc = rset[1][li][1][ci]
            ns = [[rn[0], rn[1], content_pairs(n.content) if (n.type_ == CaptionNode.STYLE and isinstance(n.content, dict)) else []]
                  for rn, n in zip(rc[1], c.nodes)]
            caps.append([rc[0], [content_pairs(c.style)] if c.style else [], ns])
        if langs is None or lang in langs:
            out.append([rset[1][li][0], caps])
    styles = [[sid, content_pairs(st)] for sid, st in cs.get_styles()]
    return [rset[0], styles, out]


def span_dicts_differ(acc, inp, root, cs, written, want_refs, inline_on):
    """the attribute dictionary of every positioned <span> (style attributes, region, inline positioning) against
    model/DfxpDoc.span_attributes (requests 705 + 710), as DICTIONARIES (attribute order is not XML's business) and up
    to the renaming of region ids"""
    from pycaption.dfxp.base import _convert_layout_to_attributes
    spans = []
    for lang in cs.get_languages():
        for c in cs.get_captions(lang):
            for n in c.nodes:
                if n.type_ == CaptionNode.STYLE and n.start and n.layout_info:
                    inline = [[k, v] for k, v in _convert_layout_to_attributes(n.layout_info).items()] if inline_on else []
                    spans.append((content_pairs(n.content), inline))
    regions = [sp for dv in want_refs for p in dv[1] for sp in p[1]]
    got = [[[attr_name(e, k), v] for k, v in e.attrib.items()] for e in root.iter(TT + "span") if e.get("region")]
    if len(spans) != len(regions) or len(got) != len(spans):
        acc.res["disagreements"].append({"stream": "R-span", "input": inp, "what": "number of positioned spans",
                                         "impl": len(got), "model": [len(spans), len(regions)]})
        return True
    if not spans:
        return False
    sattrs = oracle_batch([(705, [c, written]) for c, _ in spans])
    want = oracle_batch([(710, [sa, Some(r), inl]) for sa, r, (_, inl) in zip(sattrs, regions, spans)])
    strip_region = lambda l: sorted([k, v] for k, v in l if k != "region")   # noqa: E731
    if [strip_region(x) for x in want] != [strip_region(x) for x in got] or any("region" not in dict(map(tuple, x)) for x in got):
        acc.res["disagreements"].append({"stream": "R-span", "input": inp, "impl": got, "model": want,
                                         "what": "span attribute dictionary differs from model span_attributes"})
        return True
    if want != got:
        acc.count("R_span_attribute_order_or_region_name_differs_from_the_model(same dictionary)")
    acc.count("R_positioned_spans", len(spans))
    acc.count("R_positioned_spans_with_inline_attributes", len(spans) if inline_on else 0)
    return False


def rid(x):
    return "bottom" if x == -1 else "r%d" % x


def canon(summ):
    """ids / references up to a renaming of the REGION ids (first occurrence order) and up to the order of the
    definitions: [sorted style ids, number of regions, sorted style refs, region refs renamed]"""
    ids, style_ids, region_ids, style_refs, region_refs = summ
    names = {}
    for r in region_refs + region_ids:
        names.setdefault(r, "R%d" % len(names))
    return [sorted(x for x in ids if x not in region_ids) + sorted(names[r] for r in region_ids),
            sorted(style_ids), sorted(names[r] for r in region_ids), sorted(style_refs), [names[r] for r in region_refs]]


def summary_of(root):
    body = root.find(TT + "body")
    return [[e.get(XMLNS + "id") for e in root.iter() if e.get(XMLNS + "id") is not None],
            [e.get(XMLNS + "id") for e in root.iter(TT + "style") if e.get(XMLNS + "id") is not None],
            [e.get(XMLNS + "id") for e in root.iter(TT + "region") if e.get(XMLNS + "id") is not None],
            [e.get("style") for e in root.iter() if e.get("style") is not None],
            [e.get("region") for e in (body.iter() if body is not None else []) if e.get("region") is not None]]


def rand_styles(rng, names_pool, extra_region_like=0.04, allow_empty=True):
    """a styles dict with class chains: dangling, forward, backward, self references and references to empty styles"""
    styles = {}
    for name in rng.sample(names_pool, rng.randint(0, 4)) + ([rng.choice(REGION_LIKE)] if rng.random() < extra_region_like else []):
        styles[name] = rand_style(rng, allow_empty=allow_empty) if rng.random() < 0.85 else {}
    names = list(styles)
    for name in names:
        if styles[name] and rng.random() < 0.4:
            styles[name]["class"] = rng.choice(names + ["missing", name])
    return styles


def stream_regions(ctx, acc):
    rng = ctx.rng
    pool = layout_pool()
    for _ in range(ctx.n(250, 5000)):
        nl = rng.choice([1, 1, 2, 3])
        d = {}
        styles = rand_styles(rng, NCNAMES + (WILD_NAMES if rng.random() < 0.3 else []))
        names = list(styles) + ["missing", "default", "p"]
        for li in range(nl):
            caps = []
            for ci in range(rng.randint(1, 3)):
                nodes = [(n[0], dict(n[1], **{"class": rng.choice(names)})) if n[0] == "start" and rng.random() < 0.35 else n
                         for n in rand_nodes(rng)]
                lays = [rng.choice(pool)() if rng.random() < 0.4 else None for _ in nodes]
                kw = {"layout_info": rng.choice(pool)()}
                if rng.random() < 0.5:
                    kw["style"] = dict(rand_style(rng, allow_empty=False), **({"class": rng.choice(names)} if rng.random() < 0.7 else {}))
                caps.append(Caption(ci * 2000000, ci * 2000000 + 1000000, to_caption_nodes(nodes, lays), **kw))
            d[LANGS[li]] = CaptionList(caps, layout_info=rng.choice(pool)())
        cs = CaptionSet(d, styles=styles, layout_info=rng.choice(pool)())
        wname = rng.choice(["main", "main", "single", "legacy"])
        kw = {}
        if wname != "legacy":
            kw = {"write_inline_positioning": rng.random() < 0.4}
            r = rng.random()
            if r < 0.3:
                kw.update({"relativize": False, "fit_to_screen": False})
            elif r < 0.5:
                kw.update({"relativize": rng.random() < 0.5, "fit_to_screen": rng.random() < 0.5})
            if wname == "single" and rng.random() < 0.4:
                kw["default_positioning"] = rng.choice([Layout(origin=Point(Size(5, UnitEnum.PERCENT), Size(80, UnitEnum.PERCENT))),
                                                        Layout(webvtt_positioning="line:10%"), Layout()])
        Recorder.seen = None
        blob = pickled(cs)
        w = recording_writer(WRITERS[wname], **kw) if wname != "legacy" else LegacyDFXPWriter()
        out = impl.call(lambda: w.write(cs))
        acc.res["evaluations"] += 1
        inp = {"writer": wname, "options": {k: repr(v) for k, v in kw.items()}, "set": gens.describe_capset(cs),
               "styles": repr(cs.get_styles())[:500]}
        rp = {"replay": "document", "pickle": blob, "writer": wname, "options_pickle": pickled(kw), "force": None}
        if not isinstance(out, Ok) or (wname != "legacy" and Recorder.seen is None):
            acc.res["violations"].append(dict({"kind": "write-raises", "what": "%s writer raised %r" % (wname, out), "input": inp}, **rp))
            continue
        root, bad = strict_parse(out.v, acc)
        if bad:
            acc.res["violations"].append(dict(bad, input=inp, document=out.v[:3000], **rp))
            continue
        v = check_document(root, out.v)
        if v:
            acc.res["violations"].append(dict(tag_collision(v), input=inp, document=out.v[:3000], **rp))
            continue
        got_summ = summary_of(root)
        if wname == "legacy":
            from pycaption.base import merge_concurrent_captions
            seen = merge_concurrent_captions(deepcopy(cs))
            summ = oracle_batch([(711, abstract_document(seen))])[0]
            if not summ[5]:
                acc.count("R_legacy_outside_dom_legacy")
            if canon(got_summ) != canon(summ[:5]):
                acc.res["disagreements"].append({"stream": "R-document-legacy", "input": inp, "impl": got_summ, "model": summ[:5],
                                                 "what": "ids / references differ from the legacy whole-document model (DfxpDoc.legacy_summarize)"})
            else:
                acc.res["nontrivial"].add(("R-legacy", json.dumps(got_summ)))
                acc.count("R_legacy_documents")
            continue
        seen = Recorder.seen
        if wname == "single":
            # the writer's own set transformation, modelled (request 713): from the ORIGINAL set (concurrent captions merged,
            # which the model does not see) and the positioning to the ids / references of the document
            from pycaption.base import merge_concurrent_captions
            from pycaption.dfxp.base import DFXP_DEFAULT_REGION
            pos = kw.get("default_positioning", DFXP_DEFAULT_REGION)
            pl = [0 if pos == DFXP_DEFAULT_REGION else 1, 1 if creates_region(pos) else 0, 1 if pos else 0]
            sm = oracle_batch([(713, [pl, abstract_document(merge_concurrent_captions(deepcopy(cs)))])])[0]
            if pl[0] == 1 and canon(got_summ) != canon(sm[:5]):
                # a custom default_positioning: DFXPWriter.write relativizes / fits the copies at the different levels
                # separately and an empty Layout() is not propagated like a real one - the transformation model is only
                # validated for the default positioning; counted, the document itself was judged above
                acc.count("R_single_positioning_custom_positioning_differs_from_the_model(not validated)")
            elif canon(got_summ) != canon(sm[:5]):
                acc.res["disagreements"].append({"stream": "R-document-single", "input": inp, "impl": got_summ, "model": sm[:5],
                                                 "what": "ids / references differ from the single-positioning model "
                                                         "(DfxpDoc.single_positioning + summarize)"})
                continue
            acc.count("R_single_positioning_documents_against_the_transformation_model")
            acc.count("R_single_positioning_custom_positioning", int(pl[0] == 1))
        m = oracle_batch([(706, abstract_layouts(seen))])[0]
        want_defined = [rid(x) for x in m[1]]
        want_refs = [[rid(dv[0]), [[rid(p[0]), [rid(s) for s in p[1]]] for p in dv[1]]] for dv in m[2]]
        summ = oracle_batch([(709, abstract_document(seen))])[0]
        if not summ[5]:
            acc.count("R_style_id_equals_a_region_id(outside dom_doc)")
        if canon(got_summ) != canon(summ[:5]):
            acc.res["disagreements"].append({"stream": "R-document", "input": inp, "impl": got_summ, "model": summ[:5],
                                             "what": "ids / references differ (up to renaming of region ids and order of "
                                                     "definitions) from the whole-traversal model (DfxpDoc)"})
        elif span_dicts_differ(acc, inp, root, seen, summ[1], want_refs, kw.get("write_inline_positioning", False)):
            pass
        else:
            if got_summ != summ[:5]:
                acc.count("R_region_names_or_definition_order_differ_from_the_model(same structure)")
            acc.res["nontrivial"].add(("R", json.dumps(got_summ)))
            acc.count("R_regions_defined", len(got_summ[2]))
            acc.count("R_unreferenced_created_then_removed", len(m[0]) - len(m[1]))
            acc.count("R_layouts_truthy_without_region(webvtt_positioning only)",
                      sum(1 for lang in seen.get_languages() for c in seen.get_captions(lang)
                          for l in [c.layout_info] + [n.layout_info for n in c.nodes] if l and not creates_region(l)))


# ------------------------------------------------------------------------------------------------ D
def check_document(root, text, expect_divs=None, expect_ps=None):
    """the document-level clauses of the property on a strictly parsed tree; returns a violation dict or None"""
    if root.tag != TT + "tt":
        return {"kind": "root-not-tt", "what": "root element is %s" % root.tag}
    head, body = root.find(TT + "head"), root.find(TT + "body")
    if head is None or body is None:
        return {"kind": "no-head-or-body", "what": "the document has no <head> / <body> in the TTML namespace"}
    ids = [e.get(XMLNS + "id") for e in root.iter() if e.get(XMLNS + "id") is not None]
    # definitions: in the head only; references: the whole tree (a <style> in the head may carry style=)
    style_ids = [e.get(XMLNS + "id") for e in head.iter(TT + "style") if e.get(XMLNS + "id") is not None]
    region_ids = [e.get(XMLNS + "id") for e in head.iter(TT + "region") if e.get(XMLNS + "id") is not None]
    style_refs = [e.get("style") for e in root.iter() if e.get("style") is not None]
    region_refs = [e.get("region") for e in body.iter() if e.get("region") is not None]
    if any(True for _ in body.iter(TT + "style")) or any(True for _ in body.iter(TT + "region")):
        return {"kind": "definition-outside-head", "what": "a <style> / <region> element stands in the body"}
    code = oracle_batch([(707, [ids, style_ids, region_ids, style_refs, region_refs])])[0]
    if code:
        kind = {1: "ids-not-unique", 2: "style-ref-unresolved", 3: "region-ref-unresolved", 4: "region-unreferenced"}[code]
        v = {"kind": kind, "what": "%s: ids %r, style refs %r, region refs %r" % (kind, ids, style_refs, region_refs)}
        if code == 1:
            dups = sorted({x for x in ids if ids.count(x) > 1})
            v["duplicated"] = dups
            v["duplicates_are_style_and_region_ids"] = all(style_ids.count(x) == 1 and region_ids.count(x) == 1 and ids.count(x) == 2 for x in dups)
        return v
    divs = list(root.iter(TT + "div"))
    if expect_divs is not None and [d.get(XMLNS + "lang") for d in divs] != expect_divs:
        return {"kind": "div-per-language", "what": "divs %r, written languages %r" % ([d.get(XMLNS + "lang") for d in divs], expect_divs)}
    for i, dv in enumerate(divs):
        ps = list(dv.iter(TT + "p"))
        if any(p.get("begin") is None or p.get("end") is None for p in ps):
            return {"kind": "p-without-begin-end", "what": "a <p> lacks begin/end"}
        if expect_ps is not None:
            if len(ps) != len(expect_ps[i]):
                return {"kind": "p-per-caption", "what": "div %d has %d <p>, expected %d (one per caption / per run of "
                                                        "captions with equal start and end)" % (i, len(ps), len(expect_ps[i]))}
            got = [(stamp_us(p.get("begin")), stamp_us(p.get("end"))) for p in ps]
            if any(a is None or b is None for a, b in got):
                return {"info": "p_time_expression_in_another_format(not compared)"}
            want = [(int(a) // 1000 * 1000, int(b) // 1000 * 1000) for a, b in expect_ps[i]]
            if any(abs(g[0] - w[0]) > 1000 or abs(g[1] - w[1]) > 1000 for g, w in zip(got, want)):
                return {"kind": "p-begin-end", "what": "div %d: <p> begin/end %r, captions / runs have %r" % (i, got, want)}
    return None


def runs(caps):
    """the runs of concurrent captions: maximal groups of ADJACENT captions with equal start AND equal end,
    computed from the input caption list alone (never with pycaption's merge function) -> [(start, end), ...]"""
    out = []
    for c in caps:
        if not out or out[-1] != (c.start, c.end):
            out.append((c.start, c.end))
    return out


def stamp_us(stamp):
    """TTML clock time h+:mm:ss(.f+)? or offset time <n>(.f+)?(h|m|s|ms) in microseconds; None when in another form"""
    m = re.fullmatch(r"(\d+):(\d\d):(\d\d)(?:\.(\d+))?", stamp or "")
    if m:
        h, mi, sec = int(m.group(1)), int(m.group(2)), int(m.group(3))
        frac = int(((m.group(4) or "0") + "000000")[:6])
        return ((h * 60 + mi) * 60 + sec) * 1000000 + frac
    m = re.fullmatch(r"(\d+(?:\.\d+)?)(h|m|s|ms)", stamp or "")
    if m:
        return int(round(float(m.group(1)) * {"h": 3600e6, "m": 60e6, "s": 1e6, "ms": 1e3}[m.group(2)]))
    return None


def rand_scc_doc(rng):
    """an SCC document from the independent CEA-608 encoder (harness/sccgen.py): 1-4 captions in pop-on (mostly), roll-up
    or paint-on mode; 1-3 rows per caption - adjacent or not, in any order; every row opened by a plain / indented /
    coloured / underlined / ITALIC preamble address code; tab offsets; mid-row codes (italics on, italics underline,
    plain, colours) between the words; control codes doubled or single.  Italics are regularly left ON when the
    next row is addressed or the caption ends."""
    lines, frame = [], 30
    doubled = rng.random() < 0.8
    letters = "ABCDEFGHIJKLMNOPQRSTUVWXYZabcdefghijklmnopqrstuvwxyz"
    for _ in range(rng.randint(1, 4)):
        mode = rng.choice(["pop", "pop", "pop", "pop", "roll", "paint"])
        ws = []
        if mode == "pop":
            ws += G.dbl([G.ENM, G.RCL] if rng.random() < 0.8 else [G.RCL], doubled)
        elif mode == "roll":
            ws += G.dbl([rng.choice([G.RU2, G.RU3, G.RU4]), G.CR], doubled)
        else:
            ws += G.dbl([G.RDC], doubled)
        rows = sorted(rng.sample(range(1, 16), rng.randint(1, 3)))
        if rng.random() < 0.3:
            rng.shuffle(rows)
        if mode == "roll":
            rows = rows[:1]
        for r in rows:
            kind = rng.random()
            if kind < 0.4:
                p = G.pac(r, italics=True, underline=rng.random() < 0.2)
            elif kind < 0.6:
                p = G.pac(r, indent=rng.choice([4, 8, 12]), underline=rng.random() < 0.2)
            else:
                p = G.pac(r, color=rng.choice([0, 0, 0, 1, 3, 6]), underline=rng.random() < 0.15)
            ws += G.dbl([p], doubled)
            if rng.random() < 0.2:
                ws += G.dbl([G.tab(rng.randint(1, 3))], doubled)
            for seg in range(rng.randint(1, 3)):
                if seg or rng.random() < 0.3:
                    ws += G.dbl([G.midrow(rng.choice([14, 14, 14, 15, 0, 0, 1, 2, 8]))], doubled)
                word = "".join(rng.choice(letters) for _ in range(rng.randint(1, 6)))
                ws += G.text_words(word + (" " if rng.random() < 0.5 else ""))
        if mode == "pop":
            ws += G.dbl([G.EDM, G.EOC] if rng.random() < 0.8 else [G.EOC], doubled)
        lines.append((G.timecode(frame, False), ws))
        frame += len(ws) + rng.randint(20, 90)
        if rng.random() < 0.7:
            lines.append((G.timecode(frame, False), G.dbl([G.EDM], doubled)))
            frame += rng.randint(5, 40)
    return G.doc(lines)


SCC_FIXED = [
    # italic PACs on non-adjacent rows inside one caption, then another caption (seeded round 3)
    [[G.ENM, G.ENM, G.RCL, G.RCL, G.pac(1, italics=True), G.pac(1, italics=True)] + G.text_words("AB")
     + [G.pac(5, italics=True), G.pac(5, italics=True)] + G.text_words("AB") + [G.EDM, G.EDM, G.EOC, G.EOC],
     [G.ENM, G.ENM, G.RCL, G.RCL, G.pac(15), G.pac(15)] + G.text_words("AB") + [G.EDM, G.EDM, G.EOC, G.EOC]],
    # three rows: mid-row italics, then a plain PAC elsewhere, italics never switched off
    [[G.ENM, G.ENM, G.RCL, G.RCL, G.pac(2), G.pac(2)] + G.text_words("one ") + [G.MID_ITALICS, G.MID_ITALICS] + G.text_words("two")
     + [G.pac(9, indent=8), G.pac(9, indent=8)] + G.text_words("three") + [G.pac(4, italics=True), G.pac(4, italics=True)]
     + G.text_words("four") + [G.EDM, G.EDM, G.EOC, G.EOC],
     [G.ENM, G.ENM, G.RCL, G.RCL, G.pac(14), G.pac(14)] + G.text_words("next") + [G.EDM, G.EDM, G.EOC, G.EOC]],
    # italics on at the very end of a caption, plain caption after it
    [[G.ENM, G.ENM, G.RCL, G.RCL, G.pac(15), G.pac(15)] + G.text_words("ab ") + [G.MID_ITALICS, G.MID_ITALICS] + G.text_words("cd")
     + [G.EDM, G.EDM, G.EOC, G.EOC],
     [G.RCL, G.RCL, G.pac(15), G.pac(15)] + G.text_words("ef") + [G.EDM, G.EDM, G.EOC, G.EOC]],
]


def reader_sets(ctx):
    rng = ctx.rng
    out = []
    esc = lambda t: t.replace("&", "&amp;").replace("<", "&lt;").replace(">", "&gt;")  # noqa: E731
    qesc = lambda t: esc(t).replace('"', "&quot;")  # noqa: E731
    for _ in range(ctx.n(12, 200)):
        t1, t2 = rand_vis_text(rng), rand_vis_text(rng)
        plain = lambda t: re.sub(r"-->|\|", "-", t)  # noqa: E731
        out.append(("srt", lambda a=t1, b=t2: SRTReader().read("1\n00:00:01,000 --> 00:00:02,000\n%s\n%s\n\n2\n00:00:03,000 --> "
                                                                 "00:00:04,000\n%s\n" % (plain(a), plain(b), plain(b)))))
        setting = rng.choice(["line:10% position:20%", "align:start size:40%", "line:0 align:end", "vertical:rl", ""])
        tagged = rng.choice(["<i>%s</i>", "<b>%s</b> <u>u</u>", "<c.yellow>%s</c>", "<v Bob>%s", "%s"])
        out.append(("webvtt", lambda a=t1, b=t2, st=setting, tg=tagged: WebVTTReader().read(
            "WEBVTT\n\n00:01.000 --> 00:02.000\n%s\n\n00:03.000 --> 00:04.000 %s\n%s\n\n00:05.000 --> 00:06.000 %s\n%s\n"
            % (plain(esc(a)), st, tg % plain(esc(b)), st, plain(esc(a))))))
        out.append(("microdvd", lambda a=t1, b=t2: MicroDVDReader().read("{0}{0}25.0\n{25}{50}%s|%s\n{75}{100}%s\n"
                                                                           % (plain(a).replace("{", "("), plain(b), plain(b)))))
        fam = rand_value(rng, 3, ws=False)
        nest = rng.choice(['<span style="color:#ff0000;font-family:%(f)s">%(b)s</span>',
                           '<i>%(b)s <span style="color:#00ff00"><b>in</b>ner</span></i> tail',
                           '<span style="font-size:12px"><span style="text-align:right">%(b)s</span></span>',
                           '<u>%(b)s</u>'])
        out.append(("sami", lambda a=t1, b=t2, f=fam, n=nest: SAMIReader().read(
            '<SAMI><HEAD><STYLE TYPE="text/css"><!-- P {font-family: Arial; color: #ffffff; margin-left: 5%%;} '
            '.ENCC {lang: en-US;} .FRCC {lang: fr;} .NARROW {margin-left: 10%%;} --></STYLE></HEAD><BODY><SYNC start=1000>'
            '<P class=ENCC>%s<br>%s<P class=FRCC>%s</SYNC><SYNC start=3000><P class=ENCC>&nbsp;</SYNC>'
            '<SYNC start=4000><P class=ENCC><span class=NARROW>%s</span></SYNC></BODY></SAMI>'
            % (esc(a), n % {"f": qesc(f).replace(";", ""), "b": esc(b)}, esc(b), esc(a)))))
        idn = rng.choice(NCNAMES + ["bottom", "r0"] if rng.random() < 0.15 else NCNAMES)
        id2 = rng.choice([x for x in NCNAMES if x != idn])
        body_p = rng.choice([
            '%(a)s<br/><span tts:fontFamily="%(f)s" tts:fontStyle="italic">%(b)s</span>',
            '<span tts:color="red">%(a)s <span tts:fontStyle="italic">nested <span style="%(i2)s">deep</span></span> out</span>',
            '<span region="r8" tts:textAlign="right">%(a)s</span><br/><span style="%(i)s">%(b)s</span>',
            '%(a)s<span tts:origin="5%% 5%%" tts:extent="20%% 10%%">%(b)s</span>'])
        out.append(("dfxp", lambda a=t1, b=t2, f=fam, i=idn, i2=id2, bp=body_p: DFXPReader().read(
            '<?xml version="1.0" encoding="utf-8"?><tt xmlns="http://www.w3.org/ns/ttml" xmlns:tts="http://www.w3.org/ns/ttml#styling" '
            'xml:lang="en"><head><styling><style xml:id="%s" tts:fontFamily="%s" tts:color="white"/>'
            '<style xml:id="%s" style="%s" tts:fontSize="12px"/></styling><layout>'
            '<region xml:id="r9" tts:origin="10%% 20%%" tts:extent="60%% 20%%"/>'
            '<region xml:id="r8" tts:origin="20px 30px" tts:extent="300px 40px" tts:displayAlign="after"/></layout></head>'
            '<body><div xml:lang="en-US"><p begin="00:00:01.000" end="00:00:02.000" style="%s" region="r9">%s</p>'
            '<p begin="00:00:03.000" end="00:00:04.000" region="r8">%s</p></div><div xml:lang="fr">'
            '<p begin="00:00:01.000" end="00:00:02.000">%s</p></div></body></tt>'
            % (i, qesc(f), i2, i, i, bp % {"a": esc(a), "b": esc(b), "f": qesc(f), "i": i, "i2": i2}, esc(b), esc(b)))))
    for fixed in SCC_FIXED:
        d = G.doc([(G.timecode(30 + 150 * k, False), ws) for k, ws in enumerate(fixed)] + [(G.timecode(30 + 150 * len(fixed), False), [G.EDM, G.EDM])])
        out.append(("scc-generated", lambda s=d: SCCReader().read(s)))
    for _ in range(ctx.n(60, 1200)):
        d = rand_scc_doc(rng)
        out.append(("scc-generated", lambda s=d: SCCReader().read(s)))
    basic = "abcdefghij klmnop"
    for _ in range(ctx.n(3, 30)):
        txt = "".join(rng.choice(basic) for _ in range(rng.randint(3, 25))).strip() or "x"
        scc = SCCWriter().write(CaptionSet({"en-US": CaptionList([Caption(5000000, 7000000, [CaptionNode.create_text(txt)]),
                                                                   Caption(9000000, 11000000, [CaptionNode.create_text(txt[::-1].strip() or "y")])])}))
        out.append(("scc", lambda s=scc: SCCReader().read(s)))
    # SCC with mid-row italics, an indented PAC on row 2 and a roll-up block
    out.append(("scc", lambda: SCCReader().read(
        "Scenarist_SCC V1.0\n\n00:00:01:00\t94ae 94ae 9420 9420 1352 1352 c8e5 ec ec80 91ae 91ae e9f4 e1ec 9120 9120 f2ef 6d80 "
        "942c 942c 942f 942f\n\n00:00:03:00\t942c 942c\n\n00:00:04:00\t9425 9425 94ad 94ad 9470 9470 f2ef ecec 2075 7080\n\n"
        "00:00:06:00\t942c 942c\n\n")))
    return out


def api_set(ctx):
    rng = ctx.rng
    pool = layout_pool(absolute=rng.random() < 0.3)
    d = {}
    styles = rand_styles(rng, NCNAMES + (WILD_NAMES if rng.random() < 0.35 else []), extra_region_like=0.03, allow_empty=False)
    names = list(styles) + ["missing"]
    for lang in rng.sample(LANGS, rng.choice([1, 1, 2, 3])):
        caps = []
        t, e = 0, 0
        for ci in range(rng.randint(1, 6)):
            nodes = [(n[0], dict(n[1], **{"class": rng.choice(names)})) if n[0] == "start" and rng.random() < 0.3 else n
                     for n in rand_nodes(rng)]
            lays = [rng.choice(pool)() if rng.random() < 0.2 else None for _ in nodes]
            st = None
            if rng.random() < 0.5:
                st = rand_style(rng, allow_empty=False)
                if styles and rng.random() < 0.6:
                    st["class"] = rng.choice(names)
            r = rng.random() if caps else 1.0
            if r < 0.25:
                pass                                    # concurrent: same start AND end as the previous caption
            elif r < 0.40:
                e = e + rng.choice([1000000, 2000000, -500000])     # equal start, different end (speaker label)
            elif r < 0.50:
                t = t + rng.choice([250000, 500000])    # equal end, later start
            else:
                t = max(t, e) + 2000000 if caps else 2000000
                e = t + rng.choice([1000000, 3000000])
            kw = {"layout_info": rng.choice(pool)()}
            if st is not None:
                kw["style"] = st
            caps.append(Caption(t, e, to_caption_nodes(nodes, lays), **kw))
        d[lang] = CaptionList(caps, layout_info=rng.choice(pool)())
    return CaptionSet(d, styles=styles, layout_info=rng.choice(pool)())


def judge_document(acc, cs, wname, kw, force, out, inp, rp, src=None, label=""):
    """strict parse + document clauses of ONE written document; appends a violation or counts it"""
    langs = cs.get_languages()
    if force and force in langs:
        written = [force]
    elif force and wname == "legacy":
        written = [langs[-1]]
    else:
        written = langs
    if wname == "main":
        ps = [[(c.start, c.end) for c in cs.get_captions(l)] for l in written]
    else:
        ps = [runs(cs.get_captions(l)) for l in written]
    root, bad = strict_parse(out, acc)
    if bad:
        bad["what"] = label + bad["what"]
        acc.res["violations"].append(dict(bad, input=inp, document=out[:4000], **rp))
        return False
    v = check_document(root, out, written, ps)
    if v and "info" in v:
        acc.count("D_" + v["info"])
        v = None
    if v:
        if wname == "legacy" and sum(len(x) for x in ps) == 0:
            v["shape"] = "legacy-writer-no-caption-written"
        v["what"] = label + v["what"]
        acc.res["violations"].append(dict(tag_collision(v), input=inp, document=out[:4000], **rp))
        return False
    return True


def stream_documents(ctx, acc, kdocs=None):
    rng = ctx.rng
    sources = [("api", lambda: api_set(ctx)) for _ in range(ctx.n(150, 3000))] + reader_sets(ctx)
    # fixed shapes for "one p per RUN": label 1-5 s next to a line 1-3 s; equal end, different start; runs of 1-4
    def shape(spans):
        return lambda: CaptionSet({"en-US": CaptionList([Caption(a, b, [CaptionNode.create_text("c%d" % i)])
                                                          for i, (a, b) in enumerate(spans)])})
    S = 1000000
    for spans in ([(1 * S, 5 * S), (1 * S, 3 * S)], [(1 * S, 3 * S), (1 * S, 5 * S), (6 * S, 7 * S)],
                  [(1 * S, 5 * S), (2 * S, 5 * S)], [(1 * S, 2 * S)] * 4 + [(1 * S, 3 * S)] + [(4 * S, 5 * S)] * 2,
                  [(1 * S, 2 * S), (1 * S, 2 * S), (1 * S, 2 * S), (3 * S, 4 * S), (3 * S, 5 * S), (3 * S, 5 * S)]):
        sources.append(("api-runs", shape(spans)))
    # the known shape: the legacy writer asked for a language without captions
    sources.append(("api-empty-language", lambda: CaptionSet({"fr": CaptionList([])})))
    # head references: dangling / forward / self / to an empty style, with a class name that needs escaping
    sources.append(("api-head-references", lambda: CaptionSet(
        {"en": CaptionList([Caption(S, 2 * S, [CaptionNode.create_text("t")], style={"class": "a&b"})])},
        styles={"a&b": {"class": "zz", "color": "white"}, "b": {"class": "c", "color": "red"}, "c": {"class": "c", "italics": True},
                "d": {"class": "e", "font-size": "1c"}, "e": {}})))
    # wave 7 (stream K): what prettify strips from a <p> string and how it sorts - Unicode white space at both ends of a
    # caption, captions made of white space only, style values / ids / language codes that sort around ':' '_' and capitals
    def edge_ws():
        ws = ["\u2003", "\xa0", "\u3000", "\x85", "\t", " ", "\u2028", "\u200a", "\u1680", "\u205f", "\u202f"]
        caps = []
        for i in range(8):
            a = "".join(rng.choice(ws) for _ in range(rng.randint(0, 3)))
            b = "".join(rng.choice(ws) for _ in range(rng.randint(0, 3)))
            body = rng.choice(["x", "a & b", "", "]]>", "<i>", "x" + rng.choice(ws) + "y"])
            nodes = [CaptionNode.create_text(a + body + b)]
            if rng.random() < 0.4:
                nodes = [CaptionNode.create_text(a), CaptionNode.create_style(True, {"italics": True}), CaptionNode.create_text(body),
                         CaptionNode.create_style(False, {"italics": True}), CaptionNode.create_text(b)]
            if rng.random() < 0.3:
                nodes.append(CaptionNode.create_break())
                nodes.append(CaptionNode.create_text(b))
            caps.append(Caption((i + 1) * S, (i + 2) * S, nodes, style={"class": rng.choice(["Z", "_a", "a:b", "z"])}))
        return CaptionSet({rng.choice(["en", "x'y\"z", "A", "_"]): CaptionList(caps)},
                          styles={"Z": {"color": "white", "font-family": "a'b"}, "_a": {"font-size": "1c", "text-align": "left"},
                                  "a:b": {"class": "Z", "italics": True}, "z": {"display-align": "after", "class": "_a"}})
    for _ in range(ctx.n(6, 60)):
        sources.append(("api-edge-white-space", edge_ws))
    for src, mk in sources:
        cs = impl.call(mk)
        if not isinstance(cs, Ok):
            acc.count("D_source_rejected_by_reader_" + src)
            continue
        cs = cs.v
        blob = pickled(cs)
        for wname in ("main", "single", "legacy"):
            kw = {}
            if wname != "legacy":
                kw["write_inline_positioning"] = rng.random() < 0.5
                if rng.random() < 0.4:
                    kw.update({"relativize": rng.random() < 0.5, "fit_to_screen": rng.random() < 0.5,
                               "video_width": rng.choice([640, 1920]), "video_height": rng.choice([360, 1080])})
            if wname == "single" and rng.random() < 0.3:
                kw["default_positioning"] = Layout(origin=Point(Size(5, UnitEnum.PERCENT), Size(80, UnitEnum.PERCENT)))
            langs = cs.get_languages()
            force = rng.choice([None, None, "", rng.choice(langs), "zz"])
            w = recording_writer(WRITERS[wname], **kw) if (wname == "main" and kdocs is not None) else WRITERS[wname](**kw)
            TreeSpy.last = None
            Recorder.seen = None
            out = impl.call(lambda: w.write(cs, force=force) if force is not None else w.write(cs))
            sk = TreeSpy.last
            seen = Recorder.seen
            acc.res["evaluations"] += 1
            inp = {"source": src, "writer": wname, "options": {k: repr(v) for k, v in kw.items()}, "force": force,
                   "set": gens.describe_capset(cs), "styles": repr(cs.get_styles())[:500]}
            rp = {"replay": "document", "pickle": blob, "writer": wname, "options_pickle": pickled(kw), "force": force}
            if not isinstance(out, Ok):
                if out.code == 5:
                    acc.count("D_relativization_refused")
                    continue
                if out.code == 103 and "Units must be relativized" in str(impl.last_exc):
                    # fit_to_screen without relativize on an absolute-unit layout: a refusal with its own message (geometry)
                    acc.count("D_fit_to_screen_refused_on_absolute_units")
                    continue
                acc.res["violations"].append(dict({"kind": "write-raises", "what": "%s writer raised %s" % (wname, impl.ERR_NAMES.get(out.code)),
                                                   "input": inp}, **rp))
                continue
            if src == "scc-generated" and wname == "main":
                nodes = [n for l in langs for c in cs.get_captions(l) for n in c.nodes]
                acc.count("D_scc_generated_captions", sum(len(cs.get_captions(l)) for l in langs))
                acc.count("D_scc_generated_style_nodes", sum(1 for n in nodes if n.type_ == CaptionNode.STYLE))
                acc.count("D_scc_generated_captions_with_several_layouts",
                          sum(1 for l in langs for c in cs.get_captions(l) if len({id(n.layout_info) for n in c.nodes}) > 1))
            if kdocs is not None:
                xdoc = None
                if wname == "main":
                    if force and force in langs and len(langs) > 1:
                        # the RegionCreator numbers the regions over ALL languages, the traversal model over the written ones
                        xdoc = ("forced_language_of_a_multi_language_set(region numbering sees the unwritten languages)",)
                    elif seen is None:
                        xdoc = ("set_seen_by_the_RegionCreator_not_recorded",)
                    else:
                        xdoc = ("ok", decorated_document(seen, kw.get("write_inline_positioning", False)))
                kdocs.append((inp, rp, out.v, sk, [[sid, content_pairs(st)] for sid, st in cs.get_styles()] if wname != "single" else None, xdoc))
            if judge_document(acc, cs, wname, kw, force, out.v, inp, rp):
                acc.res["nontrivial"].add(("D", src, wname, out.v))
                acc.count("D_ok_" + src)
                acc.count("D_styles_with_class_in_head", sum(1 for _, st in cs.get_styles() if "class" in st))
                acc.count("D_non_NCName_style_ids", sum(1 for sid, _ in cs.get_styles() if sid in WILD_NAMES))
                if wname != "main":
                    written = [force] if force and force in langs else ([langs[-1]] if force and wname == "legacy" else langs)
                    for l in written:
                        cl = cs.get_captions(l)
                        pairs = list(zip(cl, cl[1:]))
                        acc.count("D_adjacent_same_start_and_end", sum(1 for a, b in pairs if (a.start, a.end) == (b.start, b.end)))
                        acc.count("D_adjacent_same_start_different_end", sum(1 for a, b in pairs if a.start == b.start and a.end != b.end))
                        acc.count("D_adjacent_same_end_different_start", sum(1 for a, b in pairs if a.start != b.start and a.end == b.end))


VOCABS = [["p"], ["default"], ["s1"], [], ["p", "s1"], ["default", "k1"], ["a&b", "p"], ["1x"]]


def history_set(rng, vocab):
    """a caption set whose style ids are exactly `vocab` (with class chains); styled (known / unknown class) and
    unstyled captions"""
    pool = layout_pool()
    styles = {name: rand_style(rng, allow_empty=False) for name in vocab}
    for name in vocab:
        if rng.random() < 0.4:
            styles[name]["class"] = rng.choice(vocab + ["zz", "p"])
    d = {}
    for lang in rng.sample(LANGS, rng.choice([1, 1, 2])):
        caps = []
        for ci in range(rng.randint(1, 3)):
            nodes = [(n[0], dict(n[1], **{"class": rng.choice(vocab + ["p", "default", "zz"])})) if n[0] == "start" and rng.random() < 0.3 else n
                     for n in rand_nodes(rng)]
            lays = [rng.choice(pool)() if rng.random() < 0.25 else None for _ in nodes]
            kw = {"layout_info": rng.choice(pool)()}
            r = rng.random()
            if r < 0.35 and vocab:
                kw["style"] = {"class": rng.choice(vocab)}
            elif r < 0.5:
                kw["style"] = dict(rand_style(rng, allow_empty=False), **{"class": rng.choice(["p", "default", "s1", "zz"])})
            caps.append(Caption(ci * 2000000, ci * 2000000 + 1000000, to_caption_nodes(nodes, lays), **kw))
        d[lang] = CaptionList(caps, layout_info=rng.choice(pool)())
    return CaptionSet(d, styles=styles, layout_info=rng.choice(pool)())


def stream_histories(ctx, acc):
    """ONE writer object used for 2-4 write() calls on caption sets with different style-id vocabularies and layouts:
    every document of the history is judged on its own (a stale per-writer flag such as 'a p style exists' shows up
    as a style= reference that does not resolve)"""
    rng = ctx.rng
    fixed = [[["p"], ["s1"]], [["p"], []], [["default"], ["s1"], ["p"]], [["s1"], ["default"], [], ["p"]]]
    hists = fixed + [[rng.choice(VOCABS) for _ in range(rng.randint(2, 4))] for _ in range(ctx.n(40, 800))]
    for hist in hists:
        for wname in ("main", "single", "legacy"):
            kw = {}
            if wname != "legacy" and rng.random() < 0.5:
                kw["write_inline_positioning"] = True
            w = WRITERS[wname](**kw)
            sets = []
            for step, vocab in enumerate(hist):
                cs = history_set(rng, vocab)
                sets.append(pickled(cs))
                out = impl.call(lambda: w.write(cs))
                acc.res["evaluations"] += 1
                inp = {"history": hist, "step": step, "writer": wname, "options": kw, "set": gens.describe_capset(cs),
                       "styles": repr(cs.get_styles())[:400]}
                rp = {"replay": "history", "pickles": list(sets), "writer": wname, "options_pickle": pickled(kw)}
                if not isinstance(out, Ok):
                    acc.res["violations"].append(dict({"kind": "write-raises", "what": "%s writer raised at step %d of a history" % (wname, step),
                                                       "input": inp}, **rp))
                    break
                label = "step %d of a history %r on one %s writer object: " % (step, hist, wname)
                if judge_document(acc, cs, wname, kw, None, out.v, inp, rp, label=label):
                    acc.res["nontrivial"].add(("H", wname, out.v))
                    acc.count("H_documents_in_histories_ok")
                    acc.count("H_step_ge_1", int(step >= 1))


def run(ctx):
    acc = Acc()
    stream_values(ctx, acc)
    stream_payload(ctx, acc)
    stream_regions(ctx, acc)
    kdocs = []
    stream_documents(ctx, acc, kdocs)
    stream_skeleton(ctx, acc, kdocs)
    stream_declarations(ctx, acc)
    stream_histories(ctx, acc)
    res = acc.res
    res["streams"] = 6
    res["samples"] = [x[1] for x in list(res["nontrivial"]) if x[0] == "S"][:5]
    res["rule"] = ("S: attribute values containing one of & < > \" '; P: distinct (writer, node lists) whose payload is accepted by "
                   "both parsers with the model's events; R: distinct (ids, references) structures equal to the model up to "
                   "renaming; D / H: distinct documents that pass both strict parsers and every document-level clause; K: distinct documents "
                   "the Coq renderer reproduces byte for byte from the captured tree")
    res["clauses"] = {
        "theorem": ["every attribute value, serialized by the output formatter or by quoteattr, parses back to itself under the "
                    "strict attribute-value grammar (all strings of XML Chars)",
                    "escaped text parses back to itself and contains no ']]>'",
                    "COMPOSED: from caption nodes (texts, style dictionaries, region id, inline positioning attributes) to a payload "
                    "accepted by the strict content machine, for balanced style nodes, main and legacy writer",
                    "RegionCreator model: ids unique, every reference resolves, no unreferenced region survives cleanup",
                    "whole traversal of DFXPWriter (DfxpDoc.summarize) and of LegacyDFXPWriter (legacy_summarize): ok_refs = 0 on "
                    "their domains (ids and references only: _partial)",
                    "span / legacy attribute dictionaries have valid, pairwise distinct names",
                    "SinglePositioningDFXPWriter: set transformation modelled; one region; ok_refs = 0 on an input-level domain (_partial)",
                    "WHOLE DOCUMENT (wave 7): the rendered document string (DfxpSkel.dfxp_document: prolog, tt / head / styling / layout / "
                    "body / div / p, indentation, empty-element tags, sorted escaped attributes, stripped payloads) is accepted by the "
                    "specification's document machine (XML declaration, one root element, white space around it) for every tree with "
                    "valid attribute dictionaries and well-formed payloads; composed with the payload theorem from caption nodes; the "
                    "first event is the root tt with xmlns = TTML namespace and xml:lang = the given language code",
                    "the content machine is compositional (accepted content is accepted in any element context); attribute validity is "
                    "invariant under bs4's sorting"],
        "correspondence_only": ["that the tree handed to prettify carries exactly the attribute dictionaries / payloads of the models "
                                "(stream K renders the captured tree with the Coq renderer: equal to the output byte for byte)",
                                "namespace well-formedness of the whole document (Coq ns_ok executed on every output, agrees with expat; "
                                "not proved for all documents), div / p counts, begin / end (expat and lxml, strict, no recovery)",
                                "bs4 tree building (which attributes reach which tag)",
                                "the spec parsers themselves are validated against lxml (accept/reject and decoded events) on writer "
                                "outputs, on malformed literals and on malformed content",
                                "that cleanup_regions / get_positioning_info equal the model's filter / lookup (stream R)",
                                "SinglePositioningDFXPWriter's transformation of the set (the model sees the set the RegionCreator "
                                "sees); merge_concurrent_captions of the legacy writer (applied by the harness before abstraction)"]}
    res["trusted_extra"] = ["lxml.etree and expat via xml.etree.ElementTree (the two strict parsers)"]
    return res


def replay(ctx, rec):
    kind = rec.get("replay")
    if kind == "values":
        vals = rec["values"]
        caps = [Caption(i * 1000000, i * 1000000 + 500000,
                        [CaptionNode.create_style(True, {"font-family": v}), CaptionNode.create_text("t"),
                         CaptionNode.create_style(False, {})], style={"color": v}) for i, v in enumerate(vals)]
        out = impl.call(lambda: DFXPWriter().write(CaptionSet({"en": CaptionList(caps)})))
        if not isinstance(out, Ok):
            return True, repr(out)
        root, bad = strict_parse(out.v, Acc())
        return (True, bad["what"]) if bad else (False, "well-formed")
    if kind == "payload":
        inp = rec["input"]
        cs = CaptionSet({"en": CaptionList([Caption(i * 2000000, i * 2000000 + 1000000, to_caption_nodes([tuple(n) for n in nodes]))
                                             for i, nodes in enumerate(inp["captions"])])})
        out = impl.call(lambda: WRITERS[inp["writer"]]().write(cs))
        if not isinstance(out, Ok):
            return True, repr(out)
        root, bad = strict_parse(out.v, Acc())
        if bad:
            return True, bad["what"]
        got = [x.strip() for x in re.findall(r"<p [^>]*>(.*?)</p>", out.v, re.S)]
        evs = oracle_batch([(703, g) for g in got])
        rej = [g for g, e in zip(got, evs) if e == []]
        return (True, "the strict content parser rejects %r" % rej[0]) if rej else (False, "well-formed")
    if kind in ("document", "history"):
        unp = lambda b: pickle.loads(base64.b64decode(b))   # noqa: E731
        kw = unp(rec["options_pickle"])[0] if rec.get("options_pickle") else dict(rec.get("options") or {})
        w = WRITERS[rec["writer"]](**kw)
        acc = Acc()
        sets = [unp(b)[0] for b in (rec["pickles"] if kind == "history" else [rec["pickle"]])]
        force = rec.get("force")
        ok = True
        for cs in sets:
            out = impl.call(lambda: w.write(cs, force=force) if force is not None else w.write(cs))
            if not isinstance(out, Ok):
                return True, "write raised %r" % (out,)
            acc.res["violations"] = []
            ok = judge_document(acc, cs, rec["writer"], kw, force, out.v, {}, {})
        v = acc.res["violations"]
        return (not ok), (v[0]["what"] if v else "every document-level clause holds")[:600]
    return False, "no replay for this record kind"
