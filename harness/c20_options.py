"""C20 stream I (wave 7, last round): own output with NON-default writer options and multi-language sets.

  DFXPWriter / LegacyDFXPWriter / SinglePositioningDFXPWriter .write(set, force=X)  X = a language code the set does not
      have (e.g. 'en' for a set filed under 'en-US'), a language it has (first / later), ''
      (DFXPWriter / SinglePositioning: an unknown code writes all languages; LegacyDFXPWriter: it writes the last one)
  WebVTTWriter.write(set, lang=X)   X = None, the first language, a later language
  SAMIWriter / SRTWriter on 2-3 languages, one of which may have an empty caption list

Judged (what the statement fixes): detect_format(document) is the writer's reader, and that reader reads the document
(does not raise; CaptionReadNoCaptions is a raise).  Counted as information: whether the number of captions read equals
the number written (the statement does not fix it).  Sets whose WRITTEN languages have no caption are outside (no text
is written); SRT sets with an empty first language are the recorded finding C20-srt-empty-first-language (stream D
produces it) and are not generated here.  Texts are plain, visible and marker-free: this stream is about the options.
"""
import pycaption
from pycaption import (DFXPReader, WebVTTReader, SAMIReader, SRTReader, DFXPWriter, WebVTTWriter, SAMIWriter, SRTWriter,
                       CaptionSet, CaptionList, Caption, CaptionNode)
from pycaption.dfxp.extras import LegacyDFXPWriter, SinglePositioningDFXPWriter
import impl
from wire import Ok, Err

CODES = ["en-US", "fr", "de", "pt-BR", "und", "en"]
ABSENT = {"en-US": "en", "fr": "fr-FR", "de": "de-DE", "pt-BR": "pt", "und": "x", "en": "en-US"}


def bump(d, k, n=1):
    d[k] = d.get(k, 0) + n


def gen_set(rng, allow_empty_first):
    nl = rng.choice([1, 2, 2, 3])
    langs = rng.sample(CODES, nl)
    empty = rng.randrange(nl) if (nl > 1 and rng.random() < 0.45) else None
    if empty == 0 and not allow_empty_first:
        empty = 1
    d, t, k = {}, rng.randrange(0, 10 ** 7), 0
    for li, code in enumerate(langs):
        caps = []
        if li != empty:
            for _ in range(rng.randint(1, 4)):
                dur = rng.randrange(10 ** 6, 4 * 10 ** 6)
                nodes = [CaptionNode.create_text("line %d" % k)]
                if rng.random() < 0.3:
                    nodes += [CaptionNode.create_break(), CaptionNode.create_text("second %d" % k)]
                caps.append(Caption(t, t + dur, nodes))
                t += dur + rng.randrange(10 ** 5, 3 * 10 ** 6)
                k += 1
        d[code] = CaptionList(caps)
    return CaptionSet(d), langs


def options(rng, langs):
    """(label, writer factory, reader, reader format name, call, written languages)"""
    first, later = langs[0], langs[-1]
    absent = ABSENT[first] if ABSENT[first] not in langs else "zz"
    out = []
    for label, W in (("DFXP", DFXPWriter), ("LegacyDFXP", LegacyDFXPWriter), ("SinglePositioningDFXP", SinglePositioningDFXPWriter)):
        for what, force in (("absent", absent), ("first", first), ("later", later), ("empty_string", "")):
            written = [force] if force in langs else list(langs)
            if label == "LegacyDFXP" and force and force not in langs:
                written = [langs[-1]]        # LegacyDFXPWriter._force_language: an unknown code selects the LAST language
            out.append((label + ".force_" + what, W, DFXPReader, "DFXP", (lambda w, cs, f=force: w.write(cs, force=f)), written))
    for what, lang in (("none", None), ("first", first), ("later", later)):
        written = [first if lang is None else lang]
        out.append(("WebVTT.lang_" + what, WebVTTWriter, WebVTTReader, "WebVTT", (lambda w, cs, l=lang: w.write(cs, lang=l)), written))
    out.append(("SAMI.multi", SAMIWriter, SAMIReader, "SAMI", (lambda w, cs: w.write(cs)), list(langs)))
    out.append(("SRT.multi", SRTWriter, SRTReader, "SRT", (lambda w, cs: w.write(cs)), list(langs)))
    return out


def run_options(ctx, res):
    rng = ctx.rng
    dist = res["distribution"]
    for i in range(ctx.n(40, 1500)):
        cs, langs = gen_set(rng, allow_empty_first=True)
        sizes = {l: len(cs.get_captions(l)) for l in langs}
        for label, W, R, fmt, call, written in options(rng, langs):
            if label == "SRT.multi" and sizes[langs[0]] == 0:
                bump(dist, "I_srt_empty_first_language(recorded finding, produced by stream D; not generated here)")
                continue
            nwritten = sum(sizes[l] for l in written)
            if nwritten == 0:
                bump(dist, "I_out_of_domain_no_caption_in_the_written_languages(not judged)")
                continue
            out = impl.call(lambda: call(W(), cs))
            res["evaluations"] += 1
            if not isinstance(out, Ok):
                bump(dist, "I_writer_raised_" + label)
                continue
            doc = out.v
            bump(dist, "I_judged_" + label)
            if any(v == 0 for v in sizes.values()):
                bump(dist, "I_judged_with_an_empty_language")
            det = impl.call(lambda: pycaption.detect_format(doc))
            good = isinstance(det, Ok) and det.v is R
            rd = None
            if good:
                rd = impl.call(lambda: R().read(doc), timeout=60)
                good = isinstance(rd, Ok)
            res["nontrivial"].add(("I", label, hash(doc)))
            if good:
                nread = sum(len(rd.v.get_captions(l)) for l in rd.v.get_languages())
                if nread != nwritten and not (fmt == "SRT" and len(langs) > 1):
                    bump(dist, "I_captions_read_differ_from_captions_written(info)_" + label)
                continue
            dname = ("raise:%d" % det.code) if isinstance(det, Err) else (det.v.__name__ if det.v is not None else "None")
            res["violations"].append({
                "kind": "own-output-not-recognised:writer-option", "fmt": fmt, "shape": "writer-option:" + label,
                "det": dname, "read_err": rd.code if isinstance(rd, Err) else None,
                "first_language_empty": sizes[langs[0]] == 0,
                "what": "%s on languages %s (captions %s): detected as %s%s" % (
                    label, langs, [sizes[l] for l in langs], dname,
                    (", reader raised %s" % impl.ERR_NAMES.get(rd.code, rd.code)) if isinstance(rd, Err) else ""),
                "input": repr({l: [(c.start, c.end, c.get_text()) for c in cs.get_captions(l)] for l in langs}),
                "document": doc, "replay": "own", "stream": "I"})
