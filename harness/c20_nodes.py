"""C20 stream G (wave 7): the writer models that start from the TEXT NODES (coq/model/OwnWrite.v: SRT, MicroDVD, WebVTT)
are run against the real writers on the same caption sets (request 2003).

  * the model's document must equal the real writer's document (alarm level: this is what ties the node-level
    own-output theorems C20_own_nodes_{srt,mdvd,vtt} to the code);
  * where the caption set lies in the theorem's domain (extracted predicate srt_dom / mdvd_dom; WebVTT: every set),
    the theorem says detect_format = the writer's reader: the implementation must agree on its own document.

Sets outside the model's domain (float times, MicroDVD times outside [0, 2^50), WebVTT with layout / Caption.style /
style classes) are counted and skipped.
"""
import pycaption
import re
from pycaption import (MicroDVDReader, WebVTTReader, SRTReader, SCCReader, MicroDVDWriter, WebVTTWriter, SRTWriter,
                       SCCWriter, CaptionSet, CaptionList, Caption, CaptionNode)
import impl
from wire import Ok, oracle_batch, r_result, r_opt

FMT = {"MicroDVD": (1, MicroDVDWriter, MicroDVDReader, 1), "WebVTT": (2, WebVTTWriter, WebVTTReader, 2),
       "SRT": (4, SRTWriter, SRTReader, 4), "SCC": (5, SCCWriter, SCCReader, 5)}
TIMECODE = re.compile(r"\d\d:\d\d:\d\d[:;]\d\d")

# pieces that build other formats' markers inside one node, across nodes, and everything the writers treat specially
POOL = ["</t", "t>", "</tt>", "</TT>", "</T", "T>", "<", "/", "&", "-", "--", ">", "-->", "->", "WEBVTT", "WEB", "VTT",
        "<sami", "<SAM", "İ", "I", "{1}{2}", "{1}", "Scenarist_SCC V1.0", "\n", "\r", "\r\n", "\n\n", "|", "||", " ",
        "\t", " ", "\x85", "\xa0", "\x0b", "x", "hello", "", "1", "00:00:01,000 --> 00:00:02,000", "&nbsp;", "&amp;",
        "<i>", "</i>", "<b", "MULTI-LANGUAGE SRT", "K", "é", "中", "tt", "<tt", "&lt;/tt>", "sami", "<"]
CLEAN = ["hello", "x", " ", "", "1", "|", "\n", "\r\n", "\r", "--", ">", "&", "WEB", "VTT", "{1}{2}", "-->", "t>", "/t",
         "Scenarist_SCC V1.0", "é", "中", "\t", " ", "a b", "tt", "sam"]
STYLES = [{"italics": True}, {"bold": True}, {"underline": True}, {"italics": True, "bold": True, "underline": True},
          {"italics": False}, {}, {"bold": True, "italics": False}]


def bump(d, k, n=1):
    d[k] = d.get(k, 0) + n


def adv_text(rng, clean):
    pool = CLEAN if clean else POOL
    return "".join(rng.choice(pool) for _ in range(rng.choice([0, 1, 1, 2, 2, 3, 4])))


def adv_nodes(rng, clean):
    nodes = []
    for _ in range(rng.randint(1, 6)):
        r = rng.random()
        if r < 0.6:
            nodes.append(CaptionNode.create_text(adv_text(rng, clean)))
        elif r < 0.8:
            nodes.append(CaptionNode.create_break())
        else:
            nodes.append(CaptionNode.create_style(rng.random() < 0.5, dict(rng.choice(STYLES))))
    return nodes


def adv_set(rng, name):
    """1-3 languages (possibly empty ones), 0-5 captions, repeated spans (SRT merges them), times of both signs and
    beyond a day for SRT / WebVTT"""
    clean = rng.random() < 0.55
    nlangs = rng.choice([1, 1, 2, 3])
    d = {}
    for li in range(nlangs):
        caps = []
        n = rng.choice([0, 1, 1, 2, 3, 5]) if nlangs > 1 else rng.choice([1, 1, 2, 3, 5])
        t = rng.choice([0, 1, 39999, 40000, rng.randrange(0, 10 ** 7), rng.randrange(0, 4 * 3600 * 10 ** 6),
                        rng.randrange(0, 2 ** 45)])
        if name != "MicroDVD" and rng.random() < 0.15:
            t = -rng.randrange(1, 10 ** 8)
        span = None
        for _ in range(n):
            if span is None or rng.random() > 0.3:
                dur = rng.choice([0, 1, 999, 1000, 40000, 10 ** 6, rng.randrange(1, 10 ** 7), 86400 * 10 ** 6])
                span = (t, t + dur)
                t = t + dur + rng.choice([0, 1, 1000, rng.randrange(1, 10 ** 7)])
            caps.append(Caption(span[0], span[1], adv_nodes(rng, clean)))
        d["l%d" % li] = CaptionList(caps)
    return CaptionSet(d)


def encode(cs, name):
    """caption set -> wire value of request 2003, or (None, reason)"""
    langs = []
    for li, lang in enumerate(cs.get_languages()):
        caps = cs.get_captions(lang)
        if name == "WebVTT" and li == 0 and getattr(caps, "layout_info", None):
            return None, "layout"
        out = []
        for c in caps:
            if type(c.start) is not int or type(c.end) is not int:
                return None, "non_int_time"
            if name == "MicroDVD" and not (0 <= c.start < 2 ** 50 and 0 <= c.end < 2 ** 50):
                return None, "time_outside_frame_domain"
            if name == "WebVTT" and li == 0 and (c.layout_info or c.style):
                return None, "layout" if c.layout_info else "caption_style"
            nodes = []
            for n in c.nodes:
                if n.type_ == CaptionNode.TEXT:
                    if not isinstance(n.content, str):
                        return None, "non_str_text"
                    if name == "WebVTT" and li == 0 and n.layout_info:
                        return None, "layout"
                    if name == "SCC" and li == 0 and "\t" in n.content:
                        return None, "tab(str.expandtabs is outside model/SccWrap.v)"
                    nodes.append([0, n.content])
                elif n.type_ == CaptionNode.BREAK:
                    nodes.append([1])
                elif n.type_ == CaptionNode.STYLE:
                    st = n.content or {}
                    if name == "WebVTT" and li == 0 and ("class" in st or "classes" in st or n.layout_info):
                        return None, "style_class_or_layout"
                    nodes.append([2, bool(n.start), bool(st.get("italics")), bool(st.get("underline")), bool(st.get("bold"))])
                else:
                    return None, "unknown_node"
            out.append([c.start, c.end, nodes])
        langs.append(out)
    return langs, None


def run_nodes(ctx, res, extra_cases):
    """extra_cases: (format name, caption set) of stream D for the three formats; plus own adversarial sets"""
    dist = res["distribution"]
    rng = ctx.rng
    cases = [(n, cs) for n, cs in extra_cases if n in FMT]
    for i in range(ctx.n(490, 30000)):
        name = ("SRT", "MicroDVD", "WebVTT", "SRT", "MicroDVD", "WebVTT", "SCC")[i % 7]
        cases.append((name, adv_set(rng, name)))
    # fixed corpus (audit w7 witnesses): SCC beyond 32 rows (writer and model both raise), non-ASCII text, an empty first
    # language, the empty set; the MicroDVD frame bound of mdvd_dom
    def one(text, s=2 * 10 ** 6, e=4 * 10 ** 6):
        return Caption(s, e, [CaptionNode.create_text(text)])
    many = []
    for k in range(41):
        many += [CaptionNode.create_text("r%d" % k), CaptionNode.create_break()]
    cases += [("SCC", CaptionSet({"en-US": CaptionList([Caption(2 * 10 ** 6, 4 * 10 ** 6, many[:-1])])})),
              ("SCC", CaptionSet({"en-US": CaptionList([one("\u00e9\u4e2d \u266a </tt>")])})),
              ("SCC", CaptionSet({"en-US": CaptionList(), "fr": CaptionList([one("x")])})),
              ("SCC", CaptionSet({"en-US": CaptionList()})),
              ("MicroDVD", CaptionSet({"en-US": CaptionList([one("x", 2 ** 50 - 40000, 2 ** 50 - 1)])})),
              ("MicroDVD", CaptionSet({"en-US": CaptionList([one("x", 2 ** 49 + 39999, 2 ** 49 + 40000)])}))]
    reqs, items = [], []
    for name, cs in cases:
        w, why = encode(cs, name)
        if w is None:
            bump(dist, "G_outside_model_domain_%s_%s" % (name, why))
            continue
        out = impl.call(lambda: FMT[name][1]().write(cs))
        if not isinstance(out, Ok) and name != "SCC":
            bump(dist, "G_writer_raised_" + name)
            continue
        reqs.append((2003, [FMT[name][0], w]))
        items.append((name, cs, out.v if isinstance(out, Ok) else None))
    for (name, cs, doc), r in zip(items, oracle_batch(reqs)):
        res["evaluations"] += 1
        bump(dist, "G_writer_model_cases_" + name)
        if r == [-1]:
            res["disagreements"].append({"input": describe(cs), "stream": "G", "what": "request 2003 rejected the encoding"})
            continue
        if r == [-2] or doc is None:         # SCC: the writer (model) raises beyond 32 rows
            if r == [-2] and doc is None:
                bump(dist, "G_scc_writer_and_model_both_raise")
            else:       # the premise of C20_own_nodes_scc (the writer returns a document) differs between model and code
                res["disagreements"].append({"input": describe(cs), "stream": "G", "fmt": "SCC",
                                             "what": "SCC writer %s but its model %s" % (("raised" if doc is None else "returned a document"),
                                                                                        ("raised" if r == [-2] else "returned a document"))})
            continue
        if name == "SCC" and r[0] != doc and TIMECODE.sub("T", r[0]) == TIMECODE.sub("T", doc):
            # the model's pre-roll uses the exact 1001000/30 us per code word, the code its binary64 value: a timecode
            # may differ by one frame at a frame boundary (C17 owns that tolerance); nothing else may differ
            bump(dist, "G_scc_timecode_differs_by_float_rounding(info)")
            r = [doc, r[1], r[2]]
        mdoc, dom, mdet = r[0], r[1] == 1, r_result(r[2], lambda o: r_opt(o))
        if mdoc != doc:
            res["disagreements"].append({"input": describe(cs), "stream": "G", "fmt": name,
                                         "what": "%s writer model differs from the writer" % name,
                                         "impl": doc[:600], "model": mdoc[:600]})
            continue
        res["nontrivial"].add(("G", name, hash(doc)))
        det = impl.call(lambda: pycaption.detect_format(doc))
        own = isinstance(det, Ok) and det.v is FMT[name][2]
        if not dom:
            bump(dist, "G_outside_theorem_domain_" + name)
            if not own:
                bump(dist, "G_outside_theorem_domain_and_not_detected_as_own_" + name)
            continue
        bump(dist, "G_in_theorem_domain_" + name)
        body = doc[len("WEBVTT"):] if name == "WebVTT" else doc
        later = [m for m in ("WEBVTT", "{1}{2}", "Scenarist_SCC") if m in body]
        if name == "MicroDVD" and "-->" in doc:
            later.append("-->")
        if later or "<sami" in doc.lower():
            bump(dist, "G_in_theorem_domain_with_a_later_marker_in_the_document_" + name)
        model_own = isinstance(mdet, Ok) and mdet.v == FMT[name][3]
        if not model_own:        # would contradict the theorem: the extraction / wire is broken
            res["disagreements"].append({"input": describe(cs), "stream": "G", "fmt": name,
                                         "what": "model does not detect its own %s document inside the theorem's domain" % name})
        if not own:
            res["violations"].append({
                "kind": "own-output-not-recognised:theorem-instance", "fmt": name, "shape": "theorem-instance",
                "det": (det.v.__name__ if isinstance(det, Ok) and det.v is not None else repr(det)),
                "what": "%s writer output of a caption set in the domain of C20_own_nodes_* is not detected as %s" % (name, name),
                "input": describe(cs), "document": doc, "replay": "own-detect", "stream": "G"})


def describe(cs):
    out = {}
    for lang in cs.get_languages():
        out[lang] = [(c.start, c.end, [(n.type_, n.content if n.type_ != CaptionNode.BREAK else None,
                                        n.start if n.type_ == CaptionNode.STYLE else None) for n in c.nodes])
                     for c in cs.get_captions(lang)]
    s = repr(out)
    return s if len(s) < 3000 else s[:3000] + "..."


# ------------------------------------------------------------------------------------------------ stream H
def read_set(rng, name):
    """sets aimed at the read-back domain: visible texts, one language for SRT, MicroDVD cues outside frame 0; a share of
    them carries what the domain excludes (frame-0 cues, '|'-only texts, CR, several languages)"""
    pool = ["hello", "x y", "a|b", "|", " ", "1", "25", "{1}{2}", "-->", "é", "中", "\n", "a\nb", "WEBVTT", "Scenarist_SCC V1.0",
            "<sami", "&", "tt>", "</t"]
    bad = rng.random() < 0.25
    nlangs = 1 if (name == "SRT" and not bad) else rng.choice([1, 1, 2])
    d = {}
    t = rng.choice([40000, 80000, rng.randrange(40000, 10 ** 7)])
    if bad and name == "MicroDVD" and rng.random() < 0.5:
        t = 0
    for li in range(nlangs):
        caps = []
        for _ in range(rng.randint(1, 4)):
            dur = rng.choice([1, 1000, 30000, 40000, 10 ** 6, rng.randrange(1, 10 ** 7)])
            nodes = []
            for k in range(rng.randint(1, 3)):
                if k:
                    nodes.append(CaptionNode.create_break() if rng.random() < 0.7 else CaptionNode.create_style(True, {"italics": True}))
                txt = "".join(rng.choice(pool) for _ in range(rng.randint(1, 3)))
                if bad and rng.random() < 0.3:
                    txt = rng.choice(["|", " | ", "a\rb", "\r", " "])
                nodes.append(CaptionNode.create_text(txt))
            caps.append(Caption(t, t + dur, nodes))
            t = t + dur + rng.choice([0, 1000, rng.randrange(1, 10 ** 7)]) if rng.random() < 0.8 else t
        d["l%d" % li] = CaptionList(caps)
    return CaptionSet(d)


def real_read(name, doc):
    R = FMT[name][2]
    r = impl.call(lambda: R().read(doc))
    if not isinstance(r, Ok):
        return r
    cs = r.v
    langs = cs.get_languages()
    return Ok([(c.start, c.end, [n.content for n in c.nodes if n.type_ == CaptionNode.TEXT])
               for c in cs.get_captions(langs[0])] if langs else [])


DFXP_ATOMS = ["hello", "a & b", "<i>x</i>", "1 < 2 > 0", "x]]>y", "{1}{2}", "-->", "WEBVTT", "<sami", "</tt>", "</TT>",
              "Scenarist_SCC V1.0", "\u00e9\u4e2d", "&amp;", "w"]


def run_dfxp_nodes(ctx, res):
    """DFXP from the text nodes (request 2003 fmt 0 = model/OwnWriteDfxp.v over the time builders' DfxpWriteDoc.v): one
    language, captions of 1-3 text lines made of marker words, integer times below 24 h.  Model document == the real
    DFXPWriter's document, and the real document is detected as DFXP (C20_own_nodes_dfxp)."""
    from pycaption import DFXPWriter, DFXPReader
    rng = ctx.rng
    dist = res["distribution"]
    reqs, items = [], []
    for _ in range(ctx.n(60, 3000)):
        lang = rng.choice(["en-US", "fr", "pt-BR", "x"])
        caps, wire = [], []
        t = rng.randrange(0, 10 ** 7)
        for _ in range(rng.randint(1, 4)):
            dur = rng.randrange(1, 5 * 10 ** 6)
            lines = [" ".join(rng.choice(DFXP_ATOMS) for _ in range(rng.randint(1, 3))) for _ in range(rng.randint(1, 3))]
            nodes, wn = [], []
            for i, l in enumerate(lines):
                if i:
                    nodes.append(CaptionNode.create_break())
                    wn.append([1])
                nodes.append(CaptionNode.create_text(l))
                wn.append([0, l])
            caps.append(Caption(t, t + dur, nodes))
            wire.append([t, t + dur, wn])
            t += dur + rng.randrange(0, 3 * 10 ** 6)
        out = impl.call(lambda: DFXPWriter().write(CaptionSet({lang: CaptionList(caps)})))
        if not isinstance(out, Ok):
            bump(dist, "G_writer_raised_DFXP")
            continue
        reqs.append((2003, [0, lang, wire]))
        items.append((lang, wire, out.v))
    for (lang, wire, doc), r in zip(items, oracle_batch(reqs)):
        res["evaluations"] += 1
        bump(dist, "G_writer_model_cases_DFXP")
        if r == [-1] or r[0] != doc:
            res["disagreements"].append({"input": repr((lang, wire))[:2000], "stream": "G", "fmt": "DFXP",
                                         "what": "DFXP writer model (DfxpWriteDoc through OwnWriteDfxp) differs from the writer",
                                         "impl": doc[:600], "model": (r[0][:600] if r != [-1] else "rejected")})
            continue
        det = impl.call(lambda: pycaption.detect_format(doc))
        if not (isinstance(det, Ok) and det.v is DFXPReader):
            res["violations"].append({"kind": "own-output-not-recognised:theorem-instance", "fmt": "DFXP", "shape": "theorem-instance",
                                      "det": repr(det), "what": "DFXP writer output is not detected as DFXP",
                                      "input": repr((lang, wire))[:2000], "document": doc, "replay": "own-detect", "stream": "G"})
        else:
            bump(dist, "G_in_theorem_domain_DFXP")


def run_read(ctx, res, extra_cases):
    """'that reader reads the document' on the read-back domain of C20_own_read_mdvd (and the SRT domain, executed)"""
    dist = res["distribution"]
    rng = ctx.rng
    cases = [(n, cs) for n, cs in extra_cases if n in ("SRT", "MicroDVD")]
    for i in range(ctx.n(300, 12000)):
        name = ("MicroDVD", "SRT")[i % 2]
        cases.append((name, read_set(rng, name)))
    reqs, items = [], []
    for name, cs in cases:
        w, why = encode(cs, name)
        if w is None:
            bump(dist, "H_outside_model_domain_%s_%s" % (name, why))
            continue
        out = impl.call(lambda: FMT[name][1]().write(cs))
        if not isinstance(out, Ok):
            continue
        reqs.append((2004, [FMT[name][0], w]))
        items.append((name, cs, out.v))
    for (name, cs, doc), r in zip(items, oracle_batch(reqs)):
        res["evaluations"] += 1
        if r == [-1]:
            res["disagreements"].append({"input": describe(cs), "stream": "H", "what": "request 2004 rejected the encoding"})
            continue
        dom = r[0] == 1
        expected = [(c[0], c[1], list(c[2])) for c in r[1]]
        model = r_result(r[2], lambda l: [(c[0], c[1], list(c[2])) for c in l])
        rd = real_read(name, doc)
        if not dom:
            bump(dist, "H_outside_read_back_domain_" + name)
            if not (isinstance(rd, Ok) and rd.v == expected):
                bump(dist, "H_outside_read_back_domain_and_not_read_back_" + name)
            continue
        bump(dist, "H_in_read_back_domain_" + name)
        res["nontrivial"].add(("H", name, hash(doc)))
        if not (isinstance(model, Ok) and model.v == expected):
            # contradicts C20_own_read_mdvd / C20_own_read_srt: extraction / wire broken
            res["disagreements"].append({"input": describe(cs), "stream": "H", "fmt": name,
                                         "what": "reader model does not return the expected captions inside the theorem's domain"})
        if not (isinstance(rd, Ok) and rd.v == expected):
            res["violations"].append({
                "kind": "own-output-not-read-back:read-domain", "fmt": name, "shape": "read-domain",
                "what": "%s: the reader does not return one caption per written cue with the written instants "
                        "(expected %d captions, got %s)" % (name, len(expected), (len(rd.v) if isinstance(rd, Ok) else repr(rd))),
                "input": describe(cs), "document": doc, "expected": [[e[0], e[1], e[2]] for e in expected],
                "replay": "own-read", "stream": "H"})
