"""Shared generators: texts, caption sets built through the public API."""
import impl  # noqa: F401  (sets sys.path to the repo under test)
from pycaption import CaptionSet, CaptionList, Caption, CaptionNode

META_ATOMS = ["&", "<", ">", '"', "'", "-->", "--", "&amp;", "&lt;", "&gt;", "&#60;", "&#x3c;", "&nbsp", "&bogus;",
              "<br/>", "</p>", "<i>", "</i>", "</span>", "<span>", "<!--", "]]>", "<v Bob>", "<00:01.000>",
              "{1}{2}", "{", "}", "|", "\\", "/", ";", "#", "1", "42", "x", "a b", "  ", "\t", "é", "中",
              "\U0001F600", " ", "%", "=", "00:00:01,000 --> 00:00:02,000", "NOTE", "STYLE"]
WORDS = ["hello", "world", "caption", "text", "The", "quick", "brown", "fox", "it's", "R&D", "a<b", "x>y", "100%",
         "naïve", "¿qué?", "♪", "[music]", "-", "--", "1", "2024", "l’été"]

MARKERS = ["</tt>", "webvtt", "<sami"]


def rand_text(rng, adversarial=0.5, maxwords=6, allow_empty=False):
    n = rng.randint(0 if allow_empty else 1, maxwords)
    parts = []
    for _ in range(n):
        if rng.random() < adversarial:
            parts.append(rng.choice(META_ATOMS))
        else:
            parts.append(rng.choice(WORDS))
    sep = rng.choice([" ", " ", " ", ""])
    s = sep.join(parts)
    return s


def has_marker(s):
    l = s.lower()
    return any(m in l for m in MARKERS)


def visible(s):
    return any(not c.isspace() for c in s)


def build_caption(start, end, lines, layout=None, style=None):
    """lines: list of str (a text line), or ('style', True/False, dict) items interleaved by caller."""
    nodes = []
    first = True
    for ln in lines:
        if isinstance(ln, tuple):
            nodes.append(CaptionNode.create_style(ln[1], ln[2]))
            continue
        if not first:
            nodes.append(CaptionNode.create_break())
        first = False
        nodes.append(CaptionNode.create_text(ln))
    if style is None:
        return Caption(start, end, nodes, layout_info=layout)
    return Caption(start, end, nodes, style=style, layout_info=layout)


def rand_times(rng, n, lo=0, hi=3 * 3600 * 10**6, touching=0.3, unit=1):
    """n sorted non-overlapping (start, end) spans, integer microseconds (multiples of unit)."""
    spans = []
    t = rng.randrange(lo, max(lo + 1, hi // (n + 1)))
    for _ in range(n):
        t -= t % unit
        d = rng.choice([unit, 1000, 40000, 999999, 1000000, 2500000, rng.randrange(1, 10**7)])
        d -= d % unit
        d = max(d, unit)
        spans.append((t, t + d))
        gap = 0 if rng.random() < touching else rng.choice([unit, 1000, 40000, 123456, rng.randrange(1, 10**7)])
        t = t + d + gap
    return spans


def simple_capset(rng, nlangs=1, ncaps=(1, 4), text=None, lang_names=("en-US", "fr", "de", "es"), unit=1,
                  maxlines=3):
    text = text or (lambda: rand_text(rng))
    d = {}
    for li in range(nlangs):
        n = rng.randint(*ncaps)
        spans = rand_times(rng, n, unit=unit)
        caps = []
        for (s, e) in spans:
            lines = []
            for _ in range(rng.randint(1, maxlines)):
                t = text()
                while not visible(t):
                    t = text()
                lines.append(t)
            caps.append(build_caption(s, e, lines))
        d[lang_names[li]] = CaptionList(caps)
    return CaptionSet(d)


def describe_capset(cs):
    out = {}
    for lang in cs.get_languages():
        out[lang] = [(c.start, c.end, [(n.type_, n.content if n.type_ != 2 else (n.start, n.content))
                                       for n in c.nodes]) for c in cs.get_captions(lang)]
    return out
