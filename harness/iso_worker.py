"""Worker process for C09 / C10: executes operation HISTORIES on the real pycaption (public API) and reports, per
operation, what happened on the real heap.  One process per PYTHONHASHSEED.  stdin: JSON job, stdout: JSON result.

job = {"mode": "histories", "histories": [[op, ...], ...], "full": bool}
    | {"mode": "pristine", "reads": [{"fmt", "doc", "opts"}, ...]}      every read in a forked child of a process that
                                                                         has imported pycaption and done nothing else
op  = {"op": "build", "spec": {...}}                                   API-built caption set            -> new set
    | {"op": "read", "fmt", "doc", "opts", "r": reader object id}      first use of an id constructs     -> new set
    | {"op": "write", "kind", "wopts", "kw", "w": writer object id, "set": k}
    | {"op": "edit", "set": k, "edit": [...]}
Observation per op: see observe_* below.  Nothing here decides anything: the harness (props/C09.py, C10.py) compares
these observations with the model's predictions and evaluates the property oracle.
"""
import os
import sys
import json
import copy
import signal
import warnings

HERE = os.path.dirname(os.path.abspath(__file__))
sys.path.insert(0, HERE)
REPO = os.environ.get("VERIF_REPO", "/repo")
sys.path.insert(0, REPO)
warnings.filterwarnings("ignore")

# ---- deepcopy spy: installed BEFORE pycaption is imported, so `from copy import deepcopy` binds the spy too --------
_real_deepcopy = copy.deepcopy
SPY = {"on": False, "calls": []}


def _spy_deepcopy(x, memo=None, _nil=[]):
    if memo is None and SPY["on"]:
        y = _real_deepcopy(x)
        SPY["calls"].append((x, y))
        hook = SPY.get("hook")
        if hook:
            hook(x, y)
        return y
    return _real_deepcopy(x, memo) if memo is not None else _real_deepcopy(x)


copy.deepcopy = _spy_deepcopy

import pycaption  # noqa: E402
from pycaption import (  # noqa: E402
    CaptionSet, CaptionList, Caption, CaptionNode,
    SRTReader, SRTWriter, WebVTTReader, WebVTTWriter, DFXPReader, DFXPWriter, SAMIReader, SAMIWriter,
    MicroDVDReader, MicroDVDWriter, SCCReader, SCCWriter)
from pycaption.dfxp.extras import SinglePositioningDFXPWriter, LegacyDFXPWriter  # noqa: E402
from pycaption import exceptions as _ex  # noqa: E402
from pycaption.geometry import (  # noqa: E402
    Layout, Point, Size, Stretch, Padding, Alignment, UnitEnum, HorizontalAlignmentEnum, VerticalAlignmentEnum)
import iso_snap as S  # noqa: E402

assert os.path.realpath(os.path.dirname(os.path.dirname(pycaption.__file__))) == os.path.realpath(REPO), \
    (pycaption.__file__, REPO)

READERS = {"srt": SRTReader, "vtt": WebVTTReader, "mdvd": MicroDVDReader, "dfxp": DFXPReader, "sami": SAMIReader,
           "scc": SCCReader}
WRITERS = {"srt": SRTWriter, "vtt": WebVTTWriter, "mdvd": MicroDVDWriter, "dfxp": DFXPWriter, "sami": SAMIWriter,
           "scc": SCCWriter, "single": SinglePositioningDFXPWriter, "legacy": LegacyDFXPWriter}

ERR_CODES = [(_ex.CaptionReadNoCaptions, 1), (_ex.CaptionReadSyntaxError, 2), (_ex.CaptionReadTimingError, 3),
             (_ex.CaptionLineLengthError, 4), (_ex.RelativizationError, 5), (_ex.InvalidInputError, 6),
             (NotImplementedError, 7), (IndexError, 101), (KeyError, 102), (ValueError, 103),
             (AttributeError, 104), (TypeError, 105)]


class CallTimeout(Exception):
    pass


def _alarm(signum, frame):
    raise CallTimeout()


signal.signal(signal.SIGALRM, _alarm)


def err_code(e):
    for cls, code in ERR_CODES:
        if type(e) is cls:
            return code
    for cls, code in ERR_CODES:
        if isinstance(e, cls):
            return code
    if isinstance(e, CallTimeout):
        return 108
    return 109


from iso_build import make_layout, make_node, build_set  # noqa: E402


# ---- process-global mutable state (default-argument objects, class attributes, module constants) -------------------
def _stop(o):
    m = type(o).__module__ or ""
    return m.startswith(("bs4", "lxml", "cssutils", "soupsieve", "html", "re", "_sre")) or callable(o) \
        or type(o).__name__ == "module"


def global_roots():
    import types
    roots = []
    for name, mod in list(sys.modules.items()):
        if not (name == "pycaption" or name.startswith("pycaption.")) or mod is None:
            continue
        for k, v in list(vars(mod).items()):
            if isinstance(v, types.ModuleType):
                continue
            if isinstance(v, type):
                if (v.__module__ or "").startswith("pycaption"):
                    for ak, av in list(vars(v).items()):
                        f = getattr(av, "__func__", av)
                        if isinstance(f, types.FunctionType):
                            roots.append((f.__defaults__, "%s.%s.%s.__defaults__" % (name, k, ak)))
                            roots.append((f.__kwdefaults__, "%s.%s.%s.__kwdefaults__" % (name, k, ak)))
                        elif not callable(av) and not isinstance(av, (property, types.GetSetDescriptorType,
                                                                      types.MemberDescriptorType)):
                            roots.append((av, "%s.%s.%s" % (name, k, ak)))
                continue
            if isinstance(v, types.FunctionType):
                if (v.__module__ or "").startswith("pycaption"):
                    roots.append((v.__defaults__, "%s.%s.__defaults__" % (name, k)))
                    roots.append((v.__kwdefaults__, "%s.%s.__kwdefaults__" % (name, k)))
                continue
            if k.startswith("__"):
                continue
            roots.append((v, "%s.%s" % (name, k)))
    return roots


def global_mutables():
    seen = {}
    for v, p in global_roots():
        for i, (o, q) in S.mutables(v, stop=_stop).items():
            seen.setdefault(i, (o, p + q))
    return seen


CONTAINERS = (dict, list, set, CaptionSet, Caption, CaptionNode)


def share_report(a, b):
    """a, b: id -> (obj, path). Returns sorted list of [class, path in a, path in b] of shared mutable objects."""
    out = []
    for i in a:
        if i in b:
            out.append([S.cls_name(a[i][0]), a[i][1], b[i][1]])
    out.sort()
    return out


def classes_of(rep):
    return sorted(set(r[0] for r in rep))


# ---- history execution ----------------------------------------------------------------------------------------------
class World:
    def __init__(self, full):
        self.sets = []       # caption sets (None where the creating op raised)
        self.trees = []      # last known tree per set
        self.readers = {}
        self.writers = {}
        self.full = full

    def digests(self):
        cur = []
        for cs in self.sets:
            cur.append(None if cs is None else S.tree(cs))
        return cur


def guarded(f, timeout=20):
    signal.alarm(timeout)
    try:
        return f(), None
    except BaseException as e:  # noqa
        if isinstance(e, (KeyboardInterrupt, SystemExit)):
            raise
        return None, e
    finally:
        signal.alarm(0)


def scalars(o):
    out = {}
    for k, v in sorted(vars(o).items()):
        if isinstance(v, (bool, int, float, str, type(None))):
            out[k] = S.tree(v)
        else:
            out[k] = "<%s>" % type(v).__name__
    return out


def run_history(ops, full=False):
    w = World(full)
    obs = []
    for i, op in enumerate(ops):
        before = w.digests()
        o = {"i": i, "op": op["op"]}
        kind = op["op"]
        if kind in ("build", "read"):
            if kind == "build":
                res, exc = guarded(lambda: build_set(op["spec"]))
                rdr = None
            else:
                rid = op["r"]
                fresh = rid not in w.readers
                if fresh:
                    w.readers[rid] = READERS[op["fmt"]](**op.get("ropts", {}))
                rdr = w.readers[rid]
                o["reader_fresh"] = fresh
                if op.get("detect"):
                    o["detect"] = repr(guarded(lambda: rdr.detect(op["doc"]))[0])
                res, exc = guarded(lambda: rdr.read(op["doc"], **op.get("opts", {})))
            o["err"] = err_code(exc) if exc is not None else None
            if exc is not None:
                o["exc"] = repr(exc)[:200]
                o["exc_class"] = "%s.%s" % (type(exc).__module__, type(exc).__qualname__)
            w.sets.append(res)
            if res is not None:
                t = S.tree(res)
                o["tree"] = t
                o["digest"] = S.digest(t)
                mine = S.mutables(res)
                o["n_objects"] = len(mine)
                share = {}
                for k, other in enumerate(w.sets[:-1]):
                    if other is None:
                        continue
                    rep = share_report(mine, S.mutables(other))
                    if rep:
                        share[str(k)] = rep[:8] if full else classes_of(rep)
                o["share"] = share
                rep = share_report(mine, global_mutables())
                o["glob"] = rep[:8] if full else classes_of(rep)
                if rdr is not None:
                    rep = share_report(mine, S.mutables(rdr, stop=_stop))
                    o["rinst"] = rep[:8] if full else classes_of(rep)
        elif kind == "write":
            wid = op["w"]
            fresh = wid not in w.writers
            if fresh:
                w.writers[wid] = WRITERS[op["kind"]](**wopts_real(op.get("wopts", {})))
            wr = w.writers[wid]
            o["writer_fresh"] = fresh
            cs = w.sets[op["set"]]
            if cs is None:
                o["skipped"] = True
                obs.append(o)
                continue
            inp = S.mutables(cs)
            sh_before = {i_: S.shallow(ob) for i_, (ob, _) in inp.items()}
            copies = []
            tracked = set(inp)      # ids of input objects and of objects of copies (of copies) of them

            def hook(x, y, tracked=tracked, copies=copies):
                if id(x) in tracked:
                    ym = S.mutables(y)
                    tracked.update(ym)
                    copies.append((x, y, ym, {i_: S.shallow(ob) for i_, (ob, _) in ym.items()}))
            SPY["on"], SPY["calls"], SPY["hook"] = True, [], hook
            # ordered trace of every attribute assignment write() performs on CaptionSet / CaptionList / Caption /
            # CaptionNode objects of the INPUT or of (copies of) copies of it (objects the writer creates itself: "new",
            # not recorded)
            trace = []
            input_ids = frozenset(inp)
            hooked = []

            def rec(self_, name, value, tracked=tracked, trace=trace, input_ids=input_ids):
                i_ = id(self_)
                if i_ in input_ids:
                    trace.append([type(self_).__name__, name, "input"])
                elif i_ in tracked:
                    trace.append([type(self_).__name__, name, "copy"])
                object.__setattr__(self_, name, value)
            for cls_ in (pycaption.base.CaptionSet, pycaption.base.CaptionList, pycaption.base.Caption,
                         pycaption.base.CaptionNode):
                if "__setattr__" not in cls_.__dict__:
                    cls_.__setattr__ = rec
                    hooked.append(cls_)
            try:
                res, exc = guarded(lambda: wr.write(cs, **op.get("kw", {})))
            finally:
                SPY["on"] = False
                SPY["hook"] = None
                for cls_ in hooked:
                    del cls_.__setattr__
            o["store_trace"] = trace[:600]
            o["err"] = err_code(exc) if exc is not None else None
            if exc is not None:
                o["exc"] = repr(exc)[:200]
                o["exc_class"] = "%s.%s" % (type(exc).__module__, type(exc).__qualname__)
            if res is not None:
                import hashlib
                if not isinstance(res, str):
                    res = repr(res)
                o["out_sha"] = hashlib.sha1(res.encode("utf-8", "surrogatepass")).hexdigest()[:16]
                o["out_len"] = len(res)
                o["n_open"] = res.count("<span")
                o["n_close"] = res.count("</span>")
                o["n_blank"] = res.count("&nbsp;")
                if full:
                    o["out"] = res
            # input objects rebound / mutated in place (identity level)
            rebound = set()
            for i_, (ob, _) in inp.items():
                for slot in S.shallow_diff(sh_before[i_], S.shallow(ob)):
                    rebound.add((S.cls_name(ob), slot))
            o["rebound_in"] = sorted(rebound)
            # the writer's own copy: which slots did it rebind / mutate (identity level)
            o["n_copies"] = len(copies)
            o["copied_whole_set"] = [x is cs for (x, _, _, _) in copies]
            fp = set()
            for (x, y, ym, shb) in copies:
                for i_, (ob, _) in ym.items():
                    for slot in S.shallow_diff(shb[i_], S.shallow(ob)):
                        fp.add((S.cls_name(ob), slot if slot != "items" else "items"))
            o["copy_fp"] = sorted(fp)
            o["inst"] = scalars(wr)
            rep = share_report(inp, S.mutables(wr, stop=_stop))
            o["winst_alias"] = rep[:8] if full else classes_of(rep)
        elif kind == "edit":
            cs = w.sets[op["set"]]
            if cs is None:
                o["skipped"] = True
                obs.append(o)
                continue
            res, exc = guarded(lambda: do_edit(cs, op["edit"]))
            o["err"] = err_code(exc) if exc is not None else None
            if exc is not None:
                o["exc"] = repr(exc)[:200]
                o["exc_class"] = "%s.%s" % (type(exc).__module__, type(exc).__qualname__)
        else:
            raise ValueError(kind)
        after = w.digests()
        o["sets"] = [None if t is None else S.digest(t) for t in after]
        sigs = [None if cs_ is None else S.alias_signature(cs_) for cs_ in w.sets]
        o["alias"] = [None if g is None else (S.digest(g) if g else "") for g in sigs]
        changed = [k for k in range(len(before)) if before[k] != after[k]]
        o["changed"] = changed
        if full and changed:
            o["changed_trees"] = {str(k): [before[k], after[k]] for k in changed}
        if kind == "edit" and not o.get("skipped"):
            o["tree"] = after[op["set"]]
        obs.append(o)
    return obs


def wopts_real(wopts):
    kw = dict(wopts)
    dp = kw.pop("default_positioning", None)
    if dp is not None:
        kw["default_positioning"] = make_layout(dp)
    return kw


def poke(root, path):
    """follow a path produced by iso_snap.mutables (".attr", "[key]", "[i]") and change that object in place"""
    import re
    o = root
    for m in re.finditer(r"\.(\w+)|\[('(?:[^'\\\\]|\\\\.)*'|\d+)\]", path):
        if m.group(1) is not None:
            o = getattr(o, m.group(1))
        else:
            k = m.group(2)
            o = o[int(k)] if k.isdigit() else o[eval(k)]
    if isinstance(o, dict):
        o["__poke__"] = "x"
    elif isinstance(o, list):
        o.append(CaptionNode.create_text("poke"))
    elif isinstance(o, Caption):
        o.end = o.end + 1
    elif isinstance(o, CaptionNode):
        o.content = "poke"
    elif hasattr(o, "__dict__"):
        o.__dict__["poked"] = True


def do_edit(cs, e):
    k = e[0]
    if k == "add_style":
        cs.add_style(e[1], dict(e[2]))
        return
    if k == "poke":                # directed search: mutate, in place, the object at a path of the object graph
        poke(cs, e[1])
        return
    if k == "style_rule":          # mutate the rules dict of an existing selector in place
        cs.get_style(e[1])[e[2]] = e[3]
        return
    langs = cs.get_languages()
    lang = langs[e[1] % len(langs)]
    caps = cs.get_captions(lang)
    cap = caps[e[2] % len(caps)]
    if k == "cap_time":
        setattr(cap, e[3], e[4])
    elif k == "append_node":
        cap.nodes.append(CaptionNode.create_text(e[3]))
    elif k == "cap_style":
        cap.style[e[3]] = e[4]
    elif k == "cap_layout":
        cap.layout_info = make_layout(e[3])
    elif k == "node_content":
        n = cap.nodes[e[3] % len(cap.nodes)]
        if n.type_ == CaptionNode.TEXT:
            n.content = e[4]
        else:
            n.layout_info = make_layout("align")
    elif k == "node_dict":
        # in-place edit of a STYLE node's content dict: node.content[key] = value (no-op on other nodes)
        n = cap.nodes[e[3] % len(cap.nodes)]
        if isinstance(n.content, dict):
            n.content[e[4]] = e[5]
    elif k == "del_cap":
        del caps[e[2] % len(caps)]
    else:
        raise ValueError(k)


def in_child(fn):
    """run fn() in a forked child of this process (which has imported pycaption and done nothing else): every
    history / pristine read starts from the same process-global state, so a replay of one history is self-contained"""
    rfd, wfd = os.pipe()
    pid = os.fork()
    if pid == 0:
        try:
            os.close(rfd)
            try:
                rec = fn()
            except BaseException as e:  # noqa
                import traceback
                rec = {"worker_exception": traceback.format_exc()[-1500:]}
            with os.fdopen(wfd, "w") as f:
                json.dump(rec, f)
        finally:
            os._exit(0)
    os.close(wfd)
    with os.fdopen(rfd) as f:
        data = f.read()
    os.waitpid(pid, 0)
    return json.loads(data) if data else {"worker_exception": "child died"}


def pristine_read(r):
    rdr = READERS[r["fmt"]](**r.get("ropts", {}))
    res, exc = guarded(lambda: rdr.read(r["doc"], **r.get("opts", {})))
    if exc is not None:
        return {"err": err_code(exc), "exc": repr(exc)[:200],
                "exc_class": "%s.%s" % (type(exc).__module__, type(exc).__qualname__)}
    t = S.tree(res)
    # "tree" (what the model is given as the result of this read) carries the sharing markers; "digest" is the plain one
    return {"err": None, "tree": S.mark_span_sharing(t, res), "digest": S.digest(t)}


def main():
    job = json.load(sys.stdin)
    import gc
    gc.collect()
    gc.freeze()          # fewer copy-on-write page faults in the forked children
    if job["mode"] == "pristine":
        res = [in_child(lambda r=r: pristine_read(r)) for r in job["reads"]]
    else:
        res = [in_child(lambda h=h: run_history(h, job.get("full", False))) for h in job["histories"]]
    for r in res:
        if isinstance(r, dict) and "worker_exception" in r:
            sys.stderr.write(r["worker_exception"])
            sys.exit(3)
    json.dump({"hashseed": os.environ.get("PYTHONHASHSEED"), "repo": REPO, "results": res}, sys.stdout)


if __name__ == "__main__":
    main()
