"""C12 wave 7: the DFXP document AS WRITTEN, read by an observer independent of pycaption (lxml), next to the model's
document (coq/model/DfxpClean.v, request 1211: region table, region attributes on div / p / span, cleanup_regions).

Two comparisons:
  * per word: the attributes of the region the word sits in - own region attribute of the innermost element, else the
    nearest ancestor's (the statement's observable, taken from the document itself instead of DFXPReader's tree walk);
    a difference is a model/implementation disagreement;
  * the whole document up to a renaming of the created regions (region list after cleanup_regions, region attribute of
    every element, nesting): information only - where a redundant attribute is written and which unreferenced regions
    stay is not fixed by the statement.
"""
import re
from fractions import Fraction

from lxml import etree

NS = "{http://www.w3.org/ns/ttml}"
TTS = "{http://www.w3.org/ns/ttml#styling}"
XMLID = "{http://www.w3.org/XML/1998/namespace}id"
ATTRS = ("origin", "extent", "padding", "textAlign", "displayAlign")
HALIGN = ["left", "center", "right", "start", "end"]
VALIGN = ["before", "center", "after"]
SIZE_RE = re.compile(r"^(\d+(?:\.\d+)?)(px|em|%|c|pt)$")


def parse_written(doc, words):
    """-> (regions [(id, {attr: str})] in document order, divs [(region, [(region, items)])]) or None (not well-formed)
    items: ("w", word) | ("br",) | ("span", region, items)"""
    try:
        root = etree.fromstring(doc.encode("utf-8"))
    except etree.XMLSyntaxError:
        return None
    word_re = re.compile("|".join(re.escape(w) for w in sorted(words, key=len, reverse=True))) if words else None

    def toks(text):
        if not text or word_re is None:
            return []
        return [("w", m.group(0)) for m in word_re.finditer(text)]

    def items(el):
        out = toks(el.text)
        for ch in el:
            tag = etree.QName(ch).localname if isinstance(ch.tag, str) else None
            if tag == "br":
                out.append(("br",))
            elif tag == "span":
                out.append(("span", ch.get("region"), items(ch)))
            out.extend(toks(ch.tail))
        return out
    regions = []
    for r in root.iter(NS + "region"):
        att = {}
        for k in ATTRS:
            v = r.get(TTS + k)
            if v is not None:
                att[k] = v
        regions.append((r.get(XMLID), att))
    divs = []
    for div in root.iter(NS + "div"):
        divs.append((div.get("region"), [(p.get("region"), items(p)) for p in div.iter(NS + "p")]))
    return regions, divs


def model_doc(x, id_words):
    """decoded response of request 1211 -> same shape; region ids are ints (-1 = the default region)"""
    def rid(o):
        return None if o == [] else o[0]

    def item(it):
        if it[0] == 0:
            return ("w", id_words[it[1]])
        if it[0] == 1:
            return ("br",)
        return ("span", rid(it[1]), [item(y) for y in it[2]])
    doc, created = x
    regions = []
    for r, a in doc[0]:
        att = {}
        for k, v in zip(ATTRS[:3], a[:3]):
            if v != []:
                att[k] = v[0]
        if a[3] != []:
            att["textAlign"] = HALIGN[a[3][0]]
        if a[4] != []:
            att["displayAlign"] = VALIGN[a[4][0]]
        regions.append((r, att))
    divs = [(rid(d[0]), [(rid(p[0]), [item(y) for y in p[1]]) for p in d[1]]) for d in doc[1]]
    return regions, divs, created


def word_regions(regions, divs):
    """word -> attribute dict of the region it sits in (own attribute of the innermost element, else the nearest
    ancestor's); "dangling" when the id names no region of the document, None when no element around it has one"""
    table = {}
    for rid_, att in regions:
        table.setdefault(rid_, att)
    out = {}

    def walk(its, cur):
        for it in its:
            if it[0] == "w":
                out[it[1]] = None if cur is None else table.get(cur, "dangling")
            elif it[0] == "span":
                walk(it[2], it[1] if it[1] is not None else cur)
    for dr, ps in divs:
        for pr, its in ps:
            walk(its, pr if pr is not None else dr)
    return out


def same_attrs(a, b):
    """exact, or numerically within one hundredth (binary64 result printed on the other side of a rounding tie)
    -> "same" | "tie" | "diff" """
    if a == b:
        return "same"
    if not isinstance(a, dict) or not isinstance(b, dict) or set(a) != set(b):
        return "diff"
    tie = False
    for k in a:
        if a[k] == b[k]:
            continue
        if k in ("textAlign", "displayAlign"):
            return "diff"
        ta, tb = a[k].split(" "), b[k].split(" ")
        if len(ta) != len(tb):
            return "diff"
        for x, y in zip(ta, tb):
            mx, my = SIZE_RE.match(x), SIZE_RE.match(y)
            if not mx or not my or mx.group(2) != my.group(2):
                return "diff"
            if abs(Fraction(mx.group(1)) - Fraction(my.group(1))) > Fraction(1, 100):
                return "diff"
        tie = True
    return "tie" if tie else "same"


def rename(real, model, default_id):
    """created regions of the real document in document order <-> the model's in ascending id; None if the counts differ"""
    r_ids = [i for i, _ in real if i != default_id]
    m_ids = sorted(i for i, _ in model if i != -1)
    if len(r_ids) != len(m_ids) or len(set(r_ids)) != len(r_ids):
        return None
    ren = dict(zip(r_ids, m_ids))
    ren[default_id] = -1
    return ren


def same_document(real, model, default_id):
    """whole-document comparison up to the renaming -> "same" | "tie" | reason string"""
    (rr, rd), (mr, md) = real, model
    ren = rename(rr, mr, default_id)
    if ren is None:
        return "region-list"
    mt = dict(mr)
    worst = "same"
    if (default_id in dict(rr)) != (-1 in mt):
        return "region-list"
    for i, att in rr:
        s = same_attrs(att, mt[ren[i]])
        if s == "diff":
            return "region-attributes"
        if s == "tie":
            worst = "tie"

    def conv(its):
        out = []
        for it in its:
            if it[0] == "span":
                out.append(("span", ren.get(it[1], it[1]) if it[1] is not None else None, conv(it[2])))
            else:
                out.append(it)
        return out
    rbody = [(ren.get(dr, dr) if dr is not None else None, [(ren.get(pr, pr) if pr is not None else None, conv(its)) for pr, its in ps])
             for dr, ps in rd]
    if rbody != [(dr, [(pr, conv_id(its)) for pr, its in ps]) for dr, ps in md]:
        return "body"
    return worst


def conv_id(its):
    return [("span", it[1], conv_id(it[2])) if it[0] == "span" else it for it in its]
