"""Generator of abstract DFXP documents AS TEXT (coq/spec/SpecXmlDocT.v): element structure + every lexical choice
(white space in tags, quote characters, attribute order, character references).  The wire form is what
coq/extract/OrXmlDoc.v decodes (request 120); the text itself is rendered by the Coq renderer render_doc."""
import timegen as tg

WS = [" ", "\t", "\n", "\r\n", "  ", " \n ", "\n\t"]
TEXT_POOL = list("abcxyz ABC 019.,;:!?-'\"") + ["&", "<", ">", "\u00a0", "\u2003", "\n", "\t", "\u00e9", "\u4e2d",
                                                    "\U0001f600", "]", "=", "/"]
BLANK_POOL = [" ", "\n", "\t", "\u00a0", "\u2003", "\u3000", "\r"]
VAL_POOL = list("abc 12%#.;") + ["&", "<", ">", "'", '"', "é", "中", "=", "/"]
# attributes the DFXP reader looks at must keep benign values (styles / regions are C12 / C13's subject)
P_EXTRA = [("region", "r1"), ("style", "s1"), ("xml:id", "p%d"), ("tts:textAlign", "center"), ("role", None),
           ("data-x", None)]
DIV_EXTRA = [("region", "r1"), ("style", "s1"), ("xml:id", "d%d"), ("role", None)]
TT_EXTRA = [("xmlns", "http://www.w3.org/ns/ttml"), ("xmlns:tts", "http://www.w3.org/ns/ttml#styling"),
            ("xmlns:ttp", "http://www.w3.org/ns/ttml#parameter"), ("role", None)]
SPAN_EXTRA = [("tts:color", "red"), ("tts:fontStyle", "italic"), ("tts:fontFamily", "monospace"), ("role", None)]
LANGS = ["en-US", "es", "pt-BR", "fr", "de-AT"]
# names the spec excludes from generic elements (coq/spec/SpecXmlDocT.v special_names)
SPECIAL = {"div", "p", "tt", "br", "area", "base", "col", "embed", "hr", "img", "input", "keygen", "link", "menuitem", "meta",
           "param", "source", "track", "wbr", "basefont", "bgsound", "command", "frame", "image", "isindex", "nextid", "spacer",
           "script", "style", "title", "textarea", "template", "rt", "rp"}
HTMLISH = ["html", "table", "select", "svg", "noscript", "section", "b", "i", "font", "ul", "li", "a", "main", "ruby", "form",
           "center", "object", "math", "h1", "tbody", "tr", "td", "option", "span-x", "x:y"]


class G:
    def __init__(self, rng):
        self.rng = rng
        self.k = 0
        self.refs = 0
        self.single = 0
        self.swapped = 0
        self.blank_ref_only = 0
        self.ps = 0

    def ws(self, empty=0.5):
        r = self.rng
        if r.random() < empty:
            return ""
        return r.choice(WS)

    def ws1(self):
        r = self.rng
        return " " if r.random() < 0.6 else r.choice(WS)

    def afmt(self):
        r = self.rng
        dq = r.random() < 0.7
        if not dq:
            self.single += 1
        return [self.ws1(), self.ws(0.8), self.ws(0.8), 1 if dq else 0]

    def val(self):
        r = self.rng
        return "".join(r.choice(VAL_POOL) for _ in range(r.choice([0, 1, 3, 6])))

    def extra(self, pool, n):
        r = self.rng
        self.k += 1
        out = []
        for (nm, v) in r.sample(pool, min(n, len(pool))):
            if v is None:
                v = self.val()
            elif "%d" in v:
                v = v % self.k
            out.append([self.afmt(), nm, v])
        return out

    def split(self, l, parts):
        r = self.rng
        cuts = sorted(r.randint(0, len(l)) for _ in range(parts - 1))
        cuts = [0] + cuts + [len(l)]
        return [l[cuts[i]:cuts[i + 1]] for i in range(parts)]

    def tstr(self, visible, n=None):
        r = self.rng
        if n is None:
            n = r.choice([0, 1, 2, 5, 9])
        out = []
        for _ in range(n):
            c = r.choice(TEXT_POOL if visible else BLANK_POOL)
            ref = r.random() < 0.2 and not (128 <= ord(c) < 160)
            if ref:
                self.refs += 1
            out.append([ord(c), 1 if ref else 0])
        return out

    def rtag(self, pool, n):
        return [self.extra(pool, n), self.ws(0.7)]

    def content(self, visible):
        r = self.rng
        items = []
        for _ in range(r.choice([0, 0, 1, 2])):
            if r.random() < 0.5:
                el = [0, self.ws(0.6)]
            else:
                el = [1, self.rtag(SPAN_EXTRA, r.choice([0, 1, 2])), self.tstr(visible), self.ws(0.8)]
            items.append([self.tstr(visible), el])
        last = self.tstr(visible)
        if visible and not any(chr(c).strip() for it in items for (c, _) in it[0] + (it[1][2] if it[1][0] == 1 else [])) \
                and not any(chr(c).strip() for (c, _) in last):
            last = last + [[ord("w"), 1 if r.random() < 0.3 else 0]]
        if not visible and all(f == 1 for it in items for (_, f) in it[0]) and last and all(f == 1 for (_, f) in last):
            self.blank_ref_only += 1
        return [items, last]

    def p(self):
        r = self.rng
        self.ps += 1
        pre = self.ws(0.4)
        visible = r.random() < 0.75
        if visible or r.random() < 0.5:
            l1, l2, l3 = self.split(self.extra(P_EXTRA, r.choice([0, 0, 1, 2, 3])), 3)
            sw = r.random() < 0.4
            if sw:
                self.swapped += 1
            pa = [0, l1, l2, l3, 1 if sw else 0, self.afmt(), self.afmt(),
                  [tg.gen_texpr(r), r.random() < 0.3, tg.gen_texpr(r)]]
        else:
            pa = [1, self.extra(P_EXTRA, r.choice([0, 1, 2]))]
        return ["p", pre, pa, self.ws(0.7), self.content(visible), self.ws(0.8)]

    def lang_parts(self, pool, langs):
        r = self.rng
        l1, l2 = self.split(self.extra(pool, r.choice([0, 0, 1, 2])), 2)
        lang = r.choice(langs)
        return l1, ([] if lang is None else [[self.afmt(), lang]]), l2, lang

    def generic_name(self):
        """any name of the spec's generic_name class: HTML-ish names and random lower-case names"""
        r = self.rng
        while True:
            if r.random() < 0.6:
                n = r.choice(HTMLISH)
            else:
                n = "".join(r.choice("abcdefghijklmnopqrstuvwxyz") for _ in range(r.randint(1, 6)))
                if r.random() < 0.3:
                    n += r.choice(["1", "-a", "_b", ".c", ":d"])
            if n not in SPECIAL:
                self.generic = getattr(self, "generic", 0) + 1
                return n

    def wrap(self, node):
        """audit 7: a generic element of ANY admissible name around a <p> or a <div> (not TTML, but inside xdoc_ok)"""
        return ["elem", self.ws(0.5), self.generic_name(), self.rtag(DIV_EXTRA[3:], self.rng.choice([0, 0, 1])), [node], self.ws(0.8)]

    def div(self, depth):
        r = self.rng
        l1, lang, l2, _ = self.lang_parts(DIV_EXTRA, [None, None, None] + LANGS[:3])
        kids = []
        for _ in range(r.choice([0, 1, 2, 2, 3])):
            x = r.random()
            if depth < 2 and x < 0.2:
                kids.append(self.div(depth + 1))
            elif x < 0.27:
                # <metadata> / <set>: children of a <div> that hold no paragraph
                kids.append(["elem", self.ws(0.5), r.choice(["metadata", "set"]), self.rtag(DIV_EXTRA[3:], r.choice([0, 1])),
                             [], self.ws(0.8)])
            elif x < 0.35:
                kids.append(self.wrap(self.p()))
            else:
                kids.append(self.p())
        return ["div", self.ws(0.4), l1, lang, l2, self.ws(0.7), kids, self.ws(0.8)]

    def doc(self, n_top=None):
        r = self.rng
        body = []
        for _ in range(n_top if n_top is not None else r.choice([1, 2, 2, 3, 4])):
            body.append(self.p() if r.random() < 0.08 else (self.wrap(self.div(0)) if r.random() < 0.12 else self.div(0)))
        head = ["elem", self.ws(0.5), "head", [[], ""], [
            ["elem", "", "styling", [[], ""], [["empty", self.ws(0.6), "style", [[[[" ", "", "", 1], "xml:id", "s1"]], self.ws(0.7)]]], ""],
            ["elem", self.ws(0.6), "layout", [[], ""], [["empty", "", "region", [[[[" ", "", "", 1], "xml:id", "r1"]], ""]]], ""],
        ] if r.random() < 0.6 else [], ""]
        top = []
        if r.random() < 0.85:
            top.append(head)
        top.append(["elem", self.ws(0.5), "body", self.rtag(DIV_EXTRA[:2], r.choice([0, 0, 1])), body, self.ws(0.8)])
        l1, lang, l2, tl = self.lang_parts(TT_EXTRA, [None, None, "en", "fr", "de-AT"])
        pi = None
        if r.random() < 0.7:
            pi = r.choice(['xml version="1.0" encoding="utf-8"?', "xml version='1.0'?", "xml?"])
        return {"pi": pi, "pre": self.ws(0.5) if pi is not None else "", "l1": l1, "lang": lang, "l2": l2,
                "e": self.ws(0.7), "body": top, "cw": self.ws(0.8), "post": self.ws(0.4), "end_ws": self.ws(0.4)}


def forest(nodes, end_ws=""):
    """list of nodes -> first child / next sibling wire form"""
    out = [0, end_ws]
    for n in reversed(nodes):
        if n[0] == "p":
            out = [1, n[1], n[2], n[3], n[4], n[5], out]
        elif n[0] == "div":
            out = [2, n[1], n[2], n[3], n[4], n[5], forest(n[6]), n[7], out]
        elif n[0] == "elem":
            out = [3, n[1], n[2], n[3], forest(n[4]), n[5], out]
        else:
            out = [4, n[1], n[2], n[3], out]
    return out


def wire_doc(d):
    from wire import Some
    return [None if d["pi"] is None else Some(d["pi"]), d["pre"], d["l1"], d["lang"], d["l2"], d["e"],
            forest(d["body"], d["end_ws"]), d["cw"], d["post"]]


def gen(rng, n_top=None):
    g = G(rng)
    d = g.doc(n_top)
    return d, g
