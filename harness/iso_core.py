"""C09 / C10 driver: runs histories on the real code (worker processes, one per hash seed; pristine reads in forked
children), runs the same histories in the extracted store model (oracle request 900 / 1000), compares the two, and
evaluates the property oracle (901 / 1001, coq/spec/SpecIso.v) on what the implementation did.
"""
import os
import sys
import json
import hashlib
import subprocess

import impl  # noqa: F401
from wire import oracle_batch
import iso_snap as S
from iso_build import make_layout

HERE = os.path.dirname(os.path.abspath(__file__))
PY = "/venv/bin/python"
SEEDS = [0, 1, 2, 3, 17, 4242]

WKIND = {"srt": 1, "vtt": 2, "mdvd": 3, "dfxp": 4, "sami": 5, "scc": 6, "single": 7, "legacy": 8}
RKIND = {"srt": 1, "vtt": 2, "mdvd": 3, "dfxp": 4, "sami": 5, "scc": 6}
MODELLED_ERR = {"dfxp", "sami", "single", "legacy"}      # writers whose error exits the model predicts
SPAN_WRITERS = {"dfxp", "sami", "single", "legacy"}
COPY_MATTERS = {"dfxp", "sami", "single", "legacy"}      # writers that assign to their copy
FP_NAMES = {(4, 5): ("Caption", "layout_info"), (5, 4): ("CaptionNode", "layout_info"),
            (3, 1): ("CaptionList", "layout_info"), (2, 3): ("CaptionSet", "layout_info"), (0, 0): ("dict", "items")}
KIND_CLASS = {0: "dict", 1: "list", 2: "CaptionSet", 3: "CaptionList", 4: "Caption", 5: "CaptionNode", 6: "Layout",
              7: "PreCaption"}
GEOMETRY = {"Alignment", "Point", "Size", "Stretch", "Padding"}

CLAUSES = {1: "write-mutates-a-set", 2: "write-not-deterministic", 3: "read-mutates-earlier-set",
           4: "read-differs-from-pristine", 5: "edit-not-isolated", 6: "build-mutates-earlier-set"}


def _spawn(job, hashseed, repo):
    env = dict(os.environ)
    env["PYTHONHASHSEED"] = str(hashseed)
    env["VERIF_REPO"] = repo
    env["PYTHONPATH"] = repo
    env.pop("PYCAPTION_DEFAULT_LANG", None)
    p = subprocess.Popen([PY, os.path.join(HERE, "iso_worker.py")], stdin=subprocess.PIPE, stdout=subprocess.PIPE,
                         stderr=subprocess.PIPE, text=True, env=env)
    return p, json.dumps(job)


def run_jobs(jobs, repo, parallel=4):
    """jobs: list of (job dict, hashseed). Returns results in order. At most `parallel` processes at a time."""
    import threading
    results = [None] * len(jobs)
    sem = threading.Semaphore(parallel)

    def work(i, job, seed):
        with sem:
            p, data = _spawn(job, seed, repo)
            out, err = p.communicate(data)
            if p.returncode != 0:
                results[i] = RuntimeError("worker failed (seed %s): %s" % (seed, err[-1500:]))
            else:
                results[i] = json.loads(out)["results"]
    ts = [threading.Thread(target=work, args=(i, j, s)) for i, (j, s) in enumerate(jobs)]
    for t in ts:
        t.start()
    for t in ts:
        t.join()
    for r in results:
        if isinstance(r, Exception):
            raise r
    return results


def read_key(op):
    return json.dumps([op["fmt"], op["doc"], op.get("opts", {}), op.get("ropts", {})], sort_keys=True)


def collect_reads(histories):
    seen = {}
    for h in histories:
        for op in h:
            if op["op"] == "read":
                seen.setdefault(read_key(op), {"fmt": op["fmt"], "doc": op["doc"], "opts": op.get("opts", {}),
                                               "ropts": op.get("ropts", {})})
    return seen


def zdigest(x):
    return int(hashlib.sha1(x.encode("utf-8", "surrogatepass")).hexdigest()[:15], 16)


def hexz(h):
    return -1 if h is None else int(h[:15], 16)


# ---- model side -------------------------------------------------------------------------------------------------------
def norm(t):
    """wire-decoded tree -> the JSON shape of iso_snap.tree"""
    if isinstance(t, list):
        if t == []:
            return None
        if len(t) == 1:
            return [-1]
        return [t[0], [[norm(a), norm(b)] for a, b in t[1]]]
    return t


def mark_build(tree, spec):
    """real snapshot of an API-built set -> construction tree (KDefault where the argument was omitted)"""
    if tree is None:
        return None
    t = json.loads(json.dumps(tree))
    cells = dict((c[0], c) for c in t[1])
    if spec.get("styles") is None:
        cells[2][1] = [100, [[None, 1]]]
    langs = cells[1][1][1]
    built = []          # per Caption object built so far (iso_build.build_set order): was its style argument omitted?
    for lg_cell, lg_spec in zip(langs, spec["langs"]):
        caps = [c for c in lg_cell[1][1] if c[0] is None]
        for cap_cell, cap_spec in zip(caps, lg_spec["caps"]):
            if cap_spec.get("same_as") is not None and built:
                omitted = built[cap_spec["same_as"] % len(built)]
            else:
                omitted = cap_spec.get("style") is None
                if built and cap_spec.get("style_of") is not None:
                    omitted = built[cap_spec["style_of"] % len(built)]
                built.append(omitted)
            if omitted:
                for c in cap_cell[1][1]:
                    if c[0] == 4:
                        c[1] = [100, [[None, 0]]]
    return t


_LAY_CACHE = {}


def layout_tree(name):
    if name not in _LAY_CACHE:
        _LAY_CACHE[name] = S.tree(make_layout(name))
    return _LAY_CACHE[name]


def pos_code(wopts):
    from pycaption.dfxp.base import DFXP_DEFAULT_REGION
    name = wopts.get("default_positioning")
    lay = make_layout(name) if name else DFXP_DEFAULT_REGION
    return S.lay_code(lay)


def wire_wopts(kind, wopts, kw):
    rel = wopts.get("relativize", True)
    fit = wopts.get("fit_to_screen", True)
    dims = bool(wopts.get("video_width")) and bool(wopts.get("video_height"))
    if kind == "legacy":
        rel, fit, dims = False, False, False
    lang = kw.get("force") if kind in ("dfxp", "single", "legacy") else kw.get("lang")
    if kind == "legacy" and not lang:
        lang = None
    pos = [pos_code(wopts)] if kind == "single" else []
    inline = bool(wopts.get("write_inline_positioning")) and kind in ("dfxp", "single")
    return [bool(rel), bool(fit), dims, ("s:" + lang) if lang is not None else None, pos, inline]


def text_node_tree(text):
    return [5, [[1, 1], [2, "s:" + text], [3, None], [4, None], [5, None]]]


def node_is_text(tree_before, e):
    """resolve the node the worker's node_content edit hits, on the snapshot before the edit"""
    try:
        langs = dict((c[0], c[1]) for c in tree_before[1])[1][1]
        if not langs:
            return True
        cl = langs[e[1] % len(langs)][1]
        caps = [c[1] for c in cl[1] if c[0] is None]
        if not caps:
            return True
        cap = caps[e[2] % len(caps)]
        nodes = [c[1] for c in dict((c[0], c[1]) for c in cap[1])[3][1] if c[0] is None]
        if not nodes:
            return True
        n = nodes[e[3] % len(nodes)]
        return dict((c[0], c[1]) for c in n[1])[1] == 1
    except Exception:  # noqa
        return True


def wire_edit(e, tree_before):
    k = e[0]
    if k == "add_style":
        return [0, "s:" + e[1], S.tree(dict(e[2]))]
    if k == "style_rule":
        return [1, "s:" + e[1], "s:" + e[2], S.tree(e[3])]
    if k == "cap_time":
        return [2, e[1], e[2], 1 if e[3] == "start" else 2, S.tree(e[4])]
    if k == "append_node":
        return [3, e[1], e[2], text_node_tree(e[3])]
    if k == "cap_style":
        return [4, e[1], e[2], "s:" + e[3], S.tree(e[4])]
    if k == "cap_layout":
        return [5, e[1], e[2], layout_tree(e[3])]
    if k == "node_content":
        if node_is_text(tree_before, e):
            return [6, e[1], e[2], e[3], 2, "s:" + e[4]]
        return [6, e[1], e[2], e[3], 4, layout_tree("align")]
    if k == "del_cap":
        return [7, e[1], e[2]]
    if k == "node_dict":
        return [8, e[1], e[2], e[3], "s:" + e[4], S.tree(e[5])]
    if k == "poke":
        return [1, "s:__no_such_selector__", "s:x", "s:x"]       # unknown to the model: a no-op edit
    raise ValueError(k)


def model_ops(history, obs, pristine):
    """history + what the worker saw -> the model's op list (wire)"""
    ops = []
    trees = []          # last real tree per set (to resolve edits)
    for op, o in zip(history, obs):
        k = op["op"]
        if k == "build":
            t = o.get("tree")
            ops.append([0, mark_build(t, op["spec"]) if t is not None else None])
            trees.append(t)
        elif k == "read":
            pr = pristine[read_key(op)]
            ops.append([1, op["r"], RKIND[op["fmt"]], pr.get("tree")] if pr.get("tree") is not None else [0, None])
            trees.append(o.get("tree"))
        elif k == "write":
            if o.get("skipped"):
                ops.append([2, op["w"], WKIND[op["kind"]], wire_wopts(op["kind"], op.get("wopts", {}), op.get("kw", {})),
                            10 ** 6])
            else:
                ops.append([2, op["w"], WKIND[op["kind"]], wire_wopts(op["kind"], op.get("wopts", {}), op.get("kw", {})),
                            op["set"]])
        elif k == "edit":
            if o.get("skipped"):
                ops.append([3, 10 ** 6, [7, 0, 0]])
            else:
                ops.append([3, op["set"], wire_edit(op["edit"], trees[op["set"]])])
                trees[op["set"]] = o.get("tree")
    return ops


def run_model(batch, code=900, cfg=(True, True, True)):
    """batch: list of wire op lists -> per history list of (mobs dict, [trees])"""
    resp = oracle_batch([(code, [list(cfg), ops]) for ops in batch], chunk=200)
    out = []
    for r in resp:
        if r == [-1]:
            out.append(None)
            continue
        steps = []
        for m, trees in r:
            steps.append(({"err": m[0], "tokens": m[1], "open": bool(m[2]), "fp": [tuple(x) for x in m[3]],
                           "copies": m[4], "changed_below": m[5], "share": {str(a): b for a, b in m[6]},
                           "glob": m[7], "rinst": bool(m[8])}, [norm(t) for t in trees]))
        out.append(steps)
    return out


def classes_norm(cl):
    return sorted(set("Layout" if c in GEOMETRY else c for c in cl))


def token_domain(tree, kind="dfxp"):
    """span counts / open_span are compared only when
       no STYLE node of the set carries a class / classes key (DFXP looks those up in the document's style table,
       which the model does not reproduce)"""
    s = json.dumps(tree)
    if '"s:class"' in s or '"s:classes"' in s:
        return False
    return True


def extreme_times(tree):
    """the set has a caption time no writer can print (inf, nan, beyond timedelta): every writer raises on it; which
    exception class is not modelled"""
    if tree is None:
        return False
    t = json.dumps(tree)
    return '"f:inf"' in t or '"f:nan"' in t or '000000000000000000000' in t


def compare(history, obs, steps, pristine, prop="C10"):
    """model prediction vs observation on the real heap, op by op -> list of disagreement dicts"""
    out = []
    if steps is None:
        return [{"i": -1, "what": "model rejected the history encoding", "detail": None}]
    trees = []
    desynced = set()      # sets whose REAL object graph is a DAG and that were edited in place: the model builds trees,
                          # so its snapshot of such a set is no longer comparable (counted); the property oracle, which
                          # works on the real snapshots, is not affected
    for i, (op, o, (m, mtrees)) in enumerate(zip(history, obs, steps)):
        k = op["op"]
        if k in ("build", "read"):
            trees.append(o.get("tree"))
        if o.get("skipped"):
            continue
        if k == "edit":
            trees[op["set"]] = o.get("tree")

        def dis(what, detail=None, **kw):
            # detail = None : the observation is the PROPERTY seen at a finer grain (input assigned, sets sharing
            #                 objects, snapshots) - a mismatch breaks the tie
            # detail = tag  : incidental detail of the effect summary (what the writer does INSIDE its own private
            #                 copy, which exception it raises, how it renders spans, what a reader object keeps) - a
            #                 mismatch is counted in the evidence under that tag and does not break the tie
            d = {"i": i, "op": k, "what": what, "detail": detail}
            d.update(kw)
            out.append(d)
        # the whole observable heap after the op
        real_digests = o["sets"]
        if len(mtrees) != len(real_digests):
            dis("number of sets", model=len(mtrees), impl=len(real_digests))
        else:
            for j, (mt, rd) in enumerate(zip(mtrees, real_digests)):
                if j in desynced:
                    dis("set %d is a DAG edited in place: tree-shaped model not compared" % j, detail="model-tree-vs-dag")
                    continue
                md = None if mt is None else S.digest(mt)
                if md != rd:
                    prev = obs[i - 1].get("alias") if i > 0 else None
                    if k == "edit" and j == op["set"] and prev and j < len(prev) and prev[j]:
                        # the edit went through an object that the real set reaches by two paths (e.g. the dict shared
                        # by a span's start and end node); the model's tree has two objects there
                        desynced.add(j)
                        dis("set %d is a DAG edited in place: tree-shaped model not compared" % j, detail="model-tree-vs-dag")
                        continue
                    dis("snapshot of set %d after the op" % j, set=j)
                    break
        if k in ("build", "read"):
            if o.get("tree") is None:
                continue
            if prop != "C10":
                continue          # aliasing between caption sets / with process state is C10's clause, not C09's
            m = dict(m)
            m["share"] = {j: [x for x in ks if x != 6] for j, ks in m["share"].items()}     # geometry values: not mutable
            m["share"] = {j: ks for j, ks in m["share"].items() if ks}
            m["glob"] = [x for x in m["glob"] if x != 6]
            if sorted(m["share"]) != sorted(o["share"]):
                dis("which older sets share mutable objects with the new one", model=m["share"], impl=o["share"])
            else:
                for j in m["share"]:
                    mc = classes_norm(KIND_CLASS.get(x, str(x)) for x in m["share"][j])
                    rc = classes_norm(o["share"][j])
                    if mc != rc:
                        dis("classes of the objects shared with set %s" % j, detail="shared-classes", model=mc, impl=rc)
            mg = classes_norm(KIND_CLASS.get(x, str(x)) for x in m["glob"])
            if mg != classes_norm(o["glob"]):
                dis("objects shared with process-global state (default arguments, module constants)",
                    model=mg, impl=classes_norm(o["glob"]))
            if k == "read" and m["rinst"] != bool(o["rinst"]):
                dis("whether the reader object keeps a reference into the returned set", detail="reader-keeps-reference", model=m["rinst"],
                    impl=o["rinst"])
        elif k == "write":
            kind = op["kind"]
            if o["rebound_in"]:
                dis("the writer rebound slots of its INPUT (identity level; the snapshots decide whether anything changed)",
                    detail="input-slot-rebound", impl=o["rebound_in"])
            if m["changed_below"]:
                dis("model: a write changed a pre-existing location", model=m["changed_below"])
            real_err = o["err"] or 0
            tree_w = trees[op["set"]] if op["set"] < len(trees) else None
            if kind in MODELLED_ERR and m["err"] != real_err and not extreme_times(tree_w):
                dis("error exit", detail="error-exit", model=m["err"], impl=real_err, exc=o.get("exc"))
            if kind in COPY_MATTERS:
                if m["copies"] != o["n_copies"]:
                    dis("number of deepcopy calls on (copies of) the input", detail="copy-count", model=m["copies"], impl=o["n_copies"])
                mfp = sorted(set(FP_NAMES[x] for x in m["fp"] if x[0] < 1000))
                rfp = sorted(set(tuple(x) for x in o["copy_fp"]))
                # a write that raised for a reason outside the model (a caption time no writer can print) stops half
                # way through its assignments: footprints are compared when both exits agree
                if o["n_copies"] and mfp != rfp and (m["err"] == real_err or not extreme_times(tree_w)):
                    dis("slots assigned on the writer's own copy (footprint)", detail="own-copy-footprint", model=mfp, impl=rfp)
            elif o["copy_fp"]:
                dis("slots assigned on the writer's own copy (footprint)", detail="own-copy-footprint", model=[], impl=o["copy_fp"])
            if o["winst_alias"]:
                cont = [c for c in o["winst_alias"] if c not in GEOMETRY and c != "Layout"]
                if cont:
                    dis("the writer object keeps references to container objects of its input",
                        detail="writer-keeps-reference", impl=cont)
            if kind in SPAN_WRITERS and real_err == 0 and m["err"] == 0:
                tree_in = trees[op["set"]]
                if tree_in is not None and token_domain(tree_in, kind):
                    n1, n2 = m["tokens"].count(1), m["tokens"].count(2)
                    if (n1, n2) != (o["n_open"], o["n_close"]):
                        dis("span tags in the output (<span, </span>)", detail="span-tags", model=[n1, n2], impl=[o["n_open"], o["n_close"]])
            if kind in SPAN_WRITERS and m["err"] == real_err:
                tree_in = trees[op["set"]]
                if tree_in is not None and token_domain(tree_in):
                    ro = o["inst"].get("open_span")
                    if ro is not None and ro != ("b:%s" % m["open"]):
                        dis("open_span after the call", detail="open-span-after", model=m["open"], impl=ro)
    return out


# ---- property oracle ---------------------------------------------------------------------------------------------------
def oracle_records(history, obs, pristine, fold_alias=False):
    """fold_alias: the digest of a set also covers its internal sharing structure (C09: 'the same set' for the
    determinism clause is the same graph up to identity, not merely the same tree)"""
    recs = []
    idx = []            # history index of each record
    nset = 0
    for i, (op, o) in enumerate(zip(history, obs)):
        k = op["op"]
        if k in ("build", "read"):
            this = nset
            nset += 1
        if o.get("skipped"):
            continue
        digs = [hexz(d) for d in o["sets"]]
        if fold_alias and o.get("alias"):
            digs = [d if not a else zdigest("%s/%s" % (d, a)) for d, a in zip(digs, o["alias"])]
        if k == "build":
            recs.append([0, this, 0, 0, 0, digs])
        elif k == "read":
            pr = pristine.get(read_key(op), {"err": 199})
            recs.append([1, this, zdigest(read_key(op)), 0, hexz(pr.get("digest")) if pr.get("err") is None else -1, digs])
        elif k == "write":
            key = zdigest(json.dumps([op["kind"], op.get("wopts", {}), op.get("kw", {})], sort_keys=True))
            out = hexz(o["out_sha"]) if o.get("out_sha") else zdigest("ERR:%s" % (o.get("exc_class") or o["err"]))
            recs.append([2, op["set"], key, out, 0, digs])
        else:
            recs.append([3, op["set"], 0, 0, 0, digs])
        idx.append(i)
    return recs, idx


def concat_records(rec_a, rec_b):
    """oracle records of history B as if it continued history A (they ran in two separate pristine processes):
    B's sets are numbered after A's, A's sets stay as they were"""
    tail = rec_a[-1][5] if rec_a else []
    n = len(tail)
    out = [list(r) for r in rec_a]
    for r in rec_b:
        out.append([r[0], r[1] + n, r[2], r[3], r[4], list(tail) + list(r[5])])
    return out


def evaluate_pairs(pairs, code, fold_alias=True):
    """pairs: [(history A, obs A, history B, obs B)] -> per pair the oracle verdict on A ; B (indices >= len(A records)
    refer to B)"""
    reqs, lens, idxs = [], [], []
    for (ha, oa, hb, ob) in pairs:
        ra, ia = oracle_records(ha, oa, {}, fold_alias)
        rb, ib = oracle_records(hb, ob, {}, fold_alias)
        reqs.append((code, concat_records(ra, rb)))
        lens.append(len(ra))
        idxs.append(ib)
    resp = oracle_batch(reqs, chunk=500) if reqs else []
    out = []
    for r, n, ib in zip(resp, lens, idxs):
        out.append([(ib[a - n], c) for a, c in r if a >= n])
    return out


def evaluate(histories, results, pristine, code, fold_alias=False):
    """property oracle (Coq) on every history -> per history list of (history op index, clause)"""
    reqs = []
    idxs = []
    for h, obs in zip(histories, results):
        recs, idx = oracle_records(h, obs, pristine, fold_alias)
        reqs.append((code, recs))
        idxs.append(idx)
    resp = oracle_batch(reqs, chunk=500)
    out = []
    for r, idx, h, obs in zip(resp, idxs, histories, results):
        if r == [-1]:
            raise RuntimeError("oracle rejected an observation record")
        v = [(idx[a], b) for a, b in r]
        # a read that raises must raise the same exception class in the pristine process (and vice versa)
        for i, (op, o) in enumerate(zip(h, obs)):
            if op["op"] == "read" and not o.get("skipped"):
                pr = pristine.get(read_key(op), {})
                if (o.get("exc_class") or None) != (pr.get("exc_class") or None) and (i, 4) not in v:
                    v.append((i, 4))
        out.append(v)
    return out


def run_pristine(histories, repo):
    reads = collect_reads(histories)
    keys = list(reads)
    if not keys:
        return {}
    res = run_jobs([({"mode": "pristine", "reads": [reads[k] for k in keys]}, 0)], repo)[0]
    return dict(zip(keys, res))


def cross_seed_diffs(histories, base, other, seed, want=("write", "read", "build", "edit")):
    """compare two runs of the same histories under different hash seeds.
    want == ("write",)  (C09): a write whose input sets have the same snapshots in both processes must return the same
                               bytes / raise the same exception class
    otherwise           (C10): the snapshots of all sets after every op must be the same"""
    out = []
    c09 = tuple(want) == ("write",)
    for hi, (h, a, b) in enumerate(zip(histories, base, other)):
        for i, (op, x, y) in enumerate(zip(h, a, b)):
            if op["op"] not in want:
                continue
            if c09:
                if x.get("sets") != y.get("sets"):
                    break          # the inputs already differ between the processes: a matter of reading (C10)
                if x.get("exc_class") != y.get("exc_class") or x.get("out_sha") != y.get("out_sha"):
                    out.append({"history": hi, "i": i, "op": op["op"], "seed": seed,
                                "what": "out" if x.get("out_sha") != y.get("out_sha") else "err"})
                    break
            elif x.get("sets") != y.get("sets") or (op["op"] in ("read", "build") and x.get("exc_class") != y.get("exc_class")):
                out.append({"history": hi, "i": i, "op": op["op"], "seed": seed, "what": "sets"})
                break
    return out


# ---- the whole check for one batch of histories (shared by props/C09.py and props/C10.py) ----------------------------
def chunks(l, n):
    k = max(1, (len(l) + n - 1) // n)
    return [l[i:i + k] for i in range(0, len(l), k)]


def run_all(histories, repo, seed_plan, parallel=4):
    """seed_plan: {hashseed: list of history indices}; seed 0 must cover everything.
    Returns (pristine, {seed: {history index: obs}})"""
    jobs = []
    meta = []
    for seed, idxs in seed_plan.items():
        parts = chunks(idxs, 3 if seed == 0 else 1)
        for part in parts:
            jobs.append(({"mode": "histories", "histories": [histories[i] for i in part]}, seed))
            meta.append((seed, part))
    reads = collect_reads(histories)
    keys = list(reads)
    if keys:
        jobs.append(({"mode": "pristine", "reads": [reads[k] for k in keys]}, 0))
        meta.append(("pristine", None))
    res = run_jobs(jobs, repo, parallel)
    by_seed = {}
    pristine = {}
    for (seed, part), r in zip(meta, res):
        if seed == "pristine":
            pristine = dict(zip(keys, r))
        else:
            d = by_seed.setdefault(seed, {})
            for i, o in zip(part, r):
                d[i] = o
    return pristine, by_seed


def check_batch(histories, repo, seed_plan, prop, want_ops):
    """prop: "C09" | "C10".  Returns dict(violations=[(hi, i, clause, extra)], disagreements=[(hi, dis)], obs=.., ..)"""
    code_run, code_ok = (900, 901) if prop == "C09" else (1000, 1001)
    pristine, by_seed = run_all(histories, repo, seed_plan)
    base = by_seed[0]
    results = [base[i] for i in range(len(histories))]
    batch = [model_ops(h, o, pristine) for h, o in zip(histories, results)]
    models = run_model(batch, code_run)
    disagreements = []
    details = []
    for hi, (h, o, m) in enumerate(zip(histories, results, models)):
        for d in compare(h, o, m, pristine, prop):
            (details if d.get("detail") else disagreements).append((hi, d))
    fold = (prop == "C09")
    verdicts = evaluate(histories, results, pristine, code_ok, fold)
    violations = []
    for hi, v in enumerate(verdicts):
        for (i, clause) in v:
            violations.append((hi, i, clause, {}))
    # the property oracle on the run of EVERY other hash seed too (a write / read / edit that misbehaves only there)
    for seed, d in by_seed.items():
        if seed == 0:
            continue
        idxs = sorted(d)
        for hi, v in zip(idxs, evaluate([histories[i] for i in idxs], [d[i] for i in idxs], pristine, code_ok, fold)):
            for (i, clause) in v:
                violations.append((hi, i, clause, {"hashseed": seed, "in_process_with_hashseed": seed}))
    # the same histories in other processes with other hash seeds
    for seed, d in by_seed.items():
        if seed == 0:
            continue
        idxs = sorted(d)
        for x in cross_seed_diffs([histories[i] for i in idxs], [base[i] for i in idxs], [d[i] for i in idxs], seed,
                                  want=want_ops):
            violations.append((idxs[x["history"]], x["i"], 7 if prop == "C09" else 8,
                               {"hashseed": seed, "differs": x["what"]}))
    return {"pristine": pristine, "results": results, "models": models, "disagreements": disagreements,
            "details": details, "violations": violations, "by_seed": by_seed}


def detail_summary(histories, details, res):
    """incidental-detail mismatches between model and implementation: counted in the evidence, never failing"""
    counts = {}
    for (hi, d) in details:
        op = histories[hi][d["i"]]
        key = "%s:%s" % (d["detail"], op.get("kind") or op.get("fmt") or op["op"])
        counts[key] = counts.get(key, 0) + 1
    res["distribution"]["effect_summary_detail_mismatches"] = counts
    if counts:
        ex = []
        for (hi, d) in details[:4]:
            ex.append({"what": d["what"], "model": d.get("model"), "impl": d.get("impl"),
                       "op": {k: v for k, v in histories[hi][d["i"]].items() if k in ("op", "kind", "fmt", "wopts", "kw")}})
        res["notes"].append("effect-summary DETAIL differs from the code on %d operations (not part of the property: "
                            "what a writer assigns inside its own copy, exception class, span rendering, what a reader "
                            "object keeps); examples: %s" % (sum(counts.values()), json.dumps(ex)[:1500]))


CLAUSES[7] = "write-hashseed-dependent"
CLAUSES[8] = "read-hashseed-dependent"


def still_fails(history, repo, prop, clause, hashseed=None):
    """re-run ONE history in fresh processes; does the same clause still fail?"""
    plan = {0: [0]}
    if hashseed is not None:
        plan[hashseed] = [0]
    want = ("write",) if prop == "C09" else ("read", "build", "edit", "write")
    r = check_batch([history], repo, plan, prop, want)
    return any(c == clause for (_, _, c, _) in r["violations"]), r


def shrink(history, repo, prop, clause, hashseed=None, budget=25):
    """greedy: cut the tail, then drop single non-creating ops, while the clause keeps failing"""
    best = history
    tries = 0
    changed = True
    while changed and tries < budget:
        changed = False
        for j in range(len(best) - 1, -1, -1):
            if tries >= budget:
                break
            if best[j]["op"] in ("build", "read"):
                # a creating op can only go if nothing refers to a later set index; keep it simple: only the last set
                nset = sum(1 for q in best[:j + 1] if q["op"] in ("build", "read")) - 1
                later = sum(1 for q in best[j + 1:] if q["op"] in ("build", "read"))
                if later or any(q.get("set") == nset for q in best[j + 1:]):
                    continue
            cand = best[:j] + best[j + 1:]
            if not cand:
                continue
            tries += 1
            ok, _ = still_fails(cand, repo, prop, clause, hashseed)
            if ok:
                best = cand
                changed = True
    return best


def describe_history(h):
    out = []
    for op in h:
        k = op["op"]
        if k == "build":
            out.append("build(%d langs)" % len(op["spec"]["langs"]))
        elif k == "read":
            out.append("read[%s r%s]" % (op["fmt"], op["r"]))
        elif k == "write":
            out.append("write[%s w%s set%s]" % (op["kind"], op["w"], op["set"]))
        else:
            out.append("edit[%s set%s]" % (" ".join(str(x) for x in op["edit"][:2]) if op["edit"][0] == "poke" else op["edit"][0], op["set"]))
    return " ; ".join(out)
