"""Geometry helpers shared by C18 / C13 / C12: pycaption geometry objects <-> wire values (coq/extract/OrGeom.v),
deep snapshots, value/layout generators.  Every random choice comes from the rng passed in."""
from fractions import Fraction

import impl  # noqa: F401  (puts the repo under test on sys.path)
from wire import Some, Ok, Err
from pycaption.geometry import (Size, Point, Stretch, Padding, Alignment, Layout, UnitEnum,
                                HorizontalAlignmentEnum, VerticalAlignmentEnum)

UNITS = [UnitEnum.PIXEL, UnitEnum.EM, UnitEnum.PERCENT, UnitEnum.CELL, UnitEnum.PT]
UNIT_NAMES = ["px", "em", "%", "c", "pt"]
HAL = [HorizontalAlignmentEnum.LEFT, HorizontalAlignmentEnum.CENTER, HorizontalAlignmentEnum.RIGHT,
       HorizontalAlignmentEnum.START, HorizontalAlignmentEnum.END]
VAL = [VerticalAlignmentEnum.TOP, VerticalAlignmentEnum.CENTER, VerticalAlignmentEnum.BOTTOM]
PX, EM, PCT, CELL, PT = range(5)


def exact(x):
    """exact rational of a python number (binary64 -> as_integer_ratio)"""
    if isinstance(x, bool):
        raise TypeError("bool is not a number here")
    if isinstance(x, int):
        return Fraction(x)
    if isinstance(x, Fraction):
        return x
    return Fraction(*x.as_integer_ratio())


def opt(x, f):
    return None if x is None else Some(f(x))


# ---- implementation objects -> wire ------------------------------------------------------------
def w_size(s):
    return [exact(s.value), UNITS.index(s.unit)]


def w_point(p):
    return [w_size(p.x), w_size(p.y)]


def w_stretch(p):
    return [w_size(p.horizontal), w_size(p.vertical)]


def w_padding(p):
    return [w_size(p.before), w_size(p.after), w_size(p.start), w_size(p.end)]


def w_alignment(a):
    return [opt(a.horizontal, HAL.index), opt(a.vertical, VAL.index)]


def w_layout(l):
    return [opt(l.origin, w_point), opt(l.extent, w_stretch), opt(l.padding, w_padding),
            opt(l.alignment, w_alignment), opt(l.webvtt_positioning, lambda s: s)]


# ---- abstract (plain tuple) values -> wire and -> implementation objects -----------------------
# abstract size = (Fraction|int|float, unit index); point/stretch = (size, size); padding = 4 sizes (b, a, s, e);
# alignment = (h index|None, v index|None); layout = (origin|None, extent|None, padding|None, alignment|None, str|None)
def a_size_w(s):
    return [exact(s[0]), s[1]]


def a_pair_w(p):
    return [a_size_w(p[0]), a_size_w(p[1])]


def a_padding_w(p):
    # an omitted part of Padding(...) defaults to 0%
    return [a_size_w(x if x is not None else (0, 2)) for x in p]


def a_align_w(a):
    return [opt(a[0], int), opt(a[1], int)]


def a_layout_w(l):
    return [opt(l[0], a_pair_w), opt(l[1], a_pair_w), opt(l[2], a_padding_w), opt(l[3], a_align_w),
            opt(l[4], lambda s: s)]


def num(v):
    """python number handed to the Size constructor for an abstract value"""
    if isinstance(v, Fraction):
        return int(v) if v.denominator == 1 else float(v)
    return v


def mk_size(s):
    return Size(num(s[0]), UNITS[s[1]])


def mk_point(p):
    return Point(mk_size(p[0]), mk_size(p[1]))


def mk_stretch(p):
    return Stretch(mk_size(p[0]), mk_size(p[1]))


def mk_padding(p):
    return Padding(*[None if x is None else mk_size(x) for x in p])


def mk_align(a):
    return Alignment(None if a[0] is None else HAL[a[0]], None if a[1] is None else VAL[a[1]])


def mk_layout(l):
    return Layout(origin=None if l[0] is None else mk_point(l[0]),
                  extent=None if l[1] is None else mk_stretch(l[1]),
                  padding=None if l[2] is None else mk_padding(l[2]),
                  alignment=None if l[3] is None else mk_align(l[3]),
                  webvtt_positioning=l[4])


def float_layout(l):
    """the abstract layout whose numbers are exactly the binary64 values the implementation holds"""
    fs = lambda s: (exact(float(num(s[0]))), s[1])  # noqa: E731
    fp = lambda p: tuple(fs(x if x is not None else (0, 2)) for x in p)  # noqa: E731
    return (None if l[0] is None else fp(l[0]), None if l[1] is None else fp(l[1]),
            None if l[2] is None else fp(l[2]), l[3], l[4])


# ---- wire (model output) -> plain --------------------------------------------------------------
def r_size(x):
    return (Fraction(x[0][0], x[0][1]), x[1])


def r_pair(x):
    return (r_size(x[0]), r_size(x[1]))


def r_padding(x):
    return tuple(r_size(y) for y in x)


def r_align(x):
    return (None if x[0] == [] else x[0][0], None if x[1] == [] else x[1][0])


def r_o(x, f):
    return None if x == [] else f(x[0])


def r_layout(x):
    return (r_o(x[0], r_pair), r_o(x[1], r_pair), r_o(x[2], r_padding), r_o(x[3], r_align), r_o(x[4], lambda s: s))


def p_layout(l):
    """implementation Layout -> plain tuple (exact rationals)"""
    return r_layout_plain(w_layout(l))


def r_layout_plain(w):
    def un(x, f):
        return None if x is None else f(x.v)
    sz = lambda s: (s[0], s[1])  # noqa: E731
    pr = lambda p: (sz(p[0]), sz(p[1]))  # noqa: E731
    return (un(w[0], pr), un(w[1], pr), un(w[2], lambda p: tuple(sz(x) for x in p)),
            un(w[3], lambda a: (None if a[0] is None else a[0].v, None if a[1] is None else a[1].v)),
            un(w[4], lambda s: s))


# ---- deep snapshot of an implementation object (for non-mutation checks) ------------------------
def snap(o):
    if o is None or isinstance(o, (int, float, str, bool)):
        return (type(o).__name__, o)
    if isinstance(o, (UnitEnum, HorizontalAlignmentEnum, VerticalAlignmentEnum)):
        return ("enum", o.value)
    if isinstance(o, (list, tuple)):
        return (type(o).__name__, tuple(snap(x) for x in o))
    if isinstance(o, dict):
        return ("dict", tuple((k, snap(v)) for k, v in o.items()))
    if hasattr(o, "__dict__"):
        return (type(o).__name__, tuple((k, snap(v)) for k, v in sorted(vars(o).items())))
    return ("repr", repr(o))


FIELDS = {"Size": ("value", "unit"), "Point": ("x", "y"), "Stretch": ("horizontal", "vertical"),
          "Padding": ("before", "after", "start", "end"), "Alignment": ("horizontal", "vertical"),
          "Layout": ("origin", "extent", "padding", "alignment", "webvtt_positioning")}


def value_snap(o):
    """snapshot of the documented (geometric) fields only: a cache attribute added to an object is not a modification
    of the value"""
    if o is None or isinstance(o, (int, float, str, bool)):
        return (type(o).__name__, o)
    if isinstance(o, (UnitEnum, HorizontalAlignmentEnum, VerticalAlignmentEnum)):
        return ("enum", o.value)
    for cls in type(o).__mro__:
        if cls.__name__ in FIELDS:
            return (type(o).__name__, tuple((f, value_snap(getattr(o, f, None))) for f in FIELDS[cls.__name__]))
    return snap(o)


# ---- generators ---------------------------------------------------------------------------------
VALUE_GRID = [0, 1, 5, 10, 16, 32, 50, 90, 95, 100, 0.5, 12.5, 33.33, 2.675, 0.005, 0.125, 0.375, 1.005, 99.995,
              7, 333.333, 1920, 1080, 640, 360, 1e-9, 123456789.987, 4.0 / 3.0, 89.99, 90.01, 94.99, 95.01, 45, 47.5]


def rand_value(rng, wild=True):
    r = rng.random()
    if r < 0.55:
        return rng.choice(VALUE_GRID)
    if r < 0.7:
        return rng.randint(0, 2000)
    if r < 0.85:
        return rng.randint(0, 100000) / 100.0
    if r < 0.93 or not wild:
        return rng.randint(0, 10**6) / 1000.0
    if r < 0.97:
        return rng.random() * 10 ** rng.randint(-6, 12)
    return (rng.randint(0, 10**4) + 0.5) / 100.0   # decimal ties (binary non-ties)


def rand_size(rng, units=(0, 1, 2, 3, 4), wild=True):
    return (rand_value(rng, wild), rng.choice(units))


def rand_layout(rng, units=(0, 1, 2, 3, 4), p_none=0.3, webvtt=False, wild=True):
    o = None if rng.random() < p_none else (rand_size(rng, units, wild), rand_size(rng, units, wild))
    e = None if rng.random() < p_none else (rand_size(rng, units, wild), rand_size(rng, units, wild))
    p = None if rng.random() < max(p_none, 0.5) else tuple(rand_size(rng, units, wild) for _ in range(4))
    a = None if rng.random() < p_none else (rng.choice([None, 0, 1, 2, 3, 4]), rng.choice([None, 0, 1, 2]))
    w = rng.choice([None, None, "", "align:left", "position:10%,start line:5%"]) if webvtt else None
    return (o, e, p, a, w)


def res_layout(r):
    """impl.call result holding a Layout (or None) -> wire result"""
    if isinstance(r, Err):
        return r
    return Ok(w_layout(r.v))
