"""Worker for C14 (run as a subprocess so that PYCAPTION_DEFAULT_LANG - read by pycaption at import time - and
PYTHONHASHSEED can be varied): reads one JSON job per line on stdin, prints one JSON observation per line.
Everything is observed through the public API; outputs are parsed with lxml (DFXP, strict) / bs4+lxml (SAMI)."""
import sys
import os
import json
import re
import warnings

REPO = os.environ.get("VERIF_REPO", "/repo")
sys.path.insert(0, REPO)
warnings.filterwarnings("ignore")
import pycaption  # noqa: E402
from pycaption import (DFXPReader, DFXPWriter, SAMIReader, SAMIWriter, WebVTTWriter, WebVTTReader, SRTReader,  # noqa: E402
                       SRTWriter, SCCReader, MicroDVDReader, CaptionSet, CaptionList, Caption, CaptionNode)
from pycaption.dfxp import SinglePositioningDFXPWriter, LegacyDFXPWriter  # noqa: E402
from pycaption import exceptions as ex  # noqa: E402
from lxml import etree  # noqa: E402
from bs4 import BeautifulSoup  # noqa: E402

assert os.path.realpath(os.path.dirname(os.path.dirname(pycaption.__file__))) == os.path.realpath(REPO)

TTML = "{http://www.w3.org/ns/ttml}"
XML = "{http://www.w3.org/XML/1998/namespace}"


def errname(e):
    return type(e).__name__


def langs_of(cs):
    return [[l, [[c.start, c.get_text()] for c in cs.get_captions(l)]] for l in cs.get_languages()]


def build(cs, styles=None):
    """cs: [[lang, [[start, end, text] or [start, end, text, class], ...]], ...]; styles: {class: {property: value}}"""
    d = {}
    for lang, cues in cs:
        caps = []
        for cue in cues:
            s, e, t = cue[:3]
            kw = {"style": {"class": cue[3]}} if len(cue) > 3 and cue[3] is not None else {}
            caps.append(Caption(s, e, [CaptionNode.create_text(t)], **kw))
        d[lang] = CaptionList(caps)
    if styles:
        return CaptionSet(d, styles={k: dict(v) for k, v in styles.items()})
    return CaptionSet(d)


def norm(t):
    return " ".join(t.split())


def sheet_of(soup):
    """the written stylesheet: [[class, lang], ...] for every block that declares a lang, in the order written"""
    style = soup.find("style")
    css = style.get_text() if style else ""
    out = []
    for m in re.finditer(r"\.([^\s{]+)\s*\{([^}]*)\}", css):
        lm = re.search(r"(?:^|[\s;])lang\s*:\s*([^;]+);", m.group(2))
        if lm:
            out.append([m.group(1), lm.group(1).strip()])
    return out


def observe_sami(out):
    soup = BeautifulSoup(out, "lxml")
    body = []
    for sync in soup.find_all("sync"):
        ps = []
        for p in sync.find_all("p"):
            cls = p.get("class")
            cls = " ".join(cls) if isinstance(cls, list) else cls
            t = p.get_text().strip()
            ps.append([cls, t if t else "&nbsp;"])
        body.append([int(sync.get("start")), ps])
    res = {"body": body, "sheet": sheet_of(soup), "doc": out}
    try:
        res["reread"] = langs_of(SAMIReader().read(out))
    except Exception as e:  # noqa
        res["reread_err"] = errname(e)
    return res


def observe_dfxp(out):
    root = etree.fromstring(out.encode("utf-8"))
    divs = []
    for div in root.iter(TTML + "div"):
        cues = [[us(p.get("begin")), norm("".join(p.itertext()))] for p in div.iter(TTML + "p")]
        divs.append([div.get(XML + "lang"), cues])
    res = {"tt": root.get(XML + "lang"), "divs": divs, "doc": out}
    try:
        res["reread"] = [[l, [[s, norm(t)] for s, t in c]] for l, c in langs_of(DFXPReader().read(out))]
    except Exception as e:  # noqa
        res["reread_err"] = errname(e)
    return res


def us(stamp):
    m = re.fullmatch(r"(\d+):(\d\d):(\d\d)\.(\d{3})", stamp)
    h, mi, s, ms = map(int, m.groups())
    return ((h * 60 + mi) * 60 + s) * 1000000 + ms * 1000


_SHARED = {}


def writer_for(key, factory):
    """inside a history the SAME writer object serves every step"""
    if "hist" in _SHARED:
        return _SHARED["hist"].setdefault(key, factory())
    return factory()


def job(j):
    op = j["op"]
    if op == "history":
        _SHARED["hist"] = {}
        try:
            steps = []
            for sj in j["steps"]:
                try:
                    steps.append(job(sj))
                except Exception as e:  # noqa
                    steps.append({"err": errname(e), "msg": str(e)[:200]})
            return {"steps": steps}
        finally:
            _SHARED.pop("hist", None)
    if op == "dfxp_read":
        return {"langs": langs_of(DFXPReader().read(j["doc"]))}
    if op == "dfxp_write":
        W = {"main": DFXPWriter, "single": SinglePositioningDFXPWriter, "legacy": LegacyDFXPWriter}[j["writer"]]
        cs = build(j["cs"], j.get("styles"))
        w = writer_for("dfxp-" + j["writer"], W)
        out = w.write(cs, force=j["force"]) if j["force"] is not None else w.write(cs)
        return observe_dfxp(out)
    if op == "pipeline":
        # a READER's output (styles, classes, layouts and all) fed into a WRITER, then read again
        R = {"sami": SAMIReader, "dfxp": DFXPReader}[j["src"]]
        cs = R().read(j["doc"])
        first = [[l, [[c.start, c.end, norm(c.get_text())] for c in cs.get_captions(l)]] for l in cs.get_languages()]
        if j["via"] == "sami":
            res = observe_sami(SAMIWriter().write(cs))
        else:
            W = {"main": DFXPWriter, "single": SinglePositioningDFXPWriter, "legacy": LegacyDFXPWriter}[j["via"]]
            res = observe_dfxp(W().write(cs))
        res["first"] = first
        if "reread" in res:
            res["reread"] = [[l, [[s, norm(t)] for s, t in c]] for l, c in res["reread"]]
        return res
    if op == "sami_read":
        return {"langs": langs_of(SAMIReader().read(j["doc"]))}
    if op == "sami_write":
        cs = build(j["cs"], j.get("styles"))
        return observe_sami(writer_for("sami", SAMIWriter).write(cs))
    if op == "vtt_write":
        cs = build(j["cs"], j.get("styles"))
        vw = writer_for("vtt", WebVTTWriter)
        out = vw.write(cs, lang=j["lang"]) if "lang" in j else vw.write(cs)
        rd = WebVTTReader().read(out, lang="x") if out.strip() != "WEBVTT" else None
        cues = [[c.start, c.get_text()] for c in rd.get_captions("x")] if rd else []
        return {"cues": cues, "doc": out}
    if op == "srt_write":
        cs = build(j["cs"])
        out = SRTWriter().write(cs)
        parts = out.split("MULTI-LANGUAGE SRT\n")
        res = []
        for part in parts:
            rd = SRTReader().read(part, lang="x") if part.strip() else None
            res.append([[c.start, norm(c.get_text())] for c in rd.get_captions("x")] if rd else [])
        return {"parts": res, "doc": out}
    if op == "reader_lang":
        R = {"srt": SRTReader, "webvtt": WebVTTReader, "scc": SCCReader, "microdvd": MicroDVDReader}[j["fmt"]]
        cs = R().read(j["doc"], lang=j["lang"]) if j["lang"] is not None else R().read(j["doc"])
        return {"langs": [[l, len(cs.get_captions(l))] for l in cs.get_languages()],
                "default": pycaption.base.DEFAULT_LANGUAGE_CODE}
    if op == "default":
        return {"default": pycaption.base.DEFAULT_LANGUAGE_CODE}
    if op == "find_lang":
        # SAMIParser._find_lang and handle_starttag called directly on a parser holding the given stylesheet dict
        from pycaption.sami import SAMIParser
        parser = SAMIParser()
        parser.styles = {k: dict(v) for k, v in j["styles"]}
        found, tags = [], []
        for attrs in j["ps"]:
            found.append(parser._find_lang([tuple(a) for a in attrs]))
        for attrs in j["ps"]:
            before = len(parser.sami)
            parser.handle_starttag("p", [tuple(a) for a in attrs])
            m = re.search(r' lang="([^"]*)">$', parser.sami[before:])
            tags.append(m.group(1) if m else None)
        return {"found": found, "tags": tags, "langs": list(parser.langs)}
    if op == "css_parse":
        from pycaption.sami import SAMIParser
        d = SAMIParser()._css_parse(j["css"])
        return {"styles": [[k, v.get("lang")] for k, v in d.items()]}
    if op == "merge":
        d = {}
        for lang, cues in j["cs"]:
            d[lang] = CaptionList([Caption(s, e, [CaptionNode.create_break() if n is None else CaptionNode.create_text(n)
                                                  for n in nodes]) for s, e, nodes in cues])
        out = pycaption.base.merge_concurrent_captions(CaptionSet(d))
        res = []
        for lang in out.get_languages():
            res.append([lang, [[c.start, c.end, [n.content if n.type_ == CaptionNode.TEXT else
                                                  (None if n.type_ == CaptionNode.BREAK else "?style") for n in c.nodes]]
                               for c in out.get_captions(lang)]])
        return {"merged": res}
    raise ValueError(op)


def main():
    for line in sys.stdin:
        line = line.strip()
        if not line:
            continue
        j = json.loads(line)
        try:
            r = job(j)
        except Exception as e:  # noqa
            r = {"err": errname(e), "msg": str(e)[:200]}
        sys.stdout.write(json.dumps(r) + "\n")
    sys.stdout.flush()


if __name__ == "__main__":
    main()
