#!/venv/bin/python
"""Orchestrator:  check <Cxx> quick|thorough   |   check <Cxx> --replay <file>

1. regenerate coq/model/Generated.v from the working tree of $VERIF_REPO (default /repo),
   rebuild model + oracle, re-check the property's theorem file (full .vo, Print Assumptions),
   audit the sources for escapes (Admitted, Axiom, ...);
2. run the property's correspondence streams (model vs implementation on the same inputs)
   and evaluate the property oracle on what the implementation produced;
3. decide, write evidence/<id>.json, print VIOLATION / KNOWN-FINDING lines, exit 0/1.
"""
import sys
import os
import re
import json
import time
import fcntl
import random
import hashlib
import subprocess
import importlib
import traceback

HERE = os.path.dirname(os.path.abspath(__file__))
VERIF = os.path.dirname(HERE)
COQ = os.path.join(VERIF, "coq")
sys.path.insert(0, HERE)

REPO = os.environ.get("VERIF_REPO", "/repo")
PY = "/venv/bin/python"

ALLOWED_AXIOMS = set()   # no axiom is expected; stdlib axioms would be named here and in DESIGN section 6

FORBIDDEN = re.compile(
    r"\b(Admitted|admit|Axiom|Axioms|Parameter|Parameters|Conjecture|Admit Obligations|"
    r"Unset Guard Checking|Unset Positivity Checking|Unset Universe Checking|bypass_check|"
    r"type-in-type|impredicative-set|native_compute)\b")
SECTION_ONLY = re.compile(r"^\s*(Variable|Variables|Hypothesis|Hypotheses|Context)\b")


def sh(cmd, cwd=None, timeout=1800, env=None):
    p = subprocess.run(cmd, shell=True, cwd=cwd, capture_output=True, text=True, timeout=timeout, env=env)
    return p.returncode, p.stdout + p.stderr


def strip_comments(text):
    out = []
    depth = 0
    i = 0
    n = len(text)
    while i < n:
        if text.startswith("(*", i):
            depth += 1
            i += 2
        elif text.startswith("*)", i) and depth > 0:
            depth -= 1
            i += 2
        else:
            if depth == 0:
                out.append(text[i])
            elif text[i] == "\n":
                out.append("\n")
            i += 1
    return "".join(out)


def audit_sources():
    """Return list of 'file:line: text' for forbidden constructs."""
    hits = []
    for root, _, files in os.walk(COQ):
        for f in files:
            if not f.endswith(".v"):
                continue
            path = os.path.join(root, f)
            text = strip_comments(open(path, encoding="utf-8").read())
            depth = 0
            for ln, line in enumerate(text.split("\n"), 1):
                if re.match(r"^\s*Section\b", line):
                    depth += 1
                elif re.match(r"^\s*End\b", line) and depth > 0:
                    depth -= 1
                if FORBIDDEN.search(line):
                    hits.append(f"{os.path.relpath(path, VERIF)}:{ln}: {line.strip()[:120]}")
                if depth == 0 and SECTION_ONLY.match(line):
                    hits.append(f"{os.path.relpath(path, VERIF)}:{ln}: outside a Section: {line.strip()[:100]}")
    return hits


# Generated files a property's tie depends on: what its harness declares (TABLES), else the oracle-level default
# (only C01's and C20's request handlers read model/Generated.v), plus every generated file in the dependency
# closure of props/<pid>.vo (read from coq_makefile's dependency file). A translator section that fails breaks
# only the properties that depend on its file.
DEFAULT_TABLES = {"C01": ("Generated.v",), "C20": ("Generated.v",)}


def tables_of(pid, mod):
    declared = set(getattr(mod, "TABLES", DEFAULT_TABLES.get(pid, ())))
    depfile = os.path.join(COQ, ".Makefile.coq.d")
    try:
        deps = {}
        for line in open(depfile, encoding="utf-8"):
            if ":" not in line:
                continue
            l, r = line.split(":", 1)
            ds = {d for d in r.split() if d.endswith(".vo")}
            for t in l.split():
                if t.endswith(".vo"):
                    deps.setdefault(t, set()).update(ds)
        seen, todo = set(), [f"props/{pid}.vo"]
        while todo:
            for d in deps.get(todo.pop(), ()):
                if d not in seen:
                    seen.add(d)
                    todo.append(d)
        declared |= {os.path.basename(d)[:-1] for d in seen if os.path.basename(d).startswith("Gen")}
    except OSError:
        declared |= {"Generated.v"}
    return tuple(sorted(declared))



def build(pid, log, tables=("Generated.v",)):
    """Regenerate tables, rebuild model/oracle, re-check props/<pid>.v.
    Returns dict(broken=[names], theorems=[names], assumptions=text, obligations, discharged)."""
    broken = []
    info = {"broken": broken, "theorems": [], "assumptions": "", "obligations": 0, "discharged": 0}
    lock = open(os.path.join(VERIF, ".build.lock"), "w")
    fcntl.flock(lock, fcntl.LOCK_EX)
    try:
        env = dict(os.environ)
        env.pop("PYCAPTION_DEFAULT_LANG", None)
        env["PYTHONPATH"] = REPO
        env["PYTHONHASHSEED"] = "0"
        rc, out = sh(f"{PY} {VERIF}/gen/gen_tables.py {COQ}/model/Generated.v", env=env, timeout=120)
        log.append(out.strip())
        failed = re.findall(r"^TRANSLATOR-SECTION-FAILED (\S+)", out, re.M)
        mine = [f for f in failed if f == "*" or f in tables]
        if mine or (rc != 0 and not failed):
            why = " | ".join(l for l in out.splitlines() if l.startswith("TRANSLATOR-FAILED"))[:400]
            broken.append(f"translator: cannot regenerate {mine or 'tables'} from the working tree: {why or out.strip()[-300:]}")
        rc, out = sh(f"{PY} {VERIF}/tools/genproject.py", timeout=120)
        if rc != 0:
            broken.append("genproject: " + out.strip()[-300:])
        rc, out = sh("timeout 1500 make -f Makefile.coq -j16 extract/Oracle.vo 2>&1 | tail -40", cwd=COQ)
        oracle_vo = os.path.join(COQ, "extract", "Oracle.vo")
        if "Error" in out or not os.path.exists(oracle_vo):
            broken.append("model: coq/extract/Oracle.vo does not build against the regenerated tables: "
                          + out.strip()[-400:])
        obin = os.path.join(VERIF, "bin", "oracle")
        if os.path.exists(oracle_vo) and (not os.path.exists(obin) or os.path.getmtime(obin) < os.path.getmtime(oracle_vo)):
            os.makedirs(os.path.join(COQ, "extract", "ml"), exist_ok=True)
            os.makedirs(os.path.join(VERIF, "bin"), exist_ok=True)
            rc, out = sh("timeout 600 coqc -Q ../.. PV ../Extract.v && cp ../driver.ml . && "
                         "ocamlfind ocamlopt -w -a oracle.mli oracle.ml driver.ml -o ../../../bin/oracle.new 2>&1 "
                         "&& mv ../../../bin/oracle.new ../../../bin/oracle",
                         cwd=os.path.join(COQ, "extract", "ml"))
            if rc != 0:
                broken.append("extraction: " + out.strip()[-400:])
        # the property's theorem file
        src = os.path.join(COQ, "props", f"{pid}.v")
        text = strip_comments(open(src, encoding="utf-8").read())
        theorems = re.findall(r"^\s*(?:Theorem|Lemma)\s+(\w+)", text, re.M)
        info["theorems"] = theorems
        info["obligations"] = len(theorems)
        rc, out = sh(f"timeout 1500 make -f Makefile.coq -j16 -k props/{pid}.vo 2>&1 | tail -60", cwd=COQ)
        made = os.path.exists(os.path.join(COQ, "props", f"{pid}.vo")) and "Error" not in out
        if not made:
            m = re.search(r'File "([^"]+)", line (\d+)', out)
            where = f"{m.group(1)}:{m.group(2)}" if m else "?"
            broken.append(f"proof: props/{pid}.v (or a lemma file it needs) no longer checks at {where}: "
                          + " ".join(out.strip().split())[-500:])
        else:
            rc, out = sh(f"timeout 900 coqc -Q . PV props/{pid}.v 2>&1", cwd=COQ)
            info["assumptions"] = out
            if rc != 0:
                broken.append(f"proof: props/{pid}.v does not compile: " + " ".join(out.split())[-500:])
            else:
                blocks = re.findall(r"(Closed under the global context|Axioms:(?:\n.+?)+?(?=\nClosed under|\nAxioms:|\Z))",
                                    out, re.S)
                closed = sum(1 for b in blocks if b.startswith("Closed"))
                bad_ax = []
                for b in blocks:
                    if b.startswith("Axioms:"):
                        names = re.findall(r"^(\S+)\s*:", b, re.M)
                        names = [n for n in names if n != "Axioms"]
                        if all(n in ALLOWED_AXIOMS for n in names):
                            closed += 1
                        else:
                            bad_ax.append(" ".join(names))
                info["discharged"] = min(closed, len(theorems))
                if len(blocks) < len(theorems):
                    broken.append(f"audit: props/{pid}.v has {len(theorems)} theorems but only {len(blocks)} Print Assumptions")
                if bad_ax:
                    broken.append("audit: theorem depends on axioms: " + "; ".join(bad_ax))
        hits = audit_sources()
        if hits:
            broken.append("audit: forbidden construct: " + " | ".join(hits[:5]))
        info["table_obligations"] = 0
    finally:
        fcntl.flock(lock, fcntl.LOCK_UN)
        lock.close()
    return info


class Ctx:
    def __init__(self, pid, tier, seed):
        self.pid = pid
        self.tier = tier
        self.seed = seed
        self.rng = random.Random(seed * 1000003 + int(pid[1:]))
        self.repo = REPO
        self.verif = VERIF
        self.thorough = (tier == "thorough")
        self.t0 = time.time()

    def n(self, quick, thorough):
        return thorough if self.thorough else quick


def load_known(pid):
    path = os.path.join(VERIF, "known_findings.json")
    if not os.path.exists(path):
        return []
    data = json.load(open(path))
    return [e for e in data.get("findings", []) if e.get("property") == pid and e.get("status") == "known"]


def matches(entry, viol):
    m = entry.get("match", {})
    if not m:
        return False
    return all(viol.get(k) == v for k, v in m.items())


def jsonable(x):
    from fractions import Fraction
    if isinstance(x, Fraction):
        return f"{x.numerator}/{x.denominator}" if x.denominator != 1 else x.numerator
    if isinstance(x, (list, tuple)):
        return [jsonable(y) for y in x]
    if isinstance(x, dict):
        return {str(k): jsonable(v) for k, v in x.items()}
    if isinstance(x, (set, frozenset)):
        return sorted(jsonable(y) for y in x)
    if isinstance(x, (int, float, str, bool)) or x is None:
        return x
    return repr(x)


def write_replay(pid, rec):
    d = os.path.join(VERIF, "replays", pid)
    os.makedirs(d, exist_ok=True)
    body = json.dumps(jsonable(rec), indent=1, sort_keys=True, ensure_ascii=True)
    name = hashlib.sha1(body.encode()).hexdigest()[:12] + ".json"
    path = os.path.join(d, name)
    with open(path, "w") as f:
        f.write(body + "\n")
    return path


TRUSTED_BASE = [
    "Coq 8.16.1 kernel incl. vm_compute (no native_compute)",
    "axioms: none (every theorem of props/*.v prints 'Closed under the global context')",
    "extraction plugin with ExtrOcamlBasic only (no other Extract directive), OCaml 4.13.1, coq/extract/driver.ml",
    "gen/gen_tables.py (constants of the working tree -> coq/model/Generated.v)",
    "harness/*.py: generators, canonicalisation, comparison; the hand-written model corresponds to the code "
    "only as far as the correspondence streams exercise it",
]


def main():
    if len(sys.argv) < 2:
        print(__doc__)
        return 2
    pid = sys.argv[1]
    mode = sys.argv[2] if len(sys.argv) > 2 else os.environ.get("VERIF_TIER", "quick")
    seed = int(os.environ.get("VERIF_SEED", "0") or 0)
    t0 = time.time()
    log = []
    mod = importlib.import_module(f"props.{pid}")

    if mode == "--replay":
        path = sys.argv[3]
        rec = json.load(open(path))
        info = build(pid, log, tables_of(pid, mod))
        ctx = Ctx(pid, "quick", seed)
        if rec.get("kind") == "obligation":
            still = bool(info["broken"])
            print(("STILL-BROKEN " if still else "NOW-CHECKS ") + "; ".join(info["broken"])[:500])
            return 1 if still else 0
        still, detail = mod.replay(ctx, rec)
        print(("REPRODUCED " if still else "NOT-REPRODUCED ") + str(detail)[:1000])
        return 1 if still else 0

    tier = mode if mode in ("quick", "thorough") else "quick"
    ctx = Ctx(pid, tier, seed)
    info = build(pid, log, tables_of(pid, mod))
    broken = list(info["broken"])
    res = None
    if os.path.exists(os.path.join(VERIF, "bin", "oracle")):
        try:
            res = mod.run(ctx)
        except Exception:  # harness failure is a broken tie, never silently green
            broken.append("harness: " + traceback.format_exc()[-1500:])
    else:
        broken.append("oracle binary missing")
    if res is None:
        res = {"evaluations": 0, "nontrivial": 0, "rule": "", "samples": [], "disagreements": [], "violations": [],
               "streams": 0, "distribution": {}, "notes": []}

    if tier == "thorough" and not broken:
        rc, out = sh(f"timeout 1700 coqchk -silent -o -Q . PV PV.props.{pid} 2>&1 | tail -30", cwd=COQ, timeout=1800)
        res.setdefault("notes", []).append("coqchk: " + " ".join(out.split())[-600:])
        if rc != 0 or "Fatal" in out or "Error" in out:
            broken.append("coqchk: " + " ".join(out.split())[-400:])

    known = load_known(pid)
    lines = []
    n_viol = 0
    n_known = 0
    seen_known = set()
    new_viol = []
    for v in res["violations"]:
        hit = next((e for e in known if matches(e, v)), None)
        if hit:
            n_known += 1
            if hit["id"] not in seen_known:
                seen_known.add(hit["id"])
                lines.append(f"KNOWN-FINDING: property={pid} {hit['what']}")
        else:
            new_viol.append(v)
    # report at most 5 distinct new violations (by kind)
    by_kind = {}
    for v in new_viol:
        by_kind.setdefault(v.get("kind", "?"), v)
    for kind, v in list(by_kind.items())[:5]:
        rec = dict(v)
        rec.update({"property": pid, "seed": seed, "tier": tier,
                    "broken_obligations": broken, "replay_cmd": f"./check {pid} --replay <this file>"})
        path = write_replay(pid, rec)
        lines.append(f"VIOLATION property={pid} replay={path}")
        n_viol += 1
    disagreements = res.get("disagreements", [])
    if n_viol == 0 and (broken or disagreements):
        # the obligation / correspondence no longer checks but no input violating the property was found
        rec = {"property": pid, "kind": "obligation", "seed": seed, "tier": tier,
               "broken_obligations": broken,
               "correspondence_disagreements": disagreements[:5],
               "searched": {"evaluations": res["evaluations"],
                            "note": "property oracle evaluated on the implementation for every generated input, "
                                    "the disagreeing inputs and their shrinks; none violates the property"}}
        path = write_replay(pid, rec)
        lines.append(f"VIOLATION property={pid} replay={path} no-failing-input-found")
        n_viol += 1

    obligations = info["obligations"] + res.get("streams", 0) + info.get("table_obligations", 0)
    discharged = info["discharged"] + (res.get("streams", 0) if not disagreements and res.get("streams", 0) else
                                       max(0, res.get("streams", 0) - 1 if disagreements else 0))
    nontriv = res["nontrivial"]
    if not isinstance(nontriv, int):
        nontriv = len(nontriv)
    evidence = {
        "property_id": pid,
        "tier": tier,
        "seed": seed,
        "level": "proof",
        "coverage": {
            "obligations": obligations,
            "discharged": discharged,
            "checker_cmd": f"cd /verif/coq && make -f Makefile.coq props/{pid}.vo && coqc -Q . PV props/{pid}.v"
                           + (f" && coqchk -o -Q . PV PV.props.{pid}" if tier == "thorough" else ""),
            "trusted_base": TRUSTED_BASE + res.get("trusted_extra", []),
            "theorems": info["theorems"],
            "print_assumptions": " ".join(info["assumptions"].split())[:3000],
            "evaluations": res["evaluations"],
            "distinct_nontrivial": nontriv,
            "rule": res["rule"],
            "samples": jsonable(res["samples"][:6]),
            "traces_validated_against_impl": res["evaluations"],
            "correspondence_streams": res.get("streams", 0),
            "correspondence_disagreements": len(disagreements),
            "distribution": jsonable(res.get("distribution", {})),
            "clauses": res.get("clauses", {}),
            "explanation": res.get("explanation", ""),
            "known_findings_hit": n_known,
            "broken_obligations": broken,
            "notes": res.get("notes", []),
        },
        "assumptions": res.get("assumptions", []),
        "wall_s": round(time.time() - t0, 2),
        "violations": n_viol,
    }
    # evidence/ describes runs against /repo itself; a run against another copy (VERIF_REPO, mutant testing) must
    # not overwrite it
    evdir = "evidence" if os.path.realpath(REPO) == "/repo" else "evidence_alt"
    os.makedirs(os.path.join(VERIF, evdir), exist_ok=True)
    with open(os.path.join(VERIF, evdir, f"{pid}.json"), "w") as f:
        json.dump(evidence, f, indent=1, sort_keys=True)
        f.write("\n")
    for l in lines:
        print(l)
    print(f"{pid} {tier}: theorems {info['discharged']}/{info['obligations']} closed, "
          f"{res['evaluations']} cases ({nontriv} distinct non-trivial), "
          f"{len(disagreements)} disagreements, {n_viol} violations, {n_known} known, "
          f"{evidence['wall_s']} s")
    return 1 if n_viol else 0


if __name__ == "__main__":
    sys.exit(main())
