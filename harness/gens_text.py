"""Generators and observers shared by the text properties C03 / C04 / C11 (builder: text).

Abstract caption = list of node specs:
    ("t", str)                    TEXT
    ("b",)                        BREAK
    ("s", start, i, b, u, color)  STYLE start/end with style dict {italics,bold,underline: True, color: str}
`wire_nodes` gives the encoding coq/model/TextNodes.v:sx_node reads; `build_nodes` gives pycaption CaptionNodes.
"""
import re
from html.parser import HTMLParser

import impl  # noqa: F401  (puts the repo under test on sys.path)
from wire import Some
from pycaption import CaptionSet, CaptionList, Caption, CaptionNode

# ---- text atoms -----------------------------------------------------------------------------------------
META = ["&", "<", ">", '"', "'", "-->", "--", "->", "-", "&amp;", "&lt;", "&gt;", "&#60;", "&#x3c;", "&nbsp", "&nbsp;",
        "&bogus;", "&amp;lt;", "<br/>", "<br>", "</p>", "<p>", "<i>", "</i>", "</span>", "<span>", "<!--", "-->", "]]>",
        "]]", "<![CDATA[", "<v Bob>", "<00:01.000>", "<c.x>", "{1}{2}", "{", "}", "{y:i}", "\\", "/", ";", "#", "1", "42", "x",
        "%", "=", "00:00:01,000 --> 00:00:02,000", "NOTE", "STYLE", "WEBVTT", "&&", "<<", ">>", "&;", "&#;", "<>", "</>",
        "&#38;", "&eacute;", "&copy", "&#x26;lt;", "REGION", "<sync", "</body>", "\u00a0", "a\u00a0b", "\u200b", "\u200e",
        "\u200f", "\ufeff", "a\u2028b", "\u2003", "12", "1\u00a0"]
META_PIPE = ["|", "||", "a|b"]
WORDS = ["hello", "world", "caption", "text", "The", "quick", "brown", "fox", "it's", "R&D", "a<b", "x>y", "100%",
         "naïve", "¿qué?", "♪", "[music]", "2024", "l’été", "中文", "\U0001F600",
         "é", "Q&A", "<3", "->", "=>", "fin."]


def rand_codepoints(rng):
    """1-4 random printable code points: BMP and astral, any script"""
    out = []
    while len(out) < rng.randint(1, 4):
        c = chr(rng.choice([rng.randint(0x21, 0x7e), rng.randint(0xa1, 0x2fff), rng.randint(0x3000, 0xd7ff),
                            rng.randint(0xe000, 0xfffd), rng.randint(0x10000, 0x1ffff), rng.randint(0x20000, 0x2fffd)]))
        if c.isprintable() and not c.isspace():
            out.append(c)
    return "".join(out)


def rand_line(rng, adversarial=0.5, maxwords=5, pipe=True):
    """a line with at least one visible character; single ASCII spaces between atoms (or none)"""
    n = rng.randint(1, maxwords)
    parts = []
    for _ in range(n):
        r = rng.random()
        if r < 0.08:
            parts.append(rand_codepoints(rng))
        elif r < adversarial:
            pool = META + (META_PIPE if pipe and rng.random() < 0.15 else [])
            parts.append(rng.choice(pool))
        else:
            parts.append(rng.choice(WORDS))
    out = parts[0]
    for p in parts[1:]:
        out += rng.choice([" ", " ", " ", "", "  "]) + p
    if rng.random() < 0.1:
        out = " " + out
    if rng.random() < 0.1:
        out = out + " "
    if not out.strip():
        return rand_line(rng, adversarial, maxwords, pipe)
    return out


STYLES = [(True, False, False, None), (False, True, False, None), (False, False, True, None),
          (True, True, False, None), (True, True, True, None), (False, False, False, "red"),
          (True, False, False, "#00ff00"), (False, False, False, "r&d"), (True, False, False, 'a"b<c&d')]


def rand_caption_nodes(rng, adversarial=0.5, pipe=True, styles=0.3, max_lines=4, edge_breaks=0.08,
                       style_pool=None, empty_lines=0.25, intra=0.0):
    """1..max_lines visible lines, optional empty lines between them (consecutive breaks or an empty TEXT
    node), optional flat style spans (a span covers whole words of one line, a whole line or several lines)."""
    nlines = rng.randint(1, max_lines)
    lines = [rand_line(rng, adversarial, pipe=pipe) for _ in range(nlines)]
    pool = style_pool or STYLES
    nodes = []
    if rng.random() < edge_breaks:
        nodes.append(("b",))
    open_multi = None
    for k, ln in enumerate(lines):
        if k > 0:
            nodes.append(("b",))
            if rng.random() < empty_lines:           # an empty line between two text lines
                for _ in range(rng.randint(1, 2)):
                    if rng.random() < 0.3:
                        nodes.append(("t", rng.choice(["", "", " ", "  "])))
                    nodes.append(("b",))
        r = rng.random()
        if open_multi is None and r < styles / 3 and k < len(lines) - 1:
            open_multi = rng.choice(pool)
            nodes.append(("s", True) + open_multi)
            nodes.append(("t", ln))
        elif open_multi is None and r < styles:
            st = rng.choice(pool)
            ws = ln.split(" ")
            if len(ws) >= 2 and rng.random() < 0.7:
                a = rng.randint(0, len(ws) - 1)
                b = rng.randint(a + 1, len(ws))
                pre, mid, post = " ".join(ws[:a]), " ".join(ws[a:b]), " ".join(ws[b:])
                if pre or a > 0:
                    nodes.append(("t", pre + " "))
                nodes.append(("s", True) + st)
                nodes.append(("t", mid))
                nodes.append(("s", False) + st)
                if post or b < len(ws):
                    nodes.append(("t", " " + post))
            else:
                nodes.append(("s", True) + st)
                nodes.append(("t", ln))
                nodes.append(("s", False) + st)
        else:
            nodes.append(("t", ln))
            if open_multi is not None and (rng.random() < 0.6 or k == len(lines) - 1):
                nodes.append(("s", False) + open_multi)
                open_multi = None
    if open_multi is not None:
        nodes.append(("s", False) + open_multi)
    if rng.random() < edge_breaks:
        nodes.append(("b",))
    if rng.random() < intra:
        nodes = split_inside_word(rng, nodes, pool)
    if rng.random() < intra:
        nodes = span_inside_word(rng, nodes, pool)
    return nodes


def span_inside_word(rng, nodes, pool):
    """wrap an arbitrary character range of one text node in a span: the span starts and / or ends in the middle of
    a word (`un<i>believ</i>able`, `a <i>b</i>, c`)"""
    depth = 0
    cands = []
    for k, n in enumerate(nodes):
        if n[0] == "s":
            depth += 1 if n[1] else -1
        elif n[0] == "t" and depth == 0 and len(n[1]) >= 2:
            cands.append(k)
    if not cands:
        return nodes
    k = rng.choice(cands)
    txt = nodes[k][1]
    i = rng.randint(0, len(txt) - 1)
    j = rng.randint(i + 1, len(txt))
    st = rng.choice(pool)
    mid = []
    if txt[:i]:
        mid.append(("t", txt[:i]))
    mid += [("s", True) + st, ("t", txt[i:j]), ("s", False) + st]
    if txt[j:]:
        mid.append(("t", txt[j:]))
    return nodes[:k] + mid + nodes[k + 1:]


def split_inside_word(rng, nodes, pool):
    """split one text node at a position inside a word (preferring the middle of an arrow), optionally wrapping
    the second half in a span; only when no span is open at that node"""
    depth = 0
    cands = []
    for k, n in enumerate(nodes):
        if n[0] == "s":
            depth += 1 if n[1] else -1
        elif n[0] == "t" and depth == 0 and len(n[1]) >= 2:
            cands.append(k)
    if not cands:
        return nodes
    k = rng.choice(cands)
    txt = nodes[k][1]
    pos = [i + 2 for i in range(len(txt)) if txt.startswith("-->", i)]
    if pos and rng.random() < 0.8:
        i = rng.choice(pos)
    else:
        i = rng.randint(1, len(txt) - 1)
    a, b = txt[:i], txt[i:]
    if rng.random() < 0.6:
        st = rng.choice(pool)
        mid = [("t", a), ("s", True) + st, ("t", b), ("s", False) + st]
    else:
        mid = [("t", a), ("t", b)]
    return nodes[:k] + mid + nodes[k + 1:]


FALSE_KEYS = [False]      # toggled by the generators: write absent flags as explicit False values


def style_dict(i, b, u, color):
    d = {}
    if i:
        d["italics"] = True
    elif FALSE_KEYS[0]:
        d["italics"] = False
    if b:
        d["bold"] = True
    elif FALSE_KEYS[0]:
        d["bold"] = False
    if u:
        d["underline"] = True
    if color is not None:
        d["color"] = color
    return d


def build_nodes(spec):
    out = []
    for n in spec:
        if n[0] == "t":
            out.append(CaptionNode.create_text(n[1]))
        elif n[0] == "b":
            out.append(CaptionNode.create_break())
        else:
            out.append(CaptionNode.create_style(n[1], style_dict(*n[2:])))
    return out


def wire_nodes(spec):
    out = []
    for n in spec:
        if n[0] == "t":
            out.append([1, n[1]])
        elif n[0] == "b":
            out.append([3])
        else:
            out.append([2, bool(n[1]), bool(n[2]), bool(n[3]), bool(n[4]), None if n[5] is None else Some(n[5])])
    return out


def py_lines(spec):
    """authored lines (same as coq node_lines)"""
    lines = [""]
    for n in spec:
        if n[0] == "t":
            lines[-1] += n[1]
        elif n[0] == "b":
            lines.append("")
    return lines


def py_lines_sp(spec):
    """the lines as a writer that appends a blank to every text node spells them (SAMI)"""
    lines = [""]
    for n in spec:
        if n[0] == "t":
            lines[-1] += n[1] + " "
        elif n[0] == "b":
            lines.append("")
    return lines


def capset(specs, lang="en-US", t0=1000000, step=2000000, dur=1500000, spans=None):
    spans = spans or [times(k, t0, step, dur) for k in range(len(specs))]
    caps = [Caption(s, e, build_nodes(sp)) for (s, e), sp in zip(spans, specs)]
    return CaptionSet({lang: CaptionList(caps)})


def times(k, t0=1000000, step=2000000, dur=1500000):
    return t0 + k * step, t0 + k * step + dur


# ---- timing fields (C02's business; supplied to the document-level models) ------------------------------
def _hms(us):
    ms = us // 1000
    return ms // 3600000, (ms // 60000) % 60, (ms // 1000) % 60, ms % 1000


def srt_timing(s, e):
    f = lambda t: "%02d:%02d:%02d,%03d" % _hms(t)   # noqa: E731
    return f(s) + " --> " + f(e)


def vtt_timing(s, e):
    def f(t):
        h, m, sec, ms = _hms(t)
        r = "%02d:%02d.%03d" % (m, sec, ms)
        return ("%02d:" % h + r) if h else r
    return f(s) + " --> " + f(e)


def mdvd_prefix(s, e):
    return "{%d}{%d}" % (int(s * 25.0 / (10 ** 6)), int(e * 25.0 / (10 ** 6)))


# ---- independent observers named by the properties -------------------------------------------------------
TTML = "{http://www.w3.org/ns/ttml}"


def dfxp_cues(doc):
    """strict XML parse (lxml, no recovery) -> for every <p>: its lines (br = break, spans transparent)"""
    from lxml import etree
    root = etree.fromstring(doc.encode("utf-8"), etree.XMLParser(recover=False, resolve_entities=False))
    cues = []
    for p in root.iter(TTML + "p"):
        lines = [""]

        def walk(e):
            if e.text:
                lines[-1] += e.text
            for ch in e:
                if ch.tag == TTML + "br":
                    lines.append("")
                else:
                    walk(ch)
                if ch.tail:
                    lines[-1] += ch.tail
        walk(p)
        cues.append(lines)
    return cues


class _SamiObs(HTMLParser):
    def __init__(self):
        super().__init__(convert_charrefs=True)
        self.cues = []
        self.cur = None

    def handle_starttag(self, tag, attrs):
        if tag == "p":
            self.cur = [""]
            self.cues.append(self.cur)
        elif tag == "br":
            if self.cur is not None:
                self.cur.append("")
        elif tag in ("sync", "body"):
            self.cur = None

    def handle_endtag(self, tag):
        if tag in ("p", "sync", "body"):
            self.cur = None

    def handle_data(self, data):
        if self.cur is not None:
            self.cur[-1] += data


def sami_cues(doc):
    """HTML parse (html.parser) -> for every <p>: its lines.  <p>s showing nothing (the &nbsp; clearing
    paragraphs SAMI needs to end a caption) are not cues."""
    o = _SamiObs()
    o.feed(doc)
    o.close()
    return [c for c in o.cues if any(x.strip() for x in c)]


P_RE = re.compile(r"<p(?:\s[^>]*)?>(.*?)</p>", re.S)


def p_payloads(doc):
    """raw text between <p ...> and </p> for every paragraph (the writers escape '<' and '>' in text)"""
    return [m.group(1) for m in P_RE.finditer(doc)]
