"""Generator of abstract SAMI documents AS TEXT (coq/spec/SpecSamiText.v): syncs, paragraphs, and every lexical choice
(tag-name case, attribute quoting: double / single / none, white space, character references, &nbsp;, <br>).
The wire form is what coq/extract/OrSamiText.v decodes (request 122); the body text is rendered by the Coq renderer; the
head (stylesheet, read by cssutils in the real reader) is written here from the same class -> lang table."""
import timegen as tg

STYLES = [["encc", "en-US"], ["frcc", "fr"], ["decc", "de"]]
WS = [" ", "\n", "\t", "  ", "\r\n"]
TEXT = list("abcxyz ABC 019.,;:!?-'\"") + ["&", "<", ">", "é", "中", "=", "/", " "]
BLANK = [" ", " ", "\t", " "]


def head(nl):
    css = "\n".join(".%s {Name: L%d; lang: %s; SAMI_Type: CC;}" % (cls.upper(), i, lang) for i, (cls, lang) in enumerate(STYLES[:nl]))
    return ('<SAMI><HEAD><TITLE>t</TITLE><STYLE TYPE="text/css"><!--\nP { margin-left: 1pt; }\n%s\n.hl {color: red;}\n--></STYLE></HEAD>' % css)


def find_lang(styles, attrs, default="und"):
    d = dict((c, l) for c, l in styles)
    for n, v in attrs:
        if n.lower() == "lang":
            return v[:2]
        if n.lower() == "class" and v.lower() in d:
            return d[v.lower()]
    return default


class G:
    def __init__(self, rng):
        self.rng = rng
        self.unquoted = self.single = self.refs = self.nbsp = self.upper = self.ps = 0

    def ws(self, empty=0.6):
        return "" if self.rng.random() < empty else self.rng.choice(WS)

    def case(self, name):
        r = self.rng.random()
        if r < 0.5:
            self.upper += 1
            return name.upper()
        if r < 0.6:
            return name.capitalize()
        return name

    def attr(self, name, val, plain):
        r = self.rng
        k = r.random()
        q = 34
        if plain and val and k < 0.45:
            q = 0
            self.unquoted += 1
        elif k < 0.65:
            q = 39
            self.single += 1
        name = name if r.random() < 0.8 else name[0] + name[1:].upper()
        return [" " if r.random() < 0.7 else r.choice(WS), name, self.ws(0.85), self.ws(0.85), q, val]

    def extra(self):
        r = self.rng
        out = []
        if r.random() < 0.25:
            out.append(self.attr("id", "x%d" % r.randrange(100), True))
        if r.random() < 0.15:
            out.append(self.attr("title", r.choice(["a b", "R&D", "<x>", "it's", 'say "hi"']), False))
        return out

    def run(self, visible, n=None):
        r = self.rng
        out = []
        for _ in range(r.choice([0, 1, 3, 6]) if n is None else n):
            c = r.choice(TEXT if visible else BLANK)
            if c == " " and r.random() < 0.7:
                out.append([2])
                self.nbsp += 1
            elif r.random() < 0.15 and not (128 <= ord(c) < 160):
                out.append([1, ord(c)])
                self.refs += 1
            else:
                out.append([0, ord(c)])
        return out

    def par(self, nl, li, visible):
        r = self.rng
        self.ps += 1
        cls, lang = STYLES[li]
        k = r.random()
        if k < 0.5 or li == 0:
            core = [self.attr("class", cls.upper() if r.random() < 0.7 else cls, True)]
        elif k < 0.65:
            core = [self.attr("class", "hl", True), self.attr("lang", lang, True)]
        elif k < 0.75:
            core = [self.attr("lang", lang, True), self.attr("class", "hl", True)]
        elif k < 0.85:
            core = [self.attr("class", "nodef", True), self.attr("lang", lang, True)]
        else:
            core = [self.attr("lang", lang, True)]
        ex = self.extra()
        attrs = ex[:1] + core + ex[1:] if r.random() < 0.5 else core + ex
        items = []
        for _ in range(r.choice([0, 0, 0, 1, 2])):
            items.append([self.run(visible), [self.case("br"), self.ws(0.7), 1 if r.random() < 0.5 else 0]])
        last = self.run(visible)
        if visible and not any(x[0] == 0 and chr(x[1]).strip() or x[0] == 1 and chr(x[1]).strip()
                               for it in items for x in it[0]) and not any((x[0] in (0, 1)) and chr(x[1]).strip() for x in last):
            last = last + [[0, ord("w")]]
        if not visible and not items and not last:
            last = [[2]]
            self.nbsp += 1
        if visible and r.random() < 0.12:
            # visible ONLY through character references
            items, last = [], [[1, ord(r.choice("\u00e9x\u4e2d"))] for _ in range(r.choice([1, 2]))]
            self.refs += len(last)
            self.only_refs = getattr(self, "only_refs", 0) + 1
        real_lang = find_lang(STYLES[:nl], [(a[1], a[5]) for a in attrs])
        return [[self.case("p"), attrs, self.ws(0.85)], real_lang, [items, last], [self.case("p"), self.ws(0.9)], self.ws(0.6)]

    def doc(self):
        r = self.rng
        nl, syncs = tg.gen_sami(r)
        out = []
        for (pad, ms, present) in syncs:
            ex = self.extra()
            start = self.attr("start", "0" * pad + str(ms), True)
            attrs = ex[:1] + [start] + ex[1:] if r.random() < 0.5 else [start] + ex
            order = sorted(present.items())
            if r.random() < 0.3:
                r.shuffle(order)
            ps = [self.par(nl, li, txt) for li, txt in order]
            out.append([[self.case("sync"), attrs, self.ws(0.85)], pad, ms, self.ws(0.7), ps, [self.case("sync"), self.ws(0.9)], self.ws(0.3)])
        d = [[self.case("body"), [], ""], self.ws(0.5), out, [[[self.case("body"), ""], self.ws(0.6)], [[self.case("sami"), ""], self.ws(0.5)]]]
        return nl, d


def gen(rng):
    g = G(rng)
    nl, d = g.doc()
    return nl, d, g
