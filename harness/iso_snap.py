"""C09 / C10 shared observers on the REAL heap (imported by harness/iso_worker.py inside the worker process).

tree(o)      identity-insensitive deep structural snapshot (types, fields, dict contents + order, list order) in the
             shape of coq/model/Store.v `tree` (so that it can be compared with the model's `snap`):
               int -> int | str -> "s:.." | bool -> "b:.." | float -> "f:repr" | Enum -> "e:.." | None -> None
               object -> [kind, [[key, value], ...]]
             kinds: 0 dict, 1 list, 2 CaptionSet, 3 CaptionList, 4 Caption, 5 CaptionNode, 6 Layout, 9 tuple,
                    99 any other object (type name + sorted __dict__)
mutables(o)  id -> (object, path) for every MUTABLE object reachable from o (object graph walk by id())
shallow(o)   identity-level shallow state of one object (which objects its slots are bound to)
"""
import enum
import hashlib
import json
from fractions import Fraction

from pycaption.base import CaptionSet, CaptionList, Caption, CaptionNode
from pycaption.geometry import Layout

K_DICT, K_LIST, K_SET, K_CAPLIST, K_CAPTION, K_NODE, K_LAYOUT, K_TUPLE, K_OTHER = 0, 1, 2, 3, 4, 5, 6, 9, 99

FIELDS = {
    CaptionSet: (K_SET, ["_captions", "_styles", "layout_info"]),
    Caption: (K_CAPTION, ["start", "end", "nodes", "style", "layout_info"]),
    CaptionNode: (K_NODE, ["type_", "content", "start", "layout_info", "position"]),
}

ATOMS = (int, float, str, bytes, bool, type(None), enum.Enum)


def lay_flags(l):
    """bit0 absolute units somewhere, bit1 origin, bit2 extent, bit3 webvtt_positioning, bit4 truthy, bit5 padding,
    bit6 alignment (bit7 is 0: the model uses it to mark a transformed layout)"""
    f = 0
    try:
        if not l.is_relative():
            f |= 1
    except Exception:  # noqa
        f |= 1
    if l.origin:
        f |= 2
    if l.extent:
        f |= 4
    if l.webvtt_positioning:
        f |= 8
    if l:
        f |= 16
    if l.padding:
        f |= 32
    if l.alignment:
        f |= 64
    return f


def lay_code(l):
    """256 * (24-bit digest of what Layout.__eq__ compares) + flags (bit 7 is 0)"""
    try:
        ser = repr(l.serialized()) + repr([getattr(l, a, None) is None for a in ("origin", "extent", "padding", "alignment")])
    except Exception:  # noqa
        ser = repr(sorted((k, repr(v)) for k, v in vars(l).items()))
    d = int(hashlib.sha1(ser.encode("utf-8", "surrogatepass")).hexdigest()[:6], 16)
    return 256 * d + lay_flags(l)


def tree(o, depth=0):
    if depth > 40:
        return [-1]
    if o is None:
        return None
    if isinstance(o, bool):
        return "b:%s" % o
    if isinstance(o, int):
        return o
    if isinstance(o, float):
        return "f:%r" % o
    if isinstance(o, str):
        return "s:" + o
    if isinstance(o, bytes):
        return "y:%r" % o
    if isinstance(o, enum.Enum):
        return "e:%s.%s" % (type(o).__name__, o.name)
    if isinstance(o, Fraction):
        return "q:%s" % o
    d = depth + 1
    t = type(o)
    if t in FIELDS:
        kind, names = FIELDS[t]
        items = [[i + 1, tree(getattr(o, n, "<missing>"), d)] for i, n in enumerate(names)]
        for k in sorted(vars(o)):
            if k not in names:
                items.append(["s:" + k, tree(vars(o)[k], d)])
        return [kind, items]
    if t is CaptionList:
        items = [[1, tree(o.layout_info, d)]] + [[None, tree(c, d)] for c in o]
        for k in sorted(vars(o)):
            if k != "layout_info":
                items.append(["s:" + k, tree(vars(o)[k], d)])
        return [K_CAPLIST, items]
    if isinstance(o, Layout):
        wp = o.webvtt_positioning
        items = [[1, lay_code(o)], [2, tree(wp, d)]]
        if type(o) is not Layout:
            items.append(["s:type", "s:" + type(o).__name__])
        return [K_LAYOUT, items]
    if isinstance(o, dict):
        items = [[tree(k, d), tree(v, d)] for k, v in o.items()]
        if t is not dict:
            items.insert(0, ["s:type", "s:" + t.__name__])
        return [K_DICT, items]
    if isinstance(o, list):
        items = [[None, tree(v, d)] for v in o]
        if t is not list:
            items.insert(0, ["s:type", "s:" + t.__name__])
        return [K_LIST, items]
    if isinstance(o, tuple):
        return [K_TUPLE, [[None, tree(v, d)] for v in o]]
    if isinstance(o, (set, frozenset)):
        return [K_OTHER, [["s:type", "s:" + t.__name__]] + [[None, x] for x in sorted((tree(v, d) for v in o), key=repr)]]
    items = [["s:type", "s:" + t.__name__]]
    if hasattr(o, "__dict__"):
        for k in sorted(vars(o)):
            items.append(["s:" + k, tree(vars(o)[k], d)])
    return [K_OTHER, items]


def digest(t):
    return hashlib.sha1(json.dumps(t, ensure_ascii=True, separators=(",", ":")).encode()).hexdigest()[:16]


def children(o):
    """(slot name, child object) of one object"""
    if isinstance(o, dict):
        for k, v in o.items():
            yield ("[%r]" % (k,), v)
            if not isinstance(k, ATOMS):
                yield ("<key>", k)
    elif isinstance(o, (list, tuple, set, frozenset)):
        for i, v in enumerate(o):
            yield ("[%d]" % i, v)
    if hasattr(o, "__dict__") and not isinstance(o, type):
        for k, v in vars(o).items():
            yield ("." + k, v)


def is_mutable(o):
    """Mutable = an object the public API can change in place: dict / list / set, CaptionSet / CaptionList / Caption /
    CaptionNode (attributes are assigned by pycaption itself and by its users) and any other object with a __dict__.
    NOT mutable: atoms, tuples, frozensets, Fractions, and the geometry VALUE objects (Layout, Point, Size, Stretch,
    Padding, Alignment: value __eq__/__hash__, no method of pycaption.geometry assigns an attribute outside __init__,
    every transformation returns a new object) - sharing them between caption sets cannot break isolation."""
    if isinstance(o, ATOMS + (tuple, frozenset, Fraction)):
        return False
    return (type(o).__module__ or "") != "pycaption.geometry"


def mutables(root, stop=None, limit=200000):
    """id -> (object, path) for every mutable object reachable from root. `stop(o)` prunes (bs4 documents ...)."""
    seen = {}
    visited = set()
    stack = [(root, "")]
    while stack:
        o, p = stack.pop()
        if isinstance(o, ATOMS) or isinstance(o, type):
            continue
        i = id(o)
        if i in visited:
            continue
        visited.add(i)
        if stop is not None and stop(o):
            continue
        if is_mutable(o):
            seen[i] = (o, p)
            if len(seen) > limit:
                break
        for name, c in children(o):
            stack.append((c, p + name))
    return seen


def shallow(o):
    """identity-level state of one object: which objects its slots are bound to (atoms by value)"""
    def ref(v):
        return ("a", repr(v)) if isinstance(v, ATOMS) else ("o", id(v))
    out = []
    if isinstance(o, dict):
        out.append(("items", tuple((ref(k), ref(v)) for k, v in o.items())))
    elif isinstance(o, (list, tuple)):
        out.append(("items", tuple(ref(v) for v in o)))
    if hasattr(o, "__dict__"):
        for k, v in vars(o).items():
            out.append((k, ref(v)))
    return out


def shallow_diff(a, b):
    """names of the slots whose binding differs between two shallow() states"""
    da, db = dict(a), dict(b)
    return sorted(k for k in set(da) | set(db) if da.get(k) != db.get(k))


def cls_name(o):
    return type(o).__name__


def alias_signature(root):
    """the sharing structure inside one object graph: the groups of paths (>= 2) that lead to one and the same mutable
    object; [] for a tree.  Used (a) to key "same snapshot" on graphs that really are the same up to identity, (b) to
    know when the tree-shaped model of a set stops being comparable after an in-place edit."""
    paths = {}
    stack = [(root, "")]
    seen_edges = set()
    while stack:
        o, p = stack.pop()
        if isinstance(o, ATOMS) or isinstance(o, type):
            continue
        if is_mutable(o):
            first = id(o) not in paths
            paths.setdefault(id(o), []).append(p)
            if not first:
                continue
        for name, c in children(o):
            if (id(o), name) not in seen_edges or not is_mutable(o):
                seen_edges.add((id(o), name))
                stack.append((c, p + name))
    groups = sorted(sorted(v) for v in paths.values() if len(v) > 1)
    return groups


K_SHARE = 101


def mark_span_sharing(t, cs):
    """result tree of a read -> the same tree in which the content cell of a STYLE end node whose content dict IS the
    content dict of the matching start node (stack discipline over the caption's node list) is the marker [101, []].
    This is how the harness tells the read model which end nodes the real reader made share their start node's dict."""
    if t is None or not isinstance(cs, CaptionSet):
        return t
    t = json.loads(json.dumps(t))
    set_cells = dict((c[0], c) for c in t[1])
    lang_cells = set_cells[1][1][1]
    for lang_cell, lang in zip(lang_cells, cs.get_languages()):
        caps_real = list(cs.get_captions(lang))
        cap_cells = [c for c in lang_cell[1][1] if c[0] is None]
        for cap_cell, cap in zip(cap_cells, caps_real):
            node_cells = [c for c in dict((c[0], c) for c in cap_cell[1][1])[3][1][1] if c[0] is None]
            stack = []
            for ncell, node in zip(node_cells, cap.nodes):
                if node.type_ != CaptionNode.STYLE:
                    continue
                if node.start:
                    stack.append(node.content)
                else:
                    top = stack.pop() if stack else None
                    if top is not None and top is node.content:
                        for c in ncell[1][1]:
                            if c[0] == 2:
                                c[1] = [K_SHARE, []]
    return t
