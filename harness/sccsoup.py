"""Random code-word soups for the decoder correspondence (not necessarily well-formed programs)."""
import sccgen as g

CTRL = [g.RCL, g.BS, g.DER, g.RU2, g.RU3, g.RU4, g.FON, g.RDC, g.TR, g.RTD, g.EDM, g.CR, g.ENM, g.EOC]
BG = ["1020", "10a1", "10ad", "102f", "97ad"]


def soup_word(rng, weights):
    k = rng.choices(["text", "pac", "tab", "ctrl", "mid", "special", "ext", "bg", "filler", "pad", "space"], weights)[0]
    if k == "text":
        return g.text_words("".join(rng.choice("abcdefgh ,.!?xyzAB") for _ in range(rng.choice([1, 2, 2, 2]))))[0]
    if k == "pac":
        row = rng.choice([1, 2, 3, 7, 13, 14, 14, 15, 15, 15])
        style = rng.random()
        if style < 0.2:
            return g.pac(row, italics=True, underline=rng.random() < 0.3)
        if style < 0.35:
            return g.pac(row, color=rng.randint(0, 6), underline=rng.random() < 0.3)
        return g.pac(row, rng.choice([0, 0, 4, 8, 28]), underline=rng.random() < 0.2)
    if k == "tab":
        return g.tab(rng.randint(1, 3))
    if k == "ctrl":
        return rng.choice(CTRL)
    if k == "mid":
        return g.midrow(rng.choice([0, 1, 2, 14, 14, 15, 13]))
    if k == "special":
        return g.special(rng.randint(0, 15))
    if k == "ext":
        return g.extended(rng.randint(0, 1), rng.randint(0, 31))
    if k == "bg":
        return rng.choice(BG)
    if k == "pad":
        return "8080"
    if k == "space":
        return rng.choice(["2020", "6120", "2061", "a180", "ae80", "2c20", "bf80"])
    return "0000"


def soup(rng, nlines=None, maxwords=14, popon_only=False):
    weights = [rng.choice([8, 14]), 3, 1.2, rng.choice([3, 6]), 1.5, 1.2, 1.2, rng.choice([0, 0.4]), 0.4,
               rng.choice([0, 0.3]), 1]
    lines = []
    frame = rng.choice([0, 45, 30 * 3600])
    drop = rng.random() < 0.5
    for _ in range(nlines or rng.randint(1, 5)):
        ws = []
        for _ in range(rng.randint(1, maxwords)):
            w = soup_word(rng, weights)
            if popon_only and w in (g.RU2, g.RU3, g.RU4, g.RDC, g.CR):
                w = g.RCL                         # streams that stay in pop-on mode (C05); the other modes belong to C16
            ws.append(w)
            if rng.random() < 0.35 and int(w[:2], 16) & 0x7f < 0x20:
                ws.append(w)                      # doubled
        lines.append((frame, ws))
        frame += len(ws) + rng.choice([0, 1, 3, 6, 40, 200])
    return g.doc([(g.timecode(f, drop), ws) for f, ws in lines])
