"""Generators of abstract timed documents (C01) and of caption-set times (C02, C08).
Abstract values mirror coq/spec/SpecTime.v; to_wire() gives the argument of the oracle requests."""
from fractions import Fraction
from wire import Some

H_GRID = [0, 0, 0, 1, 9, 10, 23, 24, 25, 99, 100, 999]
MS_GRID = [0, 59, 1, 9, 10]           # minutes / seconds
MILLI_GRID = [0, 1, 9, 10, 99, 100, 999, 500]
FF_GRID = [0, 1, 14, 15, 29]
FRAC_GRID = [[5], [0], [0, 0, 1], [0, 0, 0, 5], [3], [2, 9], [1, 2, 3, 4], [9, 9, 9, 9, 9, 9, 9],
             [0, 0, 0, 0, 0, 0, 1], [1, 2, 3, 4, 5, 6, 7, 8, 9], [9] * 12, [0] * 6 + [9], [3] * 20, [1, 0, 0]]
WORDS = ["hello", "world", "caption", "The quick", "brown fox", "it's", "100%", "naïve", "♪", "[music]",
         "- hi", "42", "x", "a b c", "Olá", "7 up",
         # characters str.splitlines() cuts at but the readers (utils.split_lines) must not: inside a text line
         "a\x0bb", "n\x85l", "l\u2028s", "p\u2029s", "f\x0cf", "f\x1cs"]
FPS_GRID = [None, None, (0, 25, []), (0, 23, [9, 7, 6]), (0, 29, [9, 7]), (0, 30, []), (0, 24, []), (0, 50, []),
            (0, 60, []), (0, 25, [0]), (0, 29, [9, 7, 0]), (1, 25, []), (0, 12, [5]), (0, 15, []), (0, 0, [5]),
            (0, 119, [8, 8]), (0, 1, [])]
FRAME_GRID = [0, 1, 24, 25, 201, 203, 123, 89999999, 2159999, 1001, 30000, 7, 250, 1500]
SHIFT_GRID = [0, 0, 0, 1, -1, 999, -999, 3600000, -3600000, 12345]


def pick(rng, grid, rnd, p=0.5):
    return rng.choice(grid) if rng.random() < p else rnd()


def gen_pad(rng):
    return rng.choice([0, 0, 0, 0, 1, 2, 3])


def gen_frac(rng):
    if rng.random() < 0.5:
        return list(rng.choice(FRAC_GRID))
    return [rng.randrange(10) for _ in range(rng.randint(1, 9))]


def gen_lines(rng, p_empty=0.15, words=WORDS):
    n = 0 if rng.random() < p_empty else rng.choice([1, 1, 1, 2, 2, 3])
    return [rng.choice(words) for _ in range(n)]


# ---------------- sorted instants --------------------------------------------------------------
def gen_hms_seq(rng, n, big=0.3):
    """n increasing (h, m, s, ms) tuples, boundary-heavy"""
    out = []
    t = 0
    for i in range(2 * n):
        if rng.random() < 0.5:
            h = pick(rng, H_GRID, lambda: rng.randrange(1000), 0.7)
            m = pick(rng, MS_GRID, lambda: rng.randrange(60))
            s = pick(rng, MS_GRID, lambda: rng.randrange(60))
            ms = pick(rng, MILLI_GRID, lambda: rng.randrange(1000))
            cand = ((h * 60 + m) * 60 + s) * 1000 + ms
            if cand >= t:
                t = cand
            else:
                t += rng.choice([0, 1, 999, 1000, 59000, 60000, 3599000, rng.randrange(10**7)])
        else:
            t += rng.choice([0, 1, 999, 1000, 59000, 60000, 3599000, rng.randrange(10**7)])
        t = min(t, 1000 * 3600 * 1000 - 1)
        out.append(t)
    out.sort()
    res = []
    for t in out:
        ms = t % 1000
        s = t // 1000 % 60
        m = t // 60000 % 60
        h = t // 3600000
        res.append((h, m, s, ms))
    return res


def gen_count(rng):
    """1-6 cues, now and then a long document"""
    return rng.choice([60, 150, 300]) if rng.random() < 0.004 else rng.randint(1, 6)


def disorder(rng, ts, n):
    """2n instants for n cues: sorted and non-overlapping, or (35%) overlapping / out of order / end before start -
    the readers must keep document order and the written instants whatever they are"""
    if rng.random() < 0.65:
        return ts, "sorted"
    ts = list(ts)
    k = rng.random()
    if k < 0.4:
        pairs = [(ts[2 * i], ts[2 * i + 1]) for i in range(n)]
        rng.shuffle(pairs)
        ts = [t for p in pairs for t in p]
        return ts, "shuffled"
    if k < 0.8:
        rng.shuffle(ts)
        return ts, "free"
    for i in range(n - 1):            # every cue runs into the next one
        ts[2 * i + 1], ts[2 * i + 2] = ts[2 * i + 2], ts[2 * i + 1]
    return ts, "overlapping"


# ---------------- SRT -------------------------------------------------------------------------
def gen_srt_doc(rng):
    n = gen_count(rng)
    ts, _ = disorder(rng, gen_hms_seq(rng, n), n)
    cues = []
    for i in range(n):
        st = []
        for (h, m, s, ms) in (ts[2 * i], ts[2 * i + 1]):
            frac = Some(ms) if (ms != 0 or rng.random() < 0.7) else None
            pad = gen_pad(rng)
            if h < 10 and pad == 0 and rng.random() < 0.7:
                pad = 1          # two-digit hours are the common spelling
            st.append([pad, h, m, s, frac])
        cues.append([rng.choice([i + 1, i + 1, 0, 7, 10**6]), st[0], st[1], gen_lines(rng, 0.01), rng.choice([0, 0, 0, 1, 2])])
    return [rng.random() < 0.3, cues]


def srt_nontrivial(doc):
    keys = set()
    for c in doc[1]:
        for t in (c[1], c[2]):
            if t[1] != 0 or t[4] is None or (t[4] is not None and t[4].v != 0):
                keys.add((t[0], t[1], t[2], t[3], None if t[4] is None else t[4].v))
    return keys


# ---------------- WebVTT ----------------------------------------------------------------------
VTT_SETTINGS = [None, None, None, "align:start", "position:10%,line-left align:left size:35%", "line:0", "vertical:rl"]


VTT_WS = [" ", " ", " ", "\t", "  ", " \t", "\t\t ", "   "]
VTT_PRE = [[], [], [], ["%d"], ["cue-%d"], ["NOTE a comment", ""], ["NOTE", "two lines", "of comment", "", "%d"],
           ["STYLE", "::cue { color: lime }", ""], ["stray text without arrow"], ["", ""], ["REGION", "id:r%d", ""]]


def gen_vtt_doc(rng):
    n = gen_count(rng)
    ts, _ = disorder(rng, gen_hms_seq(rng, n), n)
    cues = []
    for i in range(n):
        st = []
        for (h, m, s, ms) in (ts[2 * i], ts[2 * i + 1]):
            if h == 0 and rng.random() < 0.6:
                hh = None
            else:
                hh = Some([gen_pad(rng) + (1 if h < 10 else 0), h])
            st.append([hh, m, s, ms])
        pre = [l % i if "%d" in l else l for l in rng.choice(VTT_PRE)]
        stg = rng.choice(VTT_SETTINGS)
        cues.append([pre, st[0], st[1], rng.choice(VTT_WS), rng.choice(VTT_WS), None if stg is None else Some(stg),
                     gen_lines(rng, 0.01), rng.choice([0, 0, 0, 1, 2])])
    strict = rng.random() < 0.4
    shift = rng.choice(SHIFT_GRID)
    return [strict, shift, rng.random() < 0.3, cues]


def vtt_nontrivial(doc):
    keys = set()
    for c in doc[3]:
        for t in (c[1], c[2]):
            if t[0] is not None or t[3] != 0 or doc[1] != 0:
                keys.add((None if t[0] is None else tuple(t[0].v), t[1], t[2], t[3], doc[1]))
    if len(keys) > 40:
        keys = set(list(keys)[:40])
    return keys


# ---------------- MicroDVD --------------------------------------------------------------------
def gen_mdvd_doc(rng):
    fps = rng.choice(FPS_GRID)
    if fps is not None and fps[1] == 0 and not any(fps[2]):
        fps = None
    n = gen_count(rng)
    fr = sorted(pick(rng, FRAME_GRID, lambda: rng.randrange(rng.choice([100, 10**4, 10**6, 9 * 10**7])), 0.4)
                for _ in range(2 * n))
    fr, _ = disorder(rng, fr, n)
    cues = []
    for i in range(n):
        a, b = fr[2 * i], fr[2 * i + 1]
        if rng.random() < 0.2:
            b = a                      # a cue inside one frame: {n}{n} (only {0}{0} is the frame-rate header)
        pa, pb = gen_pad(rng), gen_pad(rng)
        if a == 0 and b == 0 and pa == 0 and pb == 0:
            pb = 1
        lines = gen_lines(rng, words=[w for w in WORDS if "|" not in w] + ["50", "25", "23.976", "30", "0", "1e2"])
        if rng.random() < 0.1:
            lines = lines + [""]
        if rng.random() < 0.05:
            lines = [""]
        cues.append([pa, a, pb, b, lines])
    return [rng.random() < 0.3, None if fps is None else Some([fps[0], fps[1], list(fps[2])]), cues]


# ---------------- DFXP ------------------------------------------------------------------------
OFFSET_IP = [0, 1, 2, 59, 100, 3, 123, 7, 999]
OFFSET_FR = [[], [], [5], [0, 0, 1], [0, 0, 0, 5], [3], [2, 9], [1, 2, 3, 4, 5, 6, 7], [9, 9, 9, 9, 9, 9, 9, 9, 9, 9]]


def gen_texpr(rng):
    if rng.random() < 0.55:
        h = pick(rng, H_GRID, lambda: rng.randrange(1000), 0.7)
        m = pick(rng, MS_GRID, lambda: rng.randrange(60))
        s = pick(rng, MS_GRID, lambda: rng.randrange(60))
        k = rng.random()
        if k < 0.2:
            tail = [0]
        elif k < 0.75:
            tail = [1, gen_frac(rng)]
        else:
            tail = [2, pick(rng, FF_GRID, lambda: rng.randrange(30))]
        return [0, gen_pad(rng) + (1 if h < 10 else 0), h, m, s, tail]
    mt = rng.randrange(5)
    ip = pick(rng, OFFSET_IP, lambda: rng.randrange(rng.choice([10, 100, 1000, 10**5])))
    fr = list(rng.choice(OFFSET_FR)) if rng.random() < 0.6 else [rng.randrange(10) for _ in range(rng.randint(1, 6))]
    if rng.random() < 0.3:
        fr = []
    return [1, gen_pad(rng), ip, fr, mt]


def gen_dfxp_ps(rng):
    return [[gen_texpr(rng), rng.random() < 0.3, gen_texpr(rng)] for _ in range(rng.randint(1, 6))]


def texpr_key(e):
    return repr(e)


def dfxp_doc(divs):
    """divs: list of (lang, [(begin, end, dur, text)]) with attribute strings or None"""
    out = ['<?xml version="1.0" encoding="utf-8"?>\n<tt xml:lang="en" xmlns="http://www.w3.org/ns/ttml">'
           '<head></head><body>']
    for lang, ps in divs:
        out.append('<div xml:lang="%s">' % lang)
        for (b, e, d, text) in ps:
            a = ""
            if b is not None:
                a += ' begin="%s"' % b
            if e is not None:
                a += ' end="%s"' % e
            if d is not None:
                a += ' dur="%s"' % d
            out.append("<p%s>%s</p>" % (a, text))
        out.append("</div>")
    out.append("</body></tt>")
    return "\n".join(out)


# ---------------- SAMI ------------------------------------------------------------------------
SAMI_LANGS = [("ENCC", "en-US"), ("FRCC", "fr"), ("DECC", "de")]


def gen_sami(rng):
    """returns (nlangs, syncs) ; syncs = list of (pad, ms, {lang index: has_text})"""
    nl = rng.choice([1, 1, 2, 3])
    n = rng.randint(1, 7)
    t = rng.choice([0, 0, 1, 1000, 999, 3599999, 86399000, rng.randrange(10**7)])
    syncs = []
    for _ in range(n):
        present = {}
        for li in range(nl):
            if rng.random() < (0.85 if nl == 1 else 0.6):
                present[li] = rng.random() < 0.7
        if not present:
            present[rng.randrange(nl)] = True
        syncs.append((gen_pad(rng), t, present))
        t += rng.choice([1, 2, 999, 1000, 1001, 4000, 3999, 4001, 60000, rng.randrange(1, 10**7)])
    return nl, syncs


def sami_lang_ps(syncs, li):
    return [[pad, ms, present[li]] for (pad, ms, present) in syncs if li in present]


def sami_doc(nl, syncs, starts):
    """starts: rendered start strings, one per sync"""
    css = "\n".join(".%s {Name: L%d; lang: %s; SAMI_Type: CC;}" % (cls, i, lang)
                    for i, (cls, lang) in enumerate(SAMI_LANGS[:nl]))
    out = ['<SAMI><HEAD><TITLE>t</TITLE><STYLE TYPE="text/css"><!--\nP { margin-left: 1pt; }\n%s\n--></STYLE></HEAD><BODY>' % css]
    for (pad, ms, present), st in zip(syncs, starts):
        ps = "".join("<P class=%s>%s</P>" % (SAMI_LANGS[li][0], ("text %d %d" % (ms, li)) if txt else "&nbsp;")
                     for li, txt in sorted(present.items()))
        out.append("<SYNC start=%s>%s</SYNC>" % (st, ps))
    out.append("</BODY></SAMI>")
    return "\n".join(out)
