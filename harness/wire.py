"""Wire format shared with coq/lib/Sx.v, and the oracle subprocess wrapper."""
import os
import subprocess
from fractions import Fraction

VERIF = os.path.dirname(os.path.dirname(os.path.abspath(__file__)))
ORACLE_BIN = os.path.join(VERIF, "bin", "oracle")


class Some:
    __slots__ = ("v",)

    def __init__(self, v):
        self.v = v


class Ok:
    __slots__ = ("v",)

    def __init__(self, v):
        self.v = v

    def __repr__(self):
        return f"Ok({self.v!r})"

    def __eq__(self, o):
        return isinstance(o, Ok) and o.v == self.v


class Err:
    __slots__ = ("code",)

    def __init__(self, code):
        self.code = code

    def __repr__(self):
        return f"Err({self.code})"

    def __eq__(self, o):
        return isinstance(o, Err) and o.code == self.code


def enc(x, out):
    """Append the flat encoding of python value x to list out."""
    if isinstance(x, bool):
        out.append(0)
        out.append(1 if x else 0)
    elif isinstance(x, int):
        out.append(0)
        out.append(x)
    elif isinstance(x, str):
        out.append(2)
        out.append(len(x))
        out.extend(map(ord, x))
    elif x is None:
        out.append(1)
        out.append(0)
    elif isinstance(x, Some):
        out.append(1)
        out.append(1)
        enc(x.v, out)
    elif isinstance(x, Fraction):
        out.extend((1, 2, 0, x.numerator, 0, x.denominator))
    elif isinstance(x, Ok):
        out.extend((1, 2, 0, 0))
        enc(x.v, out)
    elif isinstance(x, Err):
        out.extend((1, 2, 0, 1, 0, x.code))
    elif isinstance(x, (list, tuple)):
        out.append(1)
        out.append(len(x))
        for y in x:
            enc(y, out)
    else:
        raise TypeError(f"cannot encode {type(x)}")


def encode_line(code, arg):
    out = [1, 2, 0, code]
    enc(arg, out)
    return " ".join(map(str, out))


def dec(toks, i):
    t = toks[i]
    if t == 0:
        return toks[i + 1], i + 2
    if t == 2:
        n = toks[i + 1]
        return "".join(map(chr, toks[i + 2:i + 2 + n])), i + 2 + n
    if t == 1:
        n = toks[i + 1]
        i += 2
        res = []
        for _ in range(n):
            v, i = dec(toks, i)
            res.append(v)
        return res, i
    raise ValueError("bad wire tag %r" % (t,))


def decode_line(line):
    toks = list(map(int, line.split()))
    v, i = dec(toks, 0)
    if i != len(toks):
        raise ValueError("trailing tokens")
    return v


BAD = [-1]


def oracle_batch(requests, chunk=20000):
    """requests: list of (code, arg). Returns the list of decoded responses."""
    res = []
    for k in range(0, len(requests), chunk):
        lines = "\n".join(encode_line(c, a) for c, a in requests[k:k + chunk]) + "\n"
        p = subprocess.run([ORACLE_BIN], input=lines, capture_output=True, text=True)
        if p.returncode != 0:
            raise RuntimeError("oracle failed: " + p.stderr[-2000:])
        outl = p.stdout.splitlines()
        if len(outl) != len(requests[k:k + chunk]):
            raise RuntimeError("oracle returned %d lines for %d requests" % (len(outl), len(requests[k:k + chunk])))
        res.extend(decode_line(l) for l in outl)
    return res


def oracle1(code, arg):
    return oracle_batch([(code, arg)])[0]


# decoding helpers ----------------------------------------------------------
def r_result(x, f=lambda v: v):
    """wire (0 v)/(1 code) -> Ok/Err"""
    if x[0] == 0:
        return Ok(f(x[1]))
    return Err(x[1])


def r_opt(x, f=lambda v: v):
    return None if x == [] else f(x[0])


def r_q(x):
    return Fraction(x[0], x[1])
