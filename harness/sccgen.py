"""Independent CEA-608 / SCC encoder used by the SCC reader checks (C05 C06 C15 C16).

Written from the CEA-608 code assignments, NOT from pycaption's tables: a byte is 7 data bits + odd parity;
basic characters are ASCII except ten positions; a preamble address code is (row pair byte, 0x40/0x60 + attribute);
miscellaneous control codes are 0x14 0x20..0x2f; tab offsets 0x17 0x21..0x23; mid-row codes 0x11 0x20..0x2f;
special characters 0x11 0x30..0x3f; extended characters 0x12/0x13 0x20..0x3f.
"""


def par(b):
    """set bit 7 so that the byte has odd parity"""
    b &= 0x7f
    return b | 0x80 if bin(b).count("1") % 2 == 0 else b


def w2(hi, lo):
    return "%02x%02x" % (par(hi), par(lo))


# the ten basic-set positions that are not ASCII
BASIC_EXC = {"á": 0x2a, "é": 0x5c, "í": 0x5e, "ó": 0x5f, "ú": 0x60, "ç": 0x7b, "÷": 0x7c, "Ñ": 0x7d, "ñ": 0x7e}
_EXC_POS = set(BASIC_EXC.values()) | {0x7f}
BASIC_CHARS = [chr(o) for o in range(0x20, 0x7f) if o not in _EXC_POS] + list(BASIC_EXC)


def basic_byte(ch):
    if ch in BASIC_EXC:
        return par(BASIC_EXC[ch])
    o = ord(ch)
    if not (0x20 <= o < 0x7f) or o in _EXC_POS:
        raise ValueError("not a basic 608 character: %r" % ch)
    return par(o)


def text_words(s):
    """basic characters -> code words, an odd tail padded with the filler 0x80"""
    bs = [basic_byte(c) for c in s]
    if len(bs) % 2:
        bs.append(0x80)
    return ["%02x%02x" % (bs[i], bs[i + 1]) for i in range(0, len(bs), 2)]


# row -> (first byte, second-byte base)
ROW_CODE = {1: (0x11, 0x40), 2: (0x11, 0x60), 3: (0x12, 0x40), 4: (0x12, 0x60), 5: (0x15, 0x40), 6: (0x15, 0x60),
            7: (0x16, 0x40), 8: (0x16, 0x60), 9: (0x17, 0x40), 10: (0x17, 0x60), 11: (0x10, 0x40),
            12: (0x13, 0x40), 13: (0x13, 0x60), 14: (0x14, 0x40), 15: (0x14, 0x60)}


def pac(row, indent=0, underline=False, italics=False, color=0):
    """preamble address code: indent in {0,4,..,28} (white), or colour 0..6 / italics at indent 0"""
    hi, base = ROW_CODE[row]
    u = 1 if underline else 0
    if italics:
        lo = base + 0x0e + u
    elif indent:
        assert indent % 4 == 0 and 0 < indent <= 28
        lo = base + 0x10 + (indent // 4) * 2 + u
    else:
        lo = base + color * 2 + u
    return w2(hi, lo)


def tab(n):
    assert n in (1, 2, 3)
    return w2(0x17, 0x20 + n)


def ctrl(code):
    return w2(0x14, code)


RCL, BS, DER, RU2, RU3, RU4, FON, RDC, TR, RTD, EDM, CR, ENM, EOC = [
    ctrl(c) for c in (0x20, 0x21, 0x24, 0x25, 0x26, 0x27, 0x28, 0x29, 0x2a, 0x2b, 0x2c, 0x2d, 0x2e, 0x2f)]


def midrow(attr):
    """0..13: colours (even) / underline (odd), 14 italics, 15 italics underline"""
    return w2(0x11, 0x20 + attr)


MID_ITALICS = midrow(14)
MID_PLAIN = midrow(0)


def special(i):
    return w2(0x11, 0x30 + i)


def extended(group, i):
    """group 0: Spanish/French/misc (0x12), group 1: Portuguese/German/Danish (0x13); i in 0..31"""
    return w2(0x12 + group, 0x20 + i)


def timecode(frames_total, drop):
    """frame count at 30 frames per timecode second -> hh:mm:ss:ff (non-drop ':') or hh:mm:ss;ff"""
    f = frames_total % 30
    s = frames_total // 30
    return "%02d:%02d:%02d%s%02d" % (s // 3600, (s // 60) % 60, s % 60, ";" if drop else ":", f)


HEADER = "Scenarist_SCC V1.0"


def doc(lines):
    """lines: list of (timecode string, list of words)"""
    return HEADER + "\n\n" + "".join(tc + "\t" + " ".join(ws) + "\n\n" for tc, ws in lines)


def dbl(ws, doubled):
    """control codes doubled (broadcast style) or single"""
    out = []
    for x in ws:
        out.append(x)
        if doubled:
            out.append(x)
    return out


# ---- CEA-608 special / extended character sets (independent transcription, same order as the code assignments) ----
SPECIAL_608 = ["®", "°", "½", "¿", "™", "¢", "£", "♪", "à", " ", "è", "â", "ê", "î", "ô", "û"]
EXT1_608 = ["Á", "É", "Ó", "Ú", "Ü", "ü", "‘", "¡", "*", "’", "—", "©", "℠", "•", "“", "”",
            "À", "Â", "Ç", "È", "Ê", "Ë", "ë", "Î", "Ï", "ï", "Ô", "Ù", "ù", "Û", "«", "»"]
EXT2_608 = ["Ã", "ã", "Í", "Ì", "ì", "Ò", "ò", "Õ", "õ", "{", "}", "\\", "^", "_", "¦", "~",
            "Ä", "ä", "Ö", "ö", "ß", "¥", "¤", "|", "Å", "å", "Ø", "ø", "┌", "┐", "└", "┘"]
BASIC_VISIBLE = [c for c in BASIC_CHARS if c != " "]


def rand_tokens(rng, n, p_special=0.08, p_ext=0.08, p_space=0.12, p_nonascii=0.12, p_mid=0.0, p_bs=0.0,
                blank_ends=0.0, sp9=False):
    """n displayed cells drawn from EVERY code of the three character tables.
    token = basic character | ('sp', i) | ('ext', stand-in, group, i) | ('mid', a) | ('bs',)
    p_mid: mid-row codes (one blank cell, rendered as a space or not at all); p_bs: a character followed by a backspace
    (no cell); blank_ends: probability of a blank as first / last cell and of double blanks; sp9: allow the transparent
    space (special code 9, a blank)."""
    toks = []
    prev = None
    k = 0
    while k < n:
        r = rng.random()
        edge = k == 0 or k == n - 1
        if r < p_special:
            i = rng.choice([j for j in range(16) if j != 9 or (sp9 and not edge)])
            if prev == ("sp", i):                 # an immediately repeated special code is one character (608)
                i = (i + 1) % 16 if (i + 1) % 16 != 9 else 10
            t = ("sp", i)
        elif r < p_special + p_ext:
            t = ("ext", rng.choice(BASIC_VISIBLE), rng.randint(0, 1), rng.randint(0, 31))
        elif r < p_special + p_ext + p_space and ((0 < k < n - 1 and (prev != " " or rng.random() < blank_ends))
                                                  or (edge and n > 1 and rng.random() < blank_ends)):
            t = " "
        elif r < p_special + p_ext + p_space + p_nonascii:
            t = rng.choice(list(BASIC_EXC))
        elif r < p_special + p_ext + p_space + p_nonascii + p_mid and 0 < k and prev not in (" ",) and k < n - 1:
            t = ("mid", rng.choice([14, 14, 15, 0, 0, 1, rng.randint(0, 15)]))
        elif r < p_special + p_ext + p_space + p_nonascii + p_mid + p_bs:
            toks.append(rng.choice(BASIC_VISIBLE))            # a character that is erased again: no cell
            toks.append(("bs",))
            prev = ("bs",)
            continue
        else:
            t = rng.choice(BASIC_VISIBLE)
        toks.append(t)
        prev = t
        k += 1
    if toks and all(t == " " for t in toks):
        toks[0] = "x"
    return toks


def tokens_cells(toks):
    """cells of the 608 screen row: characters, None for the blank cell of a mid-row code"""
    cells = []
    for t in toks:
        if isinstance(t, str):
            cells.append(t)
        elif t[0] == "sp":
            cells.append(SPECIAL_608[t[1]])
        elif t[0] == "ext":
            cells.append((EXT1_608 if t[2] == 0 else EXT2_608)[t[3]])
        elif t[0] == "mid":
            cells.append(None)
        elif t[0] == "bs":
            if cells:
                cells.pop()
    return cells


def tokens_bounds(toks):
    """(shortest, longest) text a reader may show: a mid-row blank is a space or nothing; trailing blanks are not shown"""
    cells = tokens_cells(toks)
    lo = "".join(c for c in cells if c is not None).rstrip()
    hi = "".join(" " if c is None else c for c in cells).rstrip()
    return lo, hi


def tokens_text(toks):
    """what a 608 screen shows for the tokens (mid-row blank shown as a space)"""
    return "".join(" " if c is None else c for c in tokens_cells(toks))


def tokens_words(toks, doubled):
    """code words: basic characters in pairs (padded before a code / at the end); special, extended, mid-row and backspace
    codes doubled when `doubled` (a bool, or a callable deciding per code); an extended character follows its stand-in"""
    dd = doubled if callable(doubled) else (lambda: doubled)
    ws = []
    run = ""
    for t in toks:
        if isinstance(t, str):
            run += t
            continue
        if t[0] == "ext":
            run += t[1]
        ws += text_words(run)
        run = ""
        code = {"sp": lambda: special(t[1]), "ext": lambda: extended(t[2], t[3]), "mid": lambda: midrow(t[1]),
                "bs": lambda: BS}[t[0]]()
        ws += dbl([code], dd())
    ws += text_words(run)
    return ws


def pac_indent0(row, underline=False):
    """wave 7: the INDENT form of the preamble address code with indent 0 (attribute 16 / 17: second byte 0x50 / 0x70
    before parity) - white, column 0, like pac(row) but a different code word; the form pycaption's SCCWriter emits"""
    hi, base = ROW_CODE[row]
    return w2(hi, base + 0x10 + (1 if underline else 0))
