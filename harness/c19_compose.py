"""C19 streams 3 and 4 (wave 7): laws of adjust_caption_timing and merge_concurrent_captions, executed on the real code.

Stream 3 (composition): adjust(skew1, off1) followed by adjust(skew2, off2) on the real CaptionSet is compared with the
extracted model of the two steps AND with the single adjust (skew1*skew2, off1*skew2+off2) on the survivors of the first
step (request 1906; equal by C19_adjust_compose).

Stream 4 (merge laws, request 1907): on the same kind of sets, with runs of equal spans and (10 %) node lists emptied
after construction:
  * the guard merge_accepts (spec/SpecBase.v) against "merge_concurrent_captions does not raise"  (outside the
    statement's domain: compared and COUNTED, never alarmed on);
  * inside the domain: the text of every language (node values in order, line breaks left out) is unchanged by merge
    (C19_merge_keeps_text), and - when the skew is non-zero and adjust drops nothing -
    merge(adjust(set)) = adjust(merge(set)) = the model's value (C19_merge_adjust_commute).

All numbers are chosen so that binary64 arithmetic is exact (integer times below 2^31, skews and offsets dyadic with few
bits): every comparison is exact equality of rationals, no tolerance, no optional captions.
A case is a JSON value {"langs": [[[start, end, number of nodes, emptied?], ...], ...], ...} so that every violation has
a replay file.
"""
from fractions import Fraction
from pycaption import CaptionSet, CaptionList, Caption, CaptionNode
from pycaption.base import merge_concurrent_captions
import impl
from wire import Ok, Err, oracle_batch, oracle1, r_q, r_result

SKEWS = [0.25, 0.5, 0.75, 1, 1.0, 1.5, 2, 2.5, 3, 4]
LANGS = ["en-US", "fr", "de"]


def fr(x):
    return Fraction(x) if isinstance(x, int) else Fraction(*x.as_integer_ratio())


def gen(rng, runs=False, emptied=0.0):
    langs = []
    for li in range(rng.choice([1, 1, 2, 3])):
        caps = []
        span = None
        for _ in range(rng.randint(0, 7)):
            if not (runs and span is not None and rng.random() < 0.45):
                s = rng.choice([0, 1, rng.randrange(-2 ** 20, 2 ** 30), rng.randrange(0, 2 ** 30), rng.randrange(0, 10 ** 7)])
                span = (s, s + rng.choice([0, 1, 1000, rng.randrange(0, 2 ** 24)]))
                if runs and caps and rng.random() < 0.2:
                    span = (caps[0][0], caps[0][1])           # revisit an earlier span (A B A)
            caps.append([span[0], span[1], rng.randint(1, 3), bool(rng.random() < emptied)])
        langs.append(caps)
    return langs


def build(langs):
    """-> CaptionSet, wire value (node values = running index, -1 for a break), names by id"""
    nid = 0
    d, vals, names = {}, [], {}
    for li, caps in enumerate(langs):
        cl, vl = [], []
        for (s, e, nn, emptied) in caps:
            nodes = []
            ids = []
            for k in range(nn):
                if k and k % 2 == 0:
                    nodes.append(CaptionNode.create_break())
                    ids.append(-1)
                n = CaptionNode.create_text("n%d" % nid)
                names[id(n)] = nid
                ids.append(nid)
                nodes.append(n)
                nid += 1
            c = Caption(s, e, nodes)
            if emptied:
                c.nodes = []
                ids = []
            cl.append(c)
            vl.append([Fraction(s), Fraction(e), ids])
        d[LANGS[li]] = CaptionList(cl)
        vals.append(vl)
    return CaptionSet(d), vals, names


def observe(cs, nlangs, names):
    return [[[fr(c.start), fr(c.end), [(-1 if n.type_ == CaptionNode.BREAK else names.get(id(n), -2)) for n in c.nodes]]
             for c in cs.get_captions(LANGS[i])] for i in range(nlangs)]


def dec(x):
    return [[[r_q(c[0]), r_q(c[1]), c[2]] for c in lang] for lang in x]


def gen_off(rng, langs, sk):
    starts = [c[0] for l in langs for c in l]
    r = rng.random()
    if starts and r < 0.4:                      # the exact negative of a retimed start (lands on 0), or next to it
        return float(-(Fraction(rng.choice(starts)) * fr(sk)) + rng.choice([0, 0, 0.25, -0.25, 1, -1]))
    if r < 0.6:
        return rng.choice([0, 0.5, -0.5, 1000, -1000, 2 ** 20, -2 ** 20])
    return rng.randrange(-2 ** 28, 2 ** 28) / rng.choice([1, 2, 4])


# ---------------------------------------------------------------------------------------------- stream 3
def compose_request(case):
    cs, vals, names = build(case["langs"])
    return (1906, [fr(case["sk1"]), fr(case["off1"]), fr(case["sk2"]), fr(case["off2"]), vals])


def eval_compose(case, resp=None):
    """-> (violation or None, disagreement or None, info)"""
    cs, vals, names = build(case["langs"])
    r = impl.call(lambda: (cs.adjust_caption_timing(offset=case["off1"], rate_skew=case["sk1"]),
                           cs.adjust_caption_timing(offset=case["off2"], rate_skew=case["sk2"])))
    base = {"input": case, "op": "compose", "replay": "compose"}
    if not isinstance(r, Ok):
        return dict(base, kind="adjust-raises", what="adjust_caption_timing raised when applied twice"), None, {}
    obs = observe(cs, len(vals), names)
    if resp is None:
        resp = oracle1(*compose_request(case))
    if resp == [-1]:
        return None, {"what": "request 1906 rejected", "input": case}, {}
    two, one = dec(resp[0]), dec(resp[1])
    info = {"n_in": sum(len(l) for l in vals), "n_out": sum(len(l) for l in obs)}
    if two != one:      # contradicts C19_adjust_compose: extraction / wire broken
        return None, {"what": "model: two adjusts differ from the composed adjust", "input": case}, info
    if obs != two:
        return dict(base, kind="adjust-compose-wrong",
                    what="adjust(%r,%r) then adjust(%r,%r): the set differs from t -> (t*s1+o1)*s2+o2 on the captions with "
                         "non-negative intermediate and final start (exact binary64 arithmetic, no tolerance)"
                         % (case["sk1"], case["off1"], case["sk2"], case["off2"]),
                    observed=repr(obs), expected=repr(two)), None, info
    return None, None, info


# ---------------------------------------------------------------------------------------------- stream 4
def laws_request(case):
    cs, vals, names = build(case["langs"])
    return (1907, [fr(case["sk"]), fr(case["off"]), vals])


def text_of(lang):
    return [n for c in lang for n in c[2] if n != -1]


def eval_laws(case, resp=None):
    """-> (violation or None, disagreement or None, info)"""
    if resp is None:
        resp = oracle1(*laws_request(case))
    if resp == [-1]:
        return None, {"what": "request 1907 rejected", "input": case}, {}
    accepts = [a == 1 for a in resp[0]]
    nothing_dropped = resp[1] == 1
    model_commuted = r_result(resp[2], dec)
    in_domain = not any(c[3] for l in case["langs"] for c in l)
    base = {"input": case, "op": "laws", "replay": "laws"}
    info = {"in_domain": in_domain, "accepted": all(accepts), "commute_checked": False}
    cs, vals, names = build(case["langs"])
    n = len(vals)
    r = impl.call(lambda: merge_concurrent_captions(cs))
    info["raised"] = isinstance(r, Err)
    if not in_domain and (isinstance(r, Err) or not all(accepts)):
        return None, None, info        # outside the statement and rejected: the guard is compared by the caller
    if isinstance(r, Err):
        return dict(base, kind="merge-raises", what="merge_concurrent_captions raised on captions built by Caption()"), None, info
    merged = r.v if isinstance(r.v, CaptionSet) else cs
    obs = observe(merged, n, names)
    for li in range(n):
        if text_of(obs[li]) != text_of(vals[li]):
            return dict(base, kind="merge-changes-text",
                        what="the node values of language %d in order (line breaks left out) differ after merge" % li,
                        observed=repr(text_of(obs[li])), expected=repr(text_of(vals[li]))), None, info
    if fr(case["sk"]) != 0 and nothing_dropped and isinstance(model_commuted, Ok):
        info["commute_checked"] = True
        r2 = impl.call(lambda: merged.adjust_caption_timing(offset=case["off"], rate_skew=case["sk"]))
        am = observe(merged, n, names)                          # adjust(merge(set))
        cs2, _, names2 = build(case["langs"])
        r3 = impl.call(lambda: cs2.adjust_caption_timing(offset=case["off"], rate_skew=case["sk"]))
        r4 = impl.call(lambda: merge_concurrent_captions(cs2))
        if not all(isinstance(x, Ok) for x in (r2, r3, r4)):
            return dict(base, kind="merge-raises", what="adjust / merge raised in the commutation check"), None, info
        m2 = r4.v if isinstance(r4.v, CaptionSet) else cs2
        ma = observe(m2, n, names2)                             # merge(adjust(set))
        if am != ma or am != model_commuted.v:
            return dict(base, kind="merge-adjust-do-not-commute",
                        what="skew %r <> 0, offset %r, nothing dropped: merge(adjust(set)), adjust(merge(set)) and the model's "
                             "value are not all equal (exact arithmetic)" % (case["sk"], case["off"]),
                        adjust_of_merge=repr(am), merge_of_adjust=repr(ma), model=repr(model_commuted.v)), None, info
    return None, None, info


def bump(d, k, n=1):
    d[k] = d.get(k, 0) + n


def run_compose(ctx, res):
    rng = ctx.rng
    dist = res["distribution"]
    cases = []
    for _ in range(ctx.n(400, 10000)):
        langs = gen(rng)
        sk1, sk2 = rng.choice(SKEWS), rng.choice(SKEWS)
        cases.append({"langs": langs, "sk1": sk1, "off1": gen_off(rng, langs, sk1), "sk2": sk2, "off2": gen_off(rng, langs, sk2)})
    for case, resp in zip(cases, oracle_batch([compose_request(c) for c in cases])):
        res["evaluations"] += 1
        v, d, info = eval_compose(case, resp)
        bump(dist, "compose_cases")
        if info.get("n_out", 0) < info.get("n_in", 0):
            bump(dist, "compose_cases_with_a_dropped_caption")
        if info.get("n_out") and (case["sk1"] != 1 or case["sk2"] != 1):
            res["nontrivial"].add(("compose", repr(case)))
        if v:
            res["violations"].append(v)
        if d:
            res["disagreements"].append(d)
    # stream 4
    cases = []
    for i in range(ctx.n(500, 12000)):
        langs = gen(rng, runs=True, emptied=(0.25 if i % 10 == 0 else 0.0))
        sk = rng.choice(SKEWS)
        off = gen_off(rng, langs, sk) if rng.random() < 0.5 else abs(gen_off(rng, langs, sk)) + 2 ** 21
        cases.append({"langs": langs, "sk": sk, "off": off})
    for case, resp in zip(cases, oracle_batch([laws_request(c) for c in cases])):
        res["evaluations"] += 1
        v, d, info = eval_laws(case, resp)
        bump(dist, "laws_cases")
        if not info.get("in_domain", True):
            # outside the STATEMENT (emptied node lists): no violation possible, but the theorems about merge_accepts and
            # the laws cover these inputs - any difference is a disagreement (model no longer mirrors the code)
            bump(dist, "laws_out_of_domain_emptied_node_list(property not judged; model compared at alarm level)")
            agree = info["raised"] == (not info["accepted"])
            bump(dist, "laws_guard_merge_accepts_agrees_with_the_code", int(agree))
            if not agree:
                d = d or {"what": "guard merge_accepts = %r but the code %s" % (info["accepted"], "raised" if info["raised"] else "did not raise"),
                          "input": case}
            bump(dist, "laws_out_of_domain_rejected", int(info["raised"]))
            if info["accepted"] and not info["raised"]:
                bump(dist, "laws_out_of_domain_accepted_text_and_commutation_checked")
            if v:
                d = d or {"what": "outside the statement (emptied node lists): " + v["what"], "input": case}
                v = None
        else:
            bump(dist, "laws_text_preserved_checked")
            bump(dist, "laws_merge_adjust_commute_checked", int(info.get("commute_checked", False)))
            if any(len(l) > 1 for l in case["langs"]):
                res["nontrivial"].add(("laws", repr(case)))
        if v:
            res["violations"].append(v)
        if d:
            res["disagreements"].append(d)
    if ctx.thorough:
        exhaustive_small_scope(ctx, res)


def exhaustive_small_scope(ctx, res, maxlen=5):
    """thorough tier: EVERY caption list of length <= maxlen over three distinct spans (two sharing the start, two sharing
    the end) x a grid of skews and offsets (offsets that drop nothing, land a start exactly on 0, drop the early spans):
    stream 4 (text kept by merge, merge / adjust commute, guard) and stream 3 (composition with a second fixed step) -
    a complement to the theorems: small scope, but complete."""
    import itertools
    dist = res["distribution"]
    spans = [(1000, 2000), (1000, 3000), (2000, 3000)]
    grid = [(sk, off) for sk in (0.5, 1, 2) for off in (0, 500, -500, -1000, -2000, 4096)]
    cases = []
    for n in range(0, maxlen + 1):
        for combo in itertools.product(range(3), repeat=n):
            langs = [[[spans[i][0], spans[i][1], 1, False] for i in combo]]
            for sk, off in grid:
                cases.append({"langs": langs, "sk": sk, "off": off})
    for case, resp in zip(cases, oracle_batch([laws_request(c) for c in cases])):
        res["evaluations"] += 1
        v, d, info = eval_laws(case, resp)
        bump(dist, "exhaustive_small_scope_laws_cases")
        bump(dist, "exhaustive_small_scope_commute_checked", int(info.get("commute_checked", False)))
        if v:
            res["violations"].append(v)
        if d:
            res["disagreements"].append(d)
    comp = [{"langs": c["langs"], "sk1": c["sk"], "off1": c["off"], "sk2": 2, "off2": -1024} for c in cases]
    for case, resp in zip(comp, oracle_batch([compose_request(c) for c in comp])):
        res["evaluations"] += 1
        v, d, info = eval_compose(case, resp)
        bump(dist, "exhaustive_small_scope_compose_cases")
        if v:
            res["violations"].append(v)
        if d:
            res["disagreements"].append(d)


def replay(rec):
    case = rec["input"]
    v, d, info = eval_compose(case) if rec.get("op") == "compose" else eval_laws(case)
    return v is not None, (v or {}).get("what", "no violation")
