"""C19 stream 3 (wave 7): the composition law of adjust_caption_timing, executed.

adjust_caption_timing(skew1, off1) followed by adjust_caption_timing(skew2, off2) on the real CaptionSet is compared with
the extracted model of the two steps AND with the single adjust (skew1*skew2, off1*skew2+off2) on the survivors of the
first step (request 1906; the two are equal by C19_adjust_compose).  All numbers are chosen so that binary64 arithmetic
is exact (integer times below 2^31, skews and offsets dyadic with few bits): the comparison is exact equality of
rationals, no tolerance, no optional captions.
"""
from fractions import Fraction
from pycaption import CaptionSet, CaptionList, Caption, CaptionNode
import impl
from wire import Ok, oracle_batch, r_q

SKEWS = [0.25, 0.5, 0.75, 1, 1.0, 1.5, 2, 2.5, 3, 4]
LANGS = ["en-US", "fr", "de"]


def fr(x):
    return Fraction(x) if isinstance(x, int) else Fraction(*x.as_integer_ratio())


def gen(rng):
    langs, vals = [], []
    nid = 0
    for li in range(rng.choice([1, 1, 2, 3])):
        caps, vl = [], []
        for _ in range(rng.randint(0, 6)):
            s = rng.choice([0, 1, rng.randrange(-2 ** 20, 2 ** 30), rng.randrange(0, 2 ** 30), rng.randrange(0, 10 ** 7)])
            e = s + rng.choice([0, 1, 1000, rng.randrange(0, 2 ** 24)])
            nodes, ids = [], []
            for k in range(rng.randint(1, 3)):
                nodes.append(CaptionNode.create_text("n%d" % nid))
                ids.append(nid)
                nid += 1
            caps.append(Caption(s, e, nodes))
            vl.append([Fraction(s), Fraction(e), ids])
        langs.append(caps)
        vals.append(vl)
    return langs, vals


def gen_off(rng, vals, sk):
    starts = [c[0] for l in vals for c in l]
    r = rng.random()
    if starts and r < 0.4:                      # the exact negative of a retimed start (lands on 0), or next to it
        return float(-(rng.choice(starts) * fr(sk)) + rng.choice([0, 0, 0.25, -0.25, 1, -1]))
    if r < 0.6:
        return rng.choice([0, 0.5, -0.5, 1000, -1000, 2 ** 20, -2 ** 20])
    return rng.randrange(-2 ** 28, 2 ** 28) / rng.choice([1, 2, 4])


def run_compose(ctx, res):
    rng = ctx.rng
    dist = res["distribution"]
    reqs, items = [], []
    for _ in range(ctx.n(400, 10000)):
        langs, vals = gen(rng)
        sk1, sk2 = rng.choice(SKEWS), rng.choice(SKEWS)
        off1 = gen_off(rng, vals, sk1)
        off2 = gen_off(rng, vals, sk2)
        names = {}
        for l in langs:
            for c in l:
                for n in c.nodes:
                    names[id(n)] = int(n.content[1:])
        cs = CaptionSet({LANGS[i]: CaptionList(l) for i, l in enumerate(langs)})
        r = impl.call(lambda: (cs.adjust_caption_timing(offset=off1, rate_skew=sk1),
                               cs.adjust_caption_timing(offset=off2, rate_skew=sk2)))
        if not isinstance(r, Ok):
            res["violations"].append({"kind": "adjust-raises", "what": "adjust_caption_timing raised on the second application",
                                      "input": repr((vals, sk1, off1, sk2, off2)), "replay": "none"})
            continue
        obs = [[[fr(c.start), fr(c.end), [names.get(id(n), -2) for n in c.nodes]] for c in cs.get_captions(LANGS[i])]
               for i in range(len(langs))]
        reqs.append((1906, [fr(sk1), fr(off1), fr(sk2), fr(off2), vals]))
        items.append((vals, sk1, off1, sk2, off2, obs))
    for (vals, sk1, off1, sk2, off2, obs), r in zip(items, oracle_batch(reqs)):
        res["evaluations"] += 1
        if r == [-1]:
            res["disagreements"].append({"what": "request 1906 rejected", "input": repr(vals)})
            continue
        two = [[[r_q(c[0]), r_q(c[1]), c[2]] for c in lang] for lang in r[0]]
        one = [[[r_q(c[0]), r_q(c[1]), c[2]] for c in lang] for lang in r[1]]
        n_in = sum(len(l) for l in vals)
        n_out = sum(len(l) for l in obs)
        dist["compose_cases"] = dist.get("compose_cases", 0) + 1
        if n_out < n_in:
            dist["compose_cases_with_a_dropped_caption"] = dist.get("compose_cases_with_a_dropped_caption", 0) + 1
        if n_out and (sk1 != 1 or sk2 != 1):
            res["nontrivial"].add(("compose", repr((vals, sk1, off1, sk2, off2))))
        if two != one:      # contradicts C19_adjust_compose: extraction / wire broken
            res["disagreements"].append({"what": "model: two adjusts differ from the composed adjust", "input": repr(vals)})
        if obs != two:
            res["violations"].append({
                "kind": "adjust-compose-wrong", "replay": "none",
                "what": "adjust(%r,%r) then adjust(%r,%r): the set differs from t -> (t*s1+o1)*s2+o2 on the captions with "
                        "non-negative intermediate and final start (exact binary64 arithmetic, no tolerance)" % (sk1, off1, sk2, off2),
                "input": repr(vals), "observed": repr(obs), "expected": repr(two)})
