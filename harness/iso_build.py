"""Construction of caption sets through the public API from an abstract spec (used by the worker on the real heap and
by the harness to compute layout codes).  A fresh object is created at every use: the harness never shares objects
between two sets itself.

spec = {"layout": name|None, "styles": None (argument omitted) | [[selector, {rule: value}], ...],
        "langs": [{"lang": str, "layout": name|None,
                   "caps": [{"start": n, "end": n, "style": None (omitted) | {..}, "layout": name|None,
                             "nodes": [["t", text, layout] | ["b", layout] | ["s", start?, {content}, layout]]}]}]}
"""
from pycaption import CaptionSet, CaptionList, Caption, CaptionNode
from pycaption.geometry import (Layout, Point, Size, Stretch, Padding, Alignment, UnitEnum, HorizontalAlignmentEnum,
                                VerticalAlignmentEnum)

LAYOUT_NAMES = ["rel_fit", "rel_noext", "rel_over", "abs", "abs_em", "abs_pt", "abs_c", "align", "pad", "vtt", "empty"]


def P(v):
    return Size(v, UnitEnum.PERCENT)


def PX(v):
    return Size(v, UnitEnum.PIXEL)


def make_layout(name):
    if name is None:
        return None
    if name == "rel_fit":
        return Layout(origin=Point(P(10), P(10)), extent=Stretch(P(50), P(50)))
    if name == "rel_noext":
        return Layout(origin=Point(P(20), P(30)))
    if name == "rel_over":
        return Layout(origin=Point(P(50), P(60)), extent=Stretch(P(80), P(80)))
    if name == "abs":
        return Layout(origin=Point(PX(64), PX(36)), extent=Stretch(PX(320), PX(180)))
    if name == "abs_em":
        return Layout(origin=Point(Size(2, UnitEnum.EM), Size(1, UnitEnum.EM)),
                      extent=Stretch(Size(20, UnitEnum.EM), Size(4, UnitEnum.EM)))
    if name == "abs_pt":
        return Layout(origin=Point(Size(36, UnitEnum.PT), Size(18, UnitEnum.PT)),
                      extent=Stretch(Size(240, UnitEnum.PT), Size(72, UnitEnum.PT)))
    if name == "abs_c":
        return Layout(origin=Point(Size(4, UnitEnum.CELL), Size(2, UnitEnum.CELL)),
                      extent=Stretch(Size(20, UnitEnum.CELL), Size(5, UnitEnum.CELL)))
    if name == "align":
        return Layout(alignment=Alignment(HorizontalAlignmentEnum.CENTER, VerticalAlignmentEnum.BOTTOM))
    if name == "pad":
        return Layout(origin=Point(P(5), P(5)), extent=Stretch(P(60), P(60)),
                      padding=Padding(P(1), P(2), P(3), P(4)))
    if name == "vtt":
        return Layout(webvtt_positioning="align:left line:10%")
    if name == "empty":
        return Layout()
    raise ValueError(name)


def make_node(n):
    k = n[0]
    if k == "t":
        return CaptionNode.create_text(n[1], layout_info=make_layout(n[2]))
    if k == "b":
        return CaptionNode.create_break(layout_info=make_layout(n[1]))
    if k == "s":
        return CaptionNode.create_style(bool(n[1]), dict(n[2]), layout_info=make_layout(n[3]))
    raise ValueError(k)


def build_set(spec):
    """Internal aliasing (optional keys of a caption spec):
         "same_as": k        the k-th Caption OBJECT built so far is listed again (e.g. one caption under two languages)
         "style_of": k       the caption's style dict IS the style dict of the k-th caption built so far
         "layout_of": k      the caption's layout_info IS the Layout object of the k-th caption built so far
         "node_of": k        the caption's first node IS the first node object of the k-th caption built so far"""
    d = {}
    built = []
    for lg in spec["langs"]:
        caps = []
        for c in lg["caps"]:
            if c.get("same_as") is not None and built:
                caps.append(built[c["same_as"] % len(built)])
                continue
            nodes = [make_node(n) for n in c["nodes"]]
            kw = {}
            if c.get("style") is not None:
                kw["style"] = dict(c["style"])
            if c.get("layout") is not None:
                kw["layout_info"] = make_layout(c["layout"])
            if built:
                if c.get("style_of") is not None:
                    kw["style"] = built[c["style_of"] % len(built)].style
                if c.get("layout_of") is not None:
                    kw["layout_info"] = built[c["layout_of"] % len(built)].layout_info
                if c.get("node_of") is not None:
                    nodes[0] = built[c["node_of"] % len(built)].nodes[0]
            cap = Caption(c["start"], c["end"], nodes, **kw)
            built.append(cap)
            caps.append(cap)
        d[lg["lang"]] = CaptionList(caps, layout_info=make_layout(lg.get("layout")))
    kw = {}
    if spec.get("styles") is not None:
        kw["styles"] = {sel: dict(rules) for sel, rules in spec["styles"]}
        if spec.get("styles_alias") and built and kw["styles"]:
            # a set-level rules dict IS a caption's style dict
            sel = sorted(kw["styles"])[0]
            kw["styles"][sel] = built[0].style
    if spec.get("layout") is not None:
        kw["layout_info"] = make_layout(spec["layout"])
    return CaptionSet(d, **kw)
