"""Access to the implementation under test (imported from $VERIF_REPO, default /repo)."""
import os
import sys
import signal
import warnings

REPO = os.environ.get("VERIF_REPO", "/repo")
if sys.path[0] != REPO:
    sys.path.insert(0, REPO)
warnings.filterwarnings("ignore")

import pycaption  # noqa: E402
from pycaption import exceptions as _ex  # noqa: E402

assert os.path.realpath(os.path.dirname(os.path.dirname(pycaption.__file__))) == os.path.realpath(REPO), \
    (pycaption.__file__, REPO)

from wire import Ok, Err  # noqa: E402

ERR_CODES = [
    (_ex.CaptionReadNoCaptions, 1), (_ex.CaptionReadSyntaxError, 2), (_ex.CaptionReadTimingError, 3),
    (_ex.CaptionLineLengthError, 4), (_ex.RelativizationError, 5), (_ex.InvalidInputError, 6),
    (NotImplementedError, 7), (IndexError, 101), (KeyError, 102), (ValueError, 103),
    (AttributeError, 104), (TypeError, 105),
]


class CallTimeout(Exception):
    pass


def _alarm(signum, frame):
    raise CallTimeout()


def err_code(e):
    for cls, code in ERR_CODES:
        if type(e) is cls:
            return code
    for cls, code in ERR_CODES:
        if isinstance(e, cls):
            return code
    if isinstance(e, CallTimeout):
        return 108
    return 109


ERR_NAMES = {1: "CaptionReadNoCaptions", 2: "CaptionReadSyntaxError", 3: "CaptionReadTimingError",
             4: "CaptionLineLengthError", 5: "RelativizationError", 6: "InvalidInputError",
             7: "NotImplementedError", 8: "OutOfFuel(model)", 101: "IndexError", 102: "KeyError",
             103: "ValueError", 104: "AttributeError", 105: "TypeError", 108: "Timeout", 109: "OtherException"}


def call(f, *a, timeout=20, **k):
    """Run f; return Ok(value) or Err(code). `last_exc` keeps the last exception for messages."""
    global last_exc
    old = signal.signal(signal.SIGALRM, _alarm)
    signal.alarm(timeout)
    try:
        return Ok(f(*a, **k))
    except BaseException as e:  # noqa
        if isinstance(e, (KeyboardInterrupt, SystemExit)):
            raise
        last_exc = e
        return Err(err_code(e))
    finally:
        signal.alarm(0)
        signal.signal(signal.SIGALRM, old)


last_exc = None
