"""Full observation of SCCReader.read and of the extracted decoder model (request 600), in one canonical form.

caption = [start, end, nodes, layout]      start/end exact Fractions
node    = [0, text, x, y] | [1, x, y] | [2, on, x, y]      x, y = layout origin in percent (Fractions) or None
layout  = [x, y] of the caption or None
Result  = Ok([caption]) | Err(code) | ("len", message)
"""
from fractions import Fraction

import impl
from wire import Ok, Err, oracle_batch, r_q
from pycaption import SCCReader, CaptionNode

TOL_T = Fraction(1, 1024)          # microseconds
TOL_L = Fraction(1, 10**9)         # percent


def exact(x):
    if isinstance(x, bool):
        raise TypeError("bool is not a number here")
    if isinstance(x, int):
        return Fraction(x)
    return Fraction(*x.as_integer_ratio())


def layout_xy(li):
    """Layout -> [x%, y%, ok] ; ok = percent units, alignment (left, top), nothing else set"""
    if li is None:
        return None
    o = li.origin
    val = lambda e: getattr(e, "value", e)
    # the property fixes the ORIGIN (percent of the safe area); alignment / extent / padding are not part of it
    good = o is not None and val(o.x.unit) == "%" and val(o.y.unit) == "%"
    return [exact(o.x.value), exact(o.y.value)] if good else ["bad-layout", repr(li)]


def canon_caption(c):
    nodes = []
    for n in c.nodes:
        xy = layout_xy(n.layout_info) or [None, None]
        if n.type_ == CaptionNode.TEXT:
            nodes.append([0, n.content] + xy)
        elif n.type_ == CaptionNode.BREAK:
            nodes.append([1] + xy)
        else:
            italic = isinstance(n.content, dict) and n.content == {"italics": True}
            nodes.append([2, bool(n.start) if italic else ("bad-style", repr(n.content))] + xy)
    return [exact(c.start), exact(c.end), nodes, layout_xy(c.layout_info)]


def observe(stream, offset=0, lang=None, history=None, outcomes=None):
    """read `stream` with the public API. history = [(stream, kwargs), ...]: earlier reads on the SAME reader object
    (whatever they return or raise); lang: the `lang` option (the captions are fetched under whatever language the
    returned set carries); outcomes: list that receives how each earlier read ended"""
    reader = SCCReader()
    for hs, hkw in history or ():
        hr = impl.call(lambda: reader.read(hs, **hkw))
        if outcomes is not None:
            outcomes.append("returned" if isinstance(hr, Ok) else type(impl.last_exc).__name__)
    kw = {} if lang is None else {"lang": lang}
    r = impl.call(lambda: reader.read(stream, offset=offset, **kw))
    if isinstance(r, Err):
        if r.code == 4:
            return ("len", str(impl.last_exc.args[0]))
        return r
    langs = r.v.get_languages()
    return Ok([canon_caption(c) for c in r.v.get_captions(langs[0])])


import re as _re
_LINE = _re.compile(r"([0-9:;]*)([\s\t]*)((.)*)")


def parse_lines(stream):
    """the reader's own tokenisation of the text (SCCReader.read / _translate_line): splitlines, first line skipped,
    blank lines ignored, lower-cased, timecode = leading [0-9:;]*, words = the rest split at single blanks, stripped,
    only 4-character tokens count; tokens that are not hexadecimal are code words that mean nothing (here 0)"""
    out = []
    for line in stream.splitlines()[1:]:
        if line.strip() == "":
            continue
        m = _LINE.findall(line.lower())[0]
        ws = []
        for w in m[2].split(" "):
            w = w.strip()
            if len(w) == 4:
                try:
                    ws.append(int(w, 16))
                except ValueError:
                    ws.append(0)
        out.append([m[0], ws])
    return out


_LAYOUT = {}


def layout_table():
    """(row, col) -> [x, y] from the Coq spec function layout_of_pos (request 500), fetched once"""
    if not _LAYOUT:
        rows = oracle_batch([(500, [])])[0]
        for r, c, x, y in rows:
            _LAYOUT[(r, c)] = [r_q(x), r_q(y)]
    return _LAYOUT


def xy_of(row, col):
    t = layout_table()
    if (row, col) in t:
        return t[(row, col)]
    # outside the 15 x 32 grid (a tab offset beyond column 31): the same linear formula
    return [Fraction(80 * col, 32) + 10, Fraction(90 * (row - 1), 15) + 5]


def dec_model(x):
    if x[0] == 2:
        return ("len", x[1])
    if x[0] == 1:
        return Err(x[1])
    caps = []
    for c in x[1]:
        nodes = []
        for n in c[2]:
            if n[0] == 0:
                nodes.append([0, n[1]] + xy_of(n[2], n[3]))
            elif n[0] == 1:
                nodes.append([1] + xy_of(n[1], n[2]))
            else:
                nodes.append([2, bool(n[1])] + xy_of(n[2], n[3]))
        caps.append([r_q(c[0]), r_q(c[1]), nodes, xy_of(*c[3][0]) if c[3] else None])
    return Ok(caps)


def model_batch(cases):
    """cases: list of (stream text, offset) -> list of model results: read offset (tokenise text), request 605 (the
    text front end - splitlines, lower-casing, timecode field, tokens - is the Coq model model/SccTokenise.v; the Python
    copy parse_lines below is kept only as a cross-check, see tokeniser_agrees)"""
    reqs = [(605, [exact(off) * 1000000, s]) for s, off in cases]         # the text goes through the Coq tokeniser
    return [dec_model(x) for x in oracle_batch(reqs)]


def _num_close(a, b, tol):
    if a is None or b is None or isinstance(a, str) or isinstance(b, str):
        return a == b
    return abs(a - b) <= tol


def same(a, b, times=True, layout=True):
    """compare two results; returns None if equal else a short description of the first difference"""
    if isinstance(a, tuple) or isinstance(b, tuple) or isinstance(a, Err) or isinstance(b, Err):
        return None if a == b else f"outcome {a!r} vs {b!r}"[:300]
    if len(a.v) != len(b.v):
        return f"{len(a.v)} captions vs {len(b.v)}"
    for i, (x, y) in enumerate(zip(a.v, b.v)):
        if times and not (_num_close(x[0], y[0], TOL_T) and _num_close(x[1], y[1], TOL_T)):
            return f"caption {i}: times {x[0]},{x[1]} vs {y[0]},{y[1]}"
        if len(x[2]) != len(y[2]):
            return f"caption {i}: nodes {x[2]!r} vs {y[2]!r}"[:400]
        for n, m in zip(x[2], y[2]):
            if n[0] != m[0] or (n[0] in (0, 2) and n[1] != m[1]):
                return f"caption {i}: node {n!r} vs {m!r}"[:300]
            if layout and not (_num_close(n[-2], m[-2], TOL_L) and _num_close(n[-1], m[-1], TOL_L)):
                return f"caption {i}: node layout {n!r} vs {m!r}"[:300]
        if layout:
            if (x[3] is None) != (y[3] is None) or (x[3] and not (_num_close(x[3][0], y[3][0], TOL_L)
                                                                  and _num_close(x[3][1], y[3][1], TOL_L))):
                return f"caption {i}: layout {x[3]!r} vs {y[3]!r}"
    return None


def cap_text(c):
    return "".join(n[1] if n[0] == 0 else ("\n" if n[0] == 1 else "") for n in c[2])


def view(res):
    """the observation at the level C05 fixes: per caption its lines of (character, italic) with blanks at line ends
    dropped, and its origin; errors as they are"""
    if isinstance(res, tuple) or isinstance(res, Err):
        return res
    caps = []
    for c in res.v:
        lines, cur, it = [], [], False
        for n in c[2]:
            if n[0] == 0:
                cur += [(ch, it) for ch in n[1]]
            elif n[0] == 1:
                lines.append(cur)
                cur = []
            else:
                it = n[1] is True
        lines.append(cur)
        norm = []
        for l in lines:
            while l and l[-1][0].isspace():
                l = l[:-1]
            norm.append([(ch, f if not ch.isspace() else None) for ch, f in l])
        caps.append((norm, c[3]))
    return Ok(caps)


def same_view(a, b):
    """compare two results at the `view` level; None if equal else a description"""
    va, vb = view(a), view(b)
    if not isinstance(va, Ok) or not isinstance(vb, Ok):
        return None if va == vb else f"outcome {va!r} vs {vb!r}"[:300]
    if len(va.v) != len(vb.v):
        return f"{len(va.v)} captions vs {len(vb.v)}"
    nb = lambda lines: [[(ch, f) for ch, f in l if not ch.isspace()] for l in lines]
    for i, ((la, xa), (lb, xb)) in enumerate(zip(va.v, vb.v)):
        # blanks inside a line (the cell of a mid-row code may or may not be rendered) are judged by the oracle, which knows
        # where a blank is mandatory; here the non-blank characters with their italic flags are compared
        if nb(la) != nb(lb):
            return f"caption {i}: lines {la!r} vs {lb!r}"[:400]
        if (xa is None) != (xb is None) or (xa and not (_num_close(xa[0], xb[0], TOL_L) and _num_close(xa[1], xb[1], TOL_L))):
            return f"caption {i}: origin {xa!r} vs {xb!r}"
    return None


def blanks_differ(a, b):
    """counted information: same non-blank content but different blanks"""
    va, vb = view(a), view(b)
    if not isinstance(va, Ok) or not isinstance(vb, Ok) or len(va.v) != len(vb.v):
        return False
    return any(la != lb for (la, _), (lb, _) in zip(va.v, vb.v))


def tokeniser_agrees(streams):
    """cross-check of the two tokenisers on text: Coq (605) vs the Python copy of the reader's rules (600); -> number of
    texts on which the full model gives different answers"""
    a = oracle_batch([(605, [0, s]) for s in streams])
    b = oracle_batch([(600, [0, parse_lines(s)]) for s in streams])
    return sum(1 for x, y in zip(a, b) if x != y)
