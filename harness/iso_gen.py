"""Generators for C09 / C10: documents of the six input formats, API-built caption-set specs, writer configurations,
edits and operation histories.  Every choice comes from the rng passed in.

The documents deliberately stay inside the sublanguage on which the text/time defects owned by other properties do not
fire (3-digit fractions, integer milliseconds, MicroDVD frames that are multiples of 25, single-line text nodes, ASCII
words): snapshots do not care, but reads must not raise for unrelated reasons too often.
"""
import impl  # noqa: F401  (sets sys.path to the repo under test)
from pycaption.scc.constants import CHARACTERS, PAC_BYTES_TO_POSITIONING_MAP

WORDS = ["hello", "world", "caption", "text", "The", "quick", "brown", "fox", "yes", "no", "one", "two", "R&D",
         "a<b", "x>y", "100%", "it's", "[music]"]
PLAIN = ["hello", "world", "caption", "text", "the", "quick", "brown", "fox", "yes", "no", "one", "two"]
EXOTIC = ["na\u00efve", "\u266a la la", "\u65e5\u672c\u8a9e", "\u00bfqu\u00e9?", "l\u2019\u00e9t\u00e9",
          "a considerably longer line of caption text that does not fit thirty-two columns"]
LANGS = ["en-US", "fr", "de", "es"]


def words(rng, n=(1, 3), pool=WORDS):
    return " ".join(rng.choice(pool) for _ in range(rng.randint(*n)))


def spans(rng, n, same_prob=0.0):
    """n (start_ms, end_ms), increasing; with same_prob the next cue repeats the span (concurrent captions)"""
    out = []
    t = rng.choice([0, 500, 1000, 61000, 3600000])
    while len(out) < n:
        d = rng.choice([500, 1000, 1500, 2000, 4000])
        out.append((t, t + d))
        while len(out) < n and rng.random() < same_prob:
            out.append((t, t + d))
        t += d + rng.choice([0, 0, 500, 1000, 10000])
    return out


def clock(ms, sep=".", hours=True):
    h, r = divmod(ms, 3600000)
    m, r = divmod(r, 60000)
    s, f = divmod(r, 1000)
    if hours:
        return "%02d:%02d:%02d%s%03d" % (h, m, s, sep, f)
    return "%02d:%02d%s%03d" % (h * 60 + m, s, sep, f)


# ---- documents ------------------------------------------------------------------------------------------------------
def doc_srt(rng):
    n = rng.randint(1, 4)
    out = []
    for i, (s, e) in enumerate(spans(rng, n)):
        lines = [words(rng) for _ in range(rng.randint(1, 2))]
        out.append("%d\n%s --> %s\n%s\n" % (i + 1, clock(s, ","), clock(e, ","), "\n".join(lines)))
    return "\n".join(out)


def doc_vtt(rng):
    n = rng.randint(1, 4)
    out = ["WEBVTT\n"]
    if rng.random() < 0.2:
        out.append("STYLE\n::cue { color: yellow }\n")
    for k, (s, e) in enumerate(spans(rng, n)):
        if rng.random() < 0.15:
            out.append("NOTE a comment\nover two lines\n")
        settings = rng.choice(["", "", " align:left", " line:10% position:20% size:60%", " align:right line:0"])
        lines = []
        for _ in range(rng.randint(1, 2)):
            w = words(rng, pool=PLAIN)
            q = rng.random()
            if q < 0.12:
                w = "<i>%s</i>" % w
            elif q < 0.2:
                w = "<v Bob>%s</v>" % w
            elif q < 0.27:
                w = "<c.loud>%s</c> R&amp;D &lt;x" % w
            elif q < 0.33:
                w = "<b>%s</b> <u>%s</u>" % (w, rng.choice(PLAIN))
            lines.append(w)
        cue_id = ("cue-%d\n" % k) if rng.random() < 0.25 else ""
        out.append("%s%s --> %s%s\n%s\n" % (cue_id, clock(s, ".", rng.random() < 0.5), clock(e, "."), settings,
                                             "\n".join(lines)))
    return "\n".join(out)


def doc_mdvd(rng):
    n = rng.randint(1, 4)
    out = []
    r = rng.random()
    if r < 0.3:
        out.append("{0}{0}23.976")          # a frame-rate header (a reused reader must not remember it)
    elif r < 0.4:
        out.append("{0}{0}30")
    for (s, e) in spans(rng, n):
        lines = [words(rng, pool=PLAIN) for _ in range(rng.randint(1, 2))]
        out.append("{%d}{%d}%s" % (s // 1000 * 25, e // 1000 * 25 + 25, "|".join(lines)))
    return "\n".join(out) + "\n"


def xml_esc(s):
    return s.replace("&", "&amp;").replace("<", "&lt;").replace(">", "&gt;")


def doc_dfxp(rng):
    nl = rng.randint(1, 2)
    langs = rng.sample(LANGS, nl)
    absolute = rng.random() < 0.25
    regions = []
    if rng.random() < 0.7:
        if absolute:
            regions.append('<region xml:id="r1" tts:origin="64px 36px" tts:extent="320px 180px"/>')
        else:
            regions.append('<region xml:id="r1" tts:origin="10% 10%" tts:extent="80% 20%"/>')
        if rng.random() < 0.5:
            regions.append('<region xml:id="r2" tts:origin="%s" tts:textAlign="center"/>'
                           % ("100px 50px" if absolute else "25% 75%"))
    styles = []
    if rng.random() < 0.6:
        styles.append('<style xml:id="s1" tts:color="red" tts:fontSize="12px"/>')
        if rng.random() < 0.4:
            styles.append('<style xml:id="s2" tts:fontStyle="italic" tts:textAlign="center"/>')
    divs = []
    for lang in langs:
        ps = []
        for (s, e) in spans(rng, rng.randint(1, 3), same_prob=0.2):
            attrs = ""
            if regions and rng.random() < 0.6:
                attrs += ' region="r%d"' % rng.randint(1, len(regions))
            if styles and rng.random() < 0.5:
                if len(styles) > 1 and rng.random() < 0.5:
                    attrs += ' style="%s"' % rng.choice(["s1 s2", "s2 s1"])     # multi-valued style reference
                else:
                    attrs += ' style="s%d"' % rng.randint(1, len(styles))
            parts = []
            for _ in range(rng.randint(1, 3)):
                w = xml_esc(words(rng))
                r = rng.random()
                if r < 0.08 and len(styles) > 1:
                    parts.append('<span style="s1 s2">%s</span>' % w)
                elif r < 0.25:
                    parts.append('<span tts:fontStyle="italic">%s</span>' % w)
                elif r < 0.35:
                    parts.append('<span tts:fontWeight="bold" tts:color="blue">%s</span>' % w)
                else:
                    parts.append(w)
            if rng.random() < 0.15:
                # positioning attributes directly on <p> (honoured only with read_invalid_positioning=True)
                attrs += ' tts:origin="%s" tts:extent="%s"' % (("32px 18px", "160px 90px") if absolute else ("5% 80%", "90% 15%"))
            if rng.random() < 0.12:
                attrs += ' tts:textAlign="right" tts:color="green"'
            if rng.random() < 0.1:
                parts.append('<span tts:fontStyle="italic">%s <span tts:fontWeight="bold">%s</span> %s</span>'
                             % (rng.choice(PLAIN), rng.choice(PLAIN), rng.choice(PLAIN)))          # nested spans
            if rng.random() < 0.2:
                ps.append('<p begin="%s" dur="%s"%s>%s</p>' % (clock(s), clock(e - s), attrs, "<br/>".join(parts)))
            else:
                ps.append('<p begin="%s" end="%s"%s>%s</p>' % (clock(s), clock(e), attrs, "<br/>".join(parts)))
        if lang == langs[0] and rng.random() < 0.2:
            divs.append('<div>%s</div>' % "".join(ps))                  # language inherited from <tt>
        else:
            divs.append('<div xml:lang="%s">%s</div>' % (lang, "".join(ps)))
    return ('<?xml version="1.0" encoding="utf-8"?>\n<tt xml:lang="%s" xmlns="http://www.w3.org/ns/ttml" '
            'xmlns:tts="http://www.w3.org/ns/ttml#styling"><head><styling>%s</styling><layout>%s</layout></head>'
            '<body>%s</body></tt>' % (langs[0], "".join(styles), "".join(regions), "".join(divs)))


SAMI_CLASS = {"en-US": "ENCC", "fr": "FRCC", "de": "DECC", "es": "ESCC"}


def sami_style(rng):
    """(languages, css lines, {lang: [class names]}): the <STYLE> part of a SAMI document, reusable for another body"""
    nl = rng.randint(1, 3)
    langs = rng.sample(LANGS, nl)
    css = []
    r = rng.random()
    if r < 0.3:
        css.append("P { margin-left: 5%; margin-right: 5%; text-align: center; }")
    elif r < 0.4:
        css.append("P { margin-left: 1pt; margin-top: 2pt; }")
    elif r < 0.6:
        css.append("P { font-family: Arial; color: white; }")
    classes = {}
    for lang in langs:
        if rng.random() < 0.25:
            # two classes declare the same language, with different alignment / margins
            css.append(".%s {Name: %s; lang: %s; text-align: left; margin-left: 2%%;}" % (SAMI_CLASS[lang], lang, lang))
            css.append(".%sB {Name: %s; lang: %s; text-align: right; margin-left: 8%%; margin-top: 3%%;}"
                       % (SAMI_CLASS[lang], lang, lang))
            classes[lang] = [SAMI_CLASS[lang], SAMI_CLASS[lang] + "B"]
        else:
            css.append(".%s {Name: %s; lang: %s;}" % (SAMI_CLASS[lang], lang, lang))
            classes[lang] = [SAMI_CLASS[lang]]
    return langs, css, classes


def doc_sami(rng, style=None):
    langs, css, classes = style or sami_style(rng)
    syncs = []
    for (s, e) in spans(rng, rng.randint(1, 3)):
        ps = []
        for lang in langs:
            if rng.random() < 0.85:
                parts = []
                for _ in range(rng.randint(1, 2)):
                    w = xml_esc(words(rng, pool=PLAIN))
                    q = rng.random()
                    if q < 0.2:
                        parts.append("<i>%s</i>" % w)
                    elif q < 0.27:
                        parts.append("<b>%s</b> <u>%s</u>" % (w, rng.choice(PLAIN)))
                    elif q < 0.45:
                        decls = rng.sample(["color:red", "font-weight:bold", "font-style:italic",
                                            "text-decoration:underline", "text-align:right", "font-size:12px",
                                            "font-family:Arial"], rng.randint(1, 4))
                        parts.append('<span style="%s;">%s</span>' % (";".join(decls), w))
                    else:
                        parts.append(w)
                pattr = ""
                if rng.random() < 0.15:
                    pattr += ' style="text-align:%s;"' % rng.choice(["left", "right", "center"])
                if rng.random() < 0.1:
                    pattr += ' id="p%d"' % rng.randint(1, 9)
                ps.append('<P class="%s"%s>%s</P>' % (rng.choice(classes[lang]), pattr, "<br/>".join(parts)))
        syncs.append('<SYNC start="%d">%s</SYNC>' % (s, "".join(ps)))
        syncs.append('<SYNC start="%d">%s</SYNC>'
                     % (e, "".join('<P class="%s">&nbsp;</P>' % classes[lg][0] for lg in langs)))
    return ('<SAMI><HEAD><TITLE>t</TITLE><STYLE TYPE="text/css"><!--\n%s\n--></STYLE></HEAD><BODY>\n%s\n</BODY></SAMI>'
            % ("\n".join(css), "\n".join(syncs)))


_CHAR_TO_BYTE = {}
for _b, _c in CHARACTERS.items():
    if _c and _c not in _CHAR_TO_BYTE:
        _CHAR_TO_BYTE[_c] = _b


def scc_words(text):
    bs = [_CHAR_TO_BYTE[c] for c in text if c in _CHAR_TO_BYTE]
    if len(bs) % 2:
        bs.append("80")
    return [bs[i] + bs[i + 1] for i in range(0, len(bs), 2)]


def _pac(row, col):
    for hi, lows in PAC_BYTES_TO_POSITIONING_MAP.items():
        for lo, pos in lows.items():
            if pos == (row, col):
                return hi + lo
    raise KeyError((row, col))


def _stamp(t):
    return "00:%02d:%02d:00" % (t // 60, t % 60)


def doc_scc(rng):
    """pop-on (with or without the leading Erase-Non-displayed-Memory, doubled or single commands, rows with or without
    a preamble address code, mid-row italics, tab offsets), roll-up (2-4 rows, carriage returns) and paint-on documents,
    sometimes mixed: whatever decoder state a read leaves behind (cursor position, last command, roll rows, active
    buffer) differs from document to document"""
    out = ["Scenarist_SCC V1.0", ""]
    t = rng.choice([1, 2, 10, 61])
    style = rng.choice(["pop", "pop", "pop", "roll", "paint", "mixed"])
    dbl = (lambda w: [w, w]) if rng.random() < 0.7 else (lambda w: [w])
    for k in range(rng.randint(1, 3)):
        mode = style if style != "mixed" else rng.choice(["pop", "roll", "paint"])
        if mode == "pop":
            ws = []
            if rng.random() < 0.55:
                ws += dbl("94ae")
            ws += dbl("9420")
            rows = rng.sample([11, 12, 13, 14, 15], rng.randint(1, 2))
            for j, row in enumerate(sorted(rows)):
                if j == 0 and rng.random() < 0.15:
                    pass                                  # no preamble address code: the cursor stays where it was
                else:
                    ws += dbl(_pac(row, rng.choice([0, 4, 8])))
                    if rng.random() < 0.15:
                        ws += dbl(rng.choice(["97a1", "97a2", "9723"]))      # tab offset
                if rng.random() < 0.2:
                    ws += dbl("91ae") + scc_words(rng.choice(PLAIN)) + dbl("9120")    # mid-row italics on / off
                ws += scc_words(words(rng, n=(1, 2), pool=PLAIN))
            ws += dbl("942f")
            out += ["%s\t%s" % (_stamp(t), " ".join(ws)), ""]
            t += rng.choice([2, 3, 5])
            if rng.random() < 0.8:
                out += ["%s\t%s" % (_stamp(t), " ".join(dbl("942c"))), ""]
                t += rng.choice([1, 2])
        elif mode == "roll":
            ru = rng.choice(["9425", "9426", "94a7"])
            for _ in range(rng.randint(1, 3)):
                ws = dbl(ru) + dbl("94ad") + dbl(_pac(15, rng.choice([0, 4]))) + scc_words(words(rng, n=(1, 3), pool=PLAIN))
                out += ["%s\t%s" % (_stamp(t), " ".join(ws)), ""]
                t += rng.choice([2, 3])
        else:
            ws = dbl("9429") + dbl(_pac(rng.choice([13, 14, 15]), 0)) + scc_words(words(rng, n=(1, 2), pool=PLAIN))
            out += ["%s\t%s" % (_stamp(t), " ".join(ws)), ""]
            t += rng.choice([2, 4])
            if rng.random() < 0.6:
                out += ["%s\t%s" % (_stamp(t), " ".join(dbl("942c"))), ""]
                t += 1
    return "\n".join(out) + "\n"


def bad_doc(rng, fmt):
    """a document the reader must refuse (or that makes it raise): afterwards the same reader object reads valid ones"""
    if fmt == "scc":
        if rng.random() < 0.6:
            # a row of 33+ columns: CaptionLineLengthError after the whole document was decoded
            ws = ["94ae", "94ae", "9420", "9420", _pac(15, 0), _pac(15, 0)] + \
                scc_words("this row is definitely longer than thirty two columns") + ["942f", "942f"]
            return ("Scenarist_SCC V1.0\n\n00:00:01:00\t94ae 94ae 9420 9420 %s %s %s 942f 942f\n\n00:00:02:00\t942c 942c\n\n"
                    "00:00:03:00\t%s\n\n00:00:09:00\t942c 942c\n"
                    % (_pac(14, 0), _pac(14, 0), " ".join(scc_words("fine")), " ".join(ws)))
        if rng.random() < 0.5:
            return "Scenarist_SCC V1.0\n\n00:00:01:00\t94ae 94ae 9420 9420 %s %s %s 942f 942f\n\nnot a timecode\t942c\n" % (
                _pac(15, 0), _pac(15, 0), " ".join(scc_words("hello")))
        # a cue of less than 0.05 s: CaptionReadTimingError
        return ("Scenarist_SCC V1.0\n\n00:00:01:00\t94ae 94ae 9420 9420 %s %s %s 942f 942c\n"
                % (_pac(15, 0), _pac(15, 0), " ".join(scc_words("hello"))))
    if fmt == "vtt":
        return rng.choice([
            "WEBVTT\n\n00:05.000 --> 00:04.000\nend before start\n",
            "WEBVTT\n\n00:05.000 --> 00:06.000\nlater\n\n00:01.000 --> 00:02.000\nearlier start\n",
            "WEBVTT\n\n00:05.000 --> nonsense\nx\n",
            "WEBVTT\n\nno cue here\n"])
    if fmt == "srt":
        return rng.choice(["1\n00:00:01,000 --> 00:00:02\nshort stamp\n", "1\nnot a timing line\ntext\n",
                           "1\n00:00:01,000 -> 00:00:02,000\nbad arrow\n", "no cue number\n"])
    if fmt == "mdvd":
        return rng.choice(["{25}{50}fine\nthis line has no frames\n", "{0}{0}not-a-rate\n{25}{50}x\n", "\n\n"])
    if fmt == "dfxp":
        return rng.choice([
            '<tt xml:lang="en" xmlns="http://www.w3.org/ns/ttml"><body><div><p begin="one" end="two">x</p></div></body></tt>',
            '<tt xml:lang="en" xmlns="http://www.w3.org/ns/ttml"><body><div></div></body></tt>',
            '<tt xml:lang="en" xmlns="http://www.w3.org/ns/ttml"><body><div><p begin="00:00:01.000" end="5t">x</p></div></body></tt>'])
    if fmt == "sami":
        return rng.choice([
            '<SAMI><HEAD><STYLE TYPE="text/css"><!--\n.ENCC {lang: en-US;}\n--></STYLE></HEAD><BODY><SYNC><P class="ENCC">no start</P></SYNC></BODY></SAMI>',
            '<SAMI><HEAD><STYLE TYPE="text/css"><!--\n.ENCC {lang: en-US;}\n--></STYLE></HEAD><BODY></BODY></SAMI>',
            '<SAMI><HEAD><STYLE TYPE="text/css"><!--\nP {color: nosuchcolour;}\n.ENCC {lang: en-US;}\n--></STYLE></HEAD><BODY>'
            '<SYNC start="1000"><P class="ENCC">x</P></SYNC></BODY></SAMI>'])
    raise ValueError(fmt)


DOCS = {"srt": doc_srt, "vtt": doc_vtt, "mdvd": doc_mdvd, "dfxp": doc_dfxp, "sami": doc_sami, "scc": doc_scc}
FORMATS = ["srt", "vtt", "mdvd", "dfxp", "sami", "scc"]


def read_opts(rng, fmt):
    if fmt == "srt" and rng.random() < 0.3:
        return {"lang": rng.choice(LANGS)}
    if fmt == "vtt" and rng.random() < 0.3:
        return {"lang": rng.choice(LANGS)}
    if fmt == "mdvd" and rng.random() < 0.3:
        return {"lang": rng.choice(LANGS)}
    if fmt == "scc":
        o = {}
        if rng.random() < 0.3:
            o["lang"] = rng.choice(LANGS)
        if rng.random() < 0.2:
            o["simulate_roll_up"] = True
        if rng.random() < 0.3:
            o["offset"] = rng.choice([1, 2, 30])
        return o
    return {}


def reader_opts(rng, fmt):
    """constructor options of the reader object (kept for the whole life of the object)"""
    if fmt == "vtt":
        r = rng.random()
        if r < 0.3:
            return {"ignore_timing_errors": False}
        if r < 0.45:
            return {"time_shift_milliseconds": rng.choice([500, 2000])}
    if fmt == "dfxp" and rng.random() < 0.2:
        return {"read_invalid_positioning": True}
    return {}


# ---- API-built sets -------------------------------------------------------------------------------------------------
STYLE_CONTENTS = [{"italics": True}, {"bold": True}, {"underline": True}, {"italics": True, "color": "red"},
                  {"font-size": "12px"}, {}, {"color": "blue"}, {"text-align": "right"}, {"font-family": "Arial"},
                  {"display-align": "before", "italics": False}, {"class": "s1"}]
REL_LAYOUTS = [None, None, "rel_fit", "rel_noext", "rel_over", "align", "pad", "vtt", "empty"]
CONFLICTING_CLASSES = [("ca", {"italics": True, "bold": False, "color": "red"}),
                       ("cb", {"italics": False, "bold": True, "underline": True}),
                       ("cc", {"underline": False, "italics": True, "bold": True, "class": "ca"})]
SET_LEVEL_POOL = ["rel_fit", "rel_fit", "align", "pad", "rel_noext", "rel_over", "abs"]
VIDEO_SIZES = [(640, 360), (640, 360), (1280, 720), (720, 576)]


def gen_nodes(rng, lay):
    nodes = []
    n = rng.randint(1, 4)
    open_ = False
    for i in range(n):
        if i and rng.random() < 0.6:
            nodes.append(["b", lay() if rng.random() < 0.2 else None])
        r = rng.random()
        if r < 0.3:
            nodes.append(["s", True, dict(rng.choice(STYLE_CONTENTS)), lay() if rng.random() < 0.25 else None])
            open_ = True
        nodes.append(["t", rng.choice(EXOTIC) if rng.random() < 0.12 else words(rng), lay() if rng.random() < 0.3 else None])
        if open_ and rng.random() < 0.65:        # sometimes left unbalanced (a style start without its end)
            nodes.append(["s", False, dict(rng.choice(STYLE_CONTENTS)), None])
            open_ = False
    if rng.random() < 0.1:
        nodes.append(["s", False, {"italics": True}, None])      # a stray end
    return nodes


def gen_spec(rng, mode=None):
    """mode "rich": every level carries positioning and there are styles (incl. one named p);
       mode "plain": no positioning, no styles at all; None: anything"""
    flavour = rng.random()
    if mode in ("plain", "setlevel"):
        flavour = 0.2
    elif mode == "rich":
        flavour = 0.5 + flavour / 2
    if mode == "abs":
        flavour = 0.0
    if flavour < 0.15:
        pool = ["abs", "abs", "abs_em", "abs_pt", "abs_c"]   # absolute units only: without video size writers must refuse
    elif flavour < 0.35:
        pool = [None]
    else:
        pool = REL_LAYOUTS

    def lay():
        return rng.choice(pool)
    nl = rng.choice([0, 1, 1, 1, 2, 2, 3]) if mode is None else rng.choice([1, 1, 2])
    langs = []
    for lang in rng.sample(LANGS, nl):
        caps = []
        ncap = rng.choice([0, 1, 2, 2, 3, 4])
        for (s, e) in spans(rng, ncap, same_prob=0.3):
            tm = rng.random()
            if tm < 0.15 and nl == 1:     # float times (SCC-like); SAMIWriter int()s them for a second language
                s_, e_ = s * 1000 * 1001 / 1000.0 + 1 / 3.0, e * 1000 * 1001 / 1000.0 + 1 / 3.0
            else:
                s_, e_ = s * 1000, e * 1000
            if rng.random() < 0.04:
                # times no writer can print: every writer must refuse (and leave its input alone)
                e_ = rng.choice([10 ** 21, float("inf"), float("nan")])
            st = rng.random()
            style = None if st < 0.5 else dict(rng.choice([{}, {"color": "red"}, {"text-align": "center"},
                                                           {"class": "s1"}, {"italics": True}]))
            caps.append({"start": s_, "end": e_, "style": style,
                         "layout": lay() if rng.random() < (0.9 if mode == "rich" else 0.6) else
                         (pool[0] if pool[0] == "abs" else None), "nodes": gen_nodes(rng, lay)})
        lang_lay = lay() if rng.random() < 0.4 else None
        if mode == "rich":
            lang_lay = rng.choice(["rel_fit", "rel_noext", "rel_over", "align", "pad"])
            if not caps:
                caps.append({"start": 1000000, "end": 2000000, "style": None, "layout": None,
                             "nodes": [["t", words(rng), None]]})
        langs.append({"lang": lang, "layout": lang_lay, "caps": caps})
    all_caps = [c for lg in langs for c in lg["caps"]]
    alias = False
    if len(all_caps) >= 2 and rng.random() < 0.2:
        # internal aliasing: one Caption object under two languages / twice in a list, a shared style dict, Layout, node
        alias = True
        for c in all_caps[1:]:
            q = rng.random()
            if q < 0.3:
                c["same_as"] = rng.randint(0, 3)
            elif q < 0.5:
                c["style_of"] = rng.randint(0, 3)
            elif q < 0.65:
                c["layout_of"] = rng.randint(0, 3)
            elif q < 0.75:
                c["node_of"] = rng.randint(0, 3)
    styles = None
    if mode == "rich":
        styles = [["p", {"color": "white", "text-align": "center"}], ["s1", {"italics": True}]]
        return {"layout": rng.choice(["rel_fit", "rel_noext", "pad", None]), "styles": styles, "langs": langs}
    if mode == "plain":
        return {"layout": None, "styles": rng.choice([None, [["big", {"color": "red"}]]]), "langs": langs}
    if mode == "setlevel":
        # positioning ONLY at the level no reader produces: CaptionSet.layout_info (from the shared small pool)
        return {"layout": rng.choice(SET_LEVEL_POOL), "styles": rng.choice([None, [["s1", {"color": "red"}]]]),
                "langs": langs}
    if rng.random() < 0.5:
        styles = []
        for sel in rng.sample(["s1", "p", "span", "big"], rng.randint(0, 3)):
            styles.append([sel, dict(rng.choice([{"color": "red"}, {"text-align": "left", "font-size": "10px"}, {},
                                                 {"italics": True}, {"lang": "en-US"}]))])
    if all_caps and rng.random() < 0.25:
        # multi-class style references (what DFXPReader yields for style="a b") whose classes CONFLICT on the flags a
        # writer turns into tags; the set-level styles define the classes
        styles = [list(x) for x in (styles or [])] + [[k, dict(v)] for k, v in CONFLICTING_CLASSES]
        for c in all_caps:
            if "same_as" in c:
                continue
            if rng.random() < 0.5:
                ks = rng.sample(["ca", "cb", "cc"], rng.randint(2, 3))
                c["style"] = {"classes": ks, "class": " ".join(ks)}
            for nd in c["nodes"]:
                if nd[0] == "s" and rng.random() < 0.6:
                    ks = rng.sample(["ca", "cb", "cc"], rng.randint(2, 3))
                    nd[2] = {"classes": ks, "class": " ".join(ks)}
    spec = {"layout": lay() if rng.random() < 0.4 else None, "styles": styles, "langs": langs}
    if alias and styles and rng.random() < 0.4:
        spec["styles_alias"] = True
    return spec


# ---- writers ----------------------------------------------------------------------------------------------------------
WRITER_KINDS = ["srt", "vtt", "mdvd", "dfxp", "sami", "scc", "single", "legacy"]


def gen_writer(rng, kind=None):
    kind = kind or rng.choice(WRITER_KINDS)
    wopts = {}
    if kind != "legacy":
        r = rng.random()
        if r < 0.25:
            wopts["relativize"] = False
        if rng.random() < 0.25:
            wopts["fit_to_screen"] = False
        q = rng.random()
        if q < 0.4:
            wopts["video_width"], wopts["video_height"] = rng.choice(VIDEO_SIZES)
        elif q < 0.46:
            wopts["video_width"] = 640                  # only one dimension given
    if kind in ("dfxp", "single") and rng.random() < 0.3:
        wopts["write_inline_positioning"] = True
    if kind == "single" and rng.random() < 0.5:
        wopts["default_positioning"] = rng.choice(["rel_fit", "rel_noext", "abs", "align", "pad", "vtt"])
    return kind, wopts


def gen_kw(rng, kind, langs):
    if kind in ("dfxp", "single", "legacy") and rng.random() < 0.3:
        return {"force": rng.choice(langs + ["xx"]) if langs else "xx"}
    if kind == "vtt" and langs and rng.random() < 0.3:
        return {"lang": rng.choice(langs)}
    return {}


# ---- edits ------------------------------------------------------------------------------------------------------------
def gen_edit(rng):
    r = rng.random()
    li, ci, ni = rng.randint(0, 3), rng.randint(0, 5), rng.randint(0, 5)
    if r < 0.25:
        return ["add_style", rng.choice(["s1", "x", "p", "new"]), dict(rng.choice([{"color": "green"}, {"italics": True}, {}]))]
    if r < 0.35:
        return ["style_rule", rng.choice(["s1", "x", "p"]), rng.choice(["color", "font-size"]), rng.choice(["pink", "9px"])]
    if r < 0.5:
        return ["cap_time", li, ci, rng.choice(["start", "end"]), rng.choice([0, 1234000, 99000000])]
    if r < 0.65:
        return ["append_node", li, ci, words(rng)]
    if r < 0.78:
        return ["cap_style", li, ci, rng.choice(["bold", "color", "class"]), rng.choice([True, "red", "s1"])]
    if r < 0.84:
        return ["cap_layout", li, ci, rng.choice(["rel_fit", "rel_noext", "align"])]
    if r < 0.90:
        return ["node_content", li, ci, ni, words(rng)]
    if r < 0.97:
        return ["node_dict", li, ci, ni, rng.choice(["color", "italics", "x"]), rng.choice(["pink", True])]
    return ["del_cap", li, ci]


# ---- histories --------------------------------------------------------------------------------------------------------
def gen_source(rng, rid, p_build=0.5, fmts=FORMATS):
    """an op that creates a caption set"""
    if rng.random() < p_build:
        return {"op": "build", "spec": gen_spec(rng)}
    fmt = rng.choice(fmts)
    return {"op": "read", "fmt": fmt, "doc": DOCS[fmt](rng), "opts": read_opts(rng, fmt), "ropts": reader_opts(rng, fmt),
            "r": rid}


def spec_langs(op):
    if op["op"] == "build":
        return [lg["lang"] for lg in op["spec"]["langs"]]
    return list(LANGS[:2])


# ---- two sets that share their VOCABULARY (style class names, layout values, language codes) with different meanings ----
VOCAB_CLASSES = ["ca", "cb", "s1", "p", "big"]
VOCAB_RULES = [{"italics": True}, {"bold": True}, {"underline": True}, {"italics": False, "bold": True},
               {"italics": True, "underline": True, "bold": False}, {"color": "red"}, {"text-align": "right"},
               {"font-family": "Arial", "italics": True}, {"bold": False, "underline": False, "italics": False}, {}]
VOCAB_LAYOUTS = ["rel_fit", "rel_noext", "rel_over", "pad", "align", "vtt", None]


def _class_ref(rng, names):
    if len(names) >= 2 and rng.random() < 0.4:
        ks = rng.sample(names, 2)
        return {"classes": ks, "class": " ".join(ks)}
    return {"class": rng.choice(names)}


def gen_vocab_pair(rng):
    """A and B: the same languages, times, texts and the same REFERENCES (class names on caption styles and STYLE nodes,
    layout slots); what the names MEAN differs: the rules of each class (italics / bold / underline / ...), which
    layout value sits in which slot, sometimes a class that B does not define at all."""
    names = rng.sample(VOCAB_CLASSES, rng.randint(1, 3))
    langs = rng.sample(LANGS, rng.choice([1, 1, 2]))
    skeleton = []
    for lang in langs:
        caps = []
        for (s_, e_) in spans(rng, rng.randint(1, 3), same_prob=0.15):
            style = _class_ref(rng, names) if rng.random() < 0.6 else None
            nodes = []
            opened = None
            if rng.random() < 0.6:
                opened = _class_ref(rng, names) if rng.random() < 0.8 else {"italics": True}
                nodes.append(["s", True, opened, "N"])
            nodes.append(["t", words(rng), "N"])
            if opened is not None and rng.random() < 0.8:
                nodes.append(["s", False, dict(opened), None])
            if rng.random() < 0.4:
                nodes += [["b", None], ["t", words(rng), None]]
            caps.append({"start": s_ * 1000, "end": e_ * 1000, "style": style, "layout": "C", "nodes": nodes})
        skeleton.append({"lang": lang, "layout": "L", "caps": caps})

    def instance():
        slot = {k: rng.choice(VOCAB_LAYOUTS) for k in ("S", "L", "C", "N")}
        defined = [n for n in names if rng.random() < 0.85]
        styles = [[n, dict(rng.choice(VOCAB_RULES))] for n in defined]
        if rng.random() < 0.3:
            styles.append(["other", {"color": "blue"}])
        out = []
        for lg in skeleton:
            caps = []
            for c in lg["caps"]:
                nodes = []
                for nd in c["nodes"]:
                    nd = list(nd)
                    if nd[0] == "s":
                        nd[2] = json_copy(nd[2])
                        nd[3] = slot["N"] if nd[3] == "N" and rng.random() < 0.3 else None
                    elif nd[0] == "t":
                        nd[2] = slot["N"] if nd[2] == "N" and rng.random() < 0.4 else None
                    nodes.append(nd)
                caps.append({"start": c["start"], "end": c["end"],
                             "style": None if c["style"] is None else json_copy(c["style"]),
                             "layout": slot["C"], "nodes": nodes})
            out.append({"lang": lg["lang"], "layout": slot["L"], "caps": caps})
        return {"layout": slot["S"], "styles": styles, "langs": out}
    return instance(), instance()


def json_copy(x):
    import json
    return json.loads(json.dumps(x))


def history_vocab(rng):
    """ONE writer object writes A, then B (same vocabulary, other meanings); a fresh object writes B; the first object
    writes A again; a third writes A.  Every writer class; WebVTT (class -> <i>/<b>/<u> resolution) most often."""
    a, b = gen_vocab_pair(rng)
    kind = "vtt" if rng.random() < 0.35 else rng.choice(WRITER_KINDS)
    kind, wopts = gen_writer(rng, kind)

    def wr(w, s_):
        return {"op": "write", "kind": kind, "wopts": wopts, "kw": {}, "w": w, "set": s_}
    ops = [{"op": "build", "spec": a}, {"op": "build", "spec": b}, wr(0, 0), wr(0, 1), wr(1, 1)]
    if rng.random() < 0.6:
        ops += [wr(0, 0), wr(2, 0)]
    return ops


# ---- DFXP writers x inline positioning x relativize x fit_to_screen x video size on absolute set / language layouts ----
def history_inline(rng):
    spec = gen_spec(rng, rng.choice(["abs", "rich", "rich"]))
    spec["layout"] = rng.choice(["abs", "abs", "abs_pt", "abs_c", "abs_em", "rel_noext", "pad"])
    for lg in spec["langs"]:
        if rng.random() < 0.6:
            lg["layout"] = rng.choice(["abs", "abs_pt", "abs_c", "abs_em", "rel_over"])
    kind = rng.choice(["dfxp", "dfxp", "single", "legacy"])
    combos = []
    for inline in (True, False):
        for rel in (None, False):
            for fit in (None, False):
                for size in (None, (640, 360), (1280, 720)):
                    wo = {}
                    if inline:
                        wo["write_inline_positioning"] = True
                    if rel is not None:
                        wo["relativize"] = rel
                    if fit is not None:
                        wo["fit_to_screen"] = fit
                    if size:
                        wo["video_width"], wo["video_height"] = size
                    combos.append(wo)
    rng.shuffle(combos)
    chosen = combos[:rng.randint(2, 3)]
    if rng.random() < 0.6:
        chosen[0] = {"write_inline_positioning": True, "video_width": 640, "video_height": 360}
    if kind == "legacy":
        chosen = [{}]
    if kind == "single" and rng.random() < 0.5:
        for wo in chosen:
            wo["default_positioning"] = "abs"
    ops = [{"op": "build", "spec": spec}]
    for k, wo in enumerate(chosen):
        ops.append({"op": "write", "kind": kind, "wopts": wo, "kw": {}, "w": k, "set": 0})
    ops.append({"op": "write", "kind": kind, "wopts": chosen[0], "kw": {}, "w": 0, "set": 0})
    ops.append({"op": "write", "kind": kind, "wopts": chosen[0], "kw": {}, "w": len(chosen), "set": 0})
    return ops


# ---- PROCESS-WIDE state: a fresh writer object after other documents were written in this process ------------------------
def _layouts_used(spec):
    out = []
    for lg in spec["langs"]:
        if lg.get("layout"):
            out.append(lg["layout"])
        for c in lg["caps"]:
            if c.get("layout"):
                out.append(c["layout"])
            for nd in c["nodes"]:
                if nd[-1] and nd[0] in ("t", "b", "s") and isinstance(nd[-1], str) and nd[-1] in ("rel_fit", "rel_noext",
                        "rel_over", "abs", "abs_em", "abs_pt", "abs_c", "align", "pad", "vtt", "empty"):
                    out.append(nd[-1])
    return out


def history_region_value(rng):
    """process-wide state keyed by layout VALUE across DFXP documents: document A (a DFXP writer) has captions / nodes with
    a layout L for which the writer creates a region (r0, r1, ..; L is not the default region); later a FRESH DFXPWriter
    (write_inline_positioning off) writes B whose SET-LEVEL layout_info == L while B's languages / captions / nodes carry NO
    layout of their own (its <div>/<p> fall back to the default region).  B is compared with its pristine twin.
    L is chosen invariant under relativize + fit_to_screen (or those are switched off) so that the value A's writer met is
    the value B carries."""
    lname = rng.choice(["rel_fit", "rel_fit", "pad", "rel_noext", "rel_over", "align"])
    others = [x for x in ["rel_fit", "pad", "rel_noext", "rel_over", None, None] if x != lname]
    langs = rng.sample(LANGS, rng.choice([1, 1, 2]))

    def caps(with_layout):
        out = []
        for (s_, e_) in spans(rng, rng.randint(1, 3)):
            lay = None
            nodes = [["t", words(rng, pool=PLAIN), None]]
            if with_layout:
                q = rng.random()
                if q < 0.5:
                    lay = lname
                elif q < 0.75:
                    nodes = [["t", words(rng, pool=PLAIN), lname]]
                else:
                    lay = rng.choice(others)
            out.append({"start": s_ * 1000, "end": e_ * 1000, "style": None, "layout": lay, "nodes": nodes})
        if with_layout and not any(c["layout"] == lname or c["nodes"][0][2] == lname for c in out):
            out[-1]["layout"] = lname
        if with_layout and rng.random() < 0.5:
            # L is not the first region: another positioned caption comes first
            out.insert(0, {"start": 0, "end": 400000, "style": None, "layout": rng.choice(["rel_over", "rel_noext", "pad"]),
                           "nodes": [["t", "first", None]]})
        return out
    a = {"layout": rng.choice([None, None, lname]), "styles": rng.choice([None, [["s1", {"color": "red"}]]]),
         "langs": [{"lang": lg, "layout": rng.choice([None, None, lname]), "caps": caps(True)} for lg in langs]}
    b = {"layout": lname, "styles": rng.choice([None, [["s1", {"color": "red"}]]]),
         "langs": [{"lang": lg, "layout": None, "caps": caps(False)} for lg in langs]}
    wo = rng.choice([{}, {}, {"fit_to_screen": False}, {"relativize": False}, {"relativize": False, "fit_to_screen": False},
                     {"video_width": 640, "video_height": 360}])
    ka = rng.choice(["dfxp", "dfxp", "dfxp", "single"])
    woa = dict(wo)
    if ka == "single":
        woa["default_positioning"] = lname if lname != "rel_over" else "rel_fit"
    ops = [{"op": "build", "spec": a}, {"op": "build", "spec": b},
           {"op": "write", "kind": ka, "wopts": woa, "kw": {}, "w": 0, "set": 0}]
    if rng.random() < 0.25:
        ops.append({"op": "write", "kind": "dfxp", "wopts": dict(wo), "kw": {}, "w": 1, "set": 0})
    ops.append({"op": "write", "kind": "dfxp", "wopts": dict(wo), "kw": {}, "w": 2, "set": 1})       # fresh object, B
    if rng.random() < 0.3:
        ops.append({"op": "write", "kind": "dfxp", "wopts": dict(wo), "kw": {}, "w": 3, "set": 1})
    return ops


def history_process_state(rng):
    """document A is written (any writer object), then a FRESH writer object of the same class writes B whose SET-LEVEL
    layout_info equals a caption / language / node layout of A (and which shares style names and language codes with A);
    B's bytes are compared with B written alone in a pristine process (the pristine twin C09.run makes for that write).
    DFXP writers (with and without inline positioning) most often; every writer class."""
    if rng.random() < 0.55:
        return history_region_value(rng)
    a, b = gen_vocab_pair(rng)
    if rng.random() < 0.5:
        a = gen_spec(rng, "rich")
    used = _layouts_used(a) or ["rel_noext"]
    b["layout"] = rng.choice(used)
    if rng.random() < 0.3:
        for lg in b["langs"]:
            lg["layout"] = rng.choice(used)
    kind = rng.choice(["dfxp", "dfxp", "single", "legacy"]) if rng.random() < 0.6 else rng.choice(WRITER_KINDS)
    kind, wopts = gen_writer(rng, kind)
    if kind in ("dfxp", "single") and rng.random() < 0.5:
        wopts["write_inline_positioning"] = True
    if any(str(u).startswith("abs") for u in used) and kind != "legacy" and rng.random() < 0.7:
        wopts["video_width"], wopts["video_height"] = 640, 360
    ops = [{"op": "build", "spec": a}, {"op": "build", "spec": b},
           {"op": "write", "kind": kind, "wopts": wopts, "kw": {}, "w": 0, "set": 0}]
    if rng.random() < 0.3:
        k2, wo2 = gen_writer(rng, rng.choice(["dfxp", "single", "legacy", "sami", "vtt"]))
        ops.append({"op": "write", "kind": k2, "wopts": wo2, "kw": {}, "w": 1, "set": 0})
    ops.append({"op": "write", "kind": kind, "wopts": wopts, "kw": {}, "w": 2, "set": 1})     # a fresh object writes B
    return ops


# ---- a writer object reused after a write() that RAISED half-way ------------------------------------------------------------
def history_after_raise(rng):
    """set X makes the writer raise AFTER it has rendered something: caption 1 opens an italics span and never closes it,
    a later caption is positioned in px (RelativizationError without video size: DFXP / SAMI / Single) or has more rows than
    the SCC writer can address (IndexError) or a time nobody can print; the same object then writes Y, a fresh object writes
    Y: byte-identical."""
    kind = rng.choice(["sami", "sami", "dfxp", "single", "scc", "scc", "scc", "legacy", "vtt", "srt"])
    lang = rng.choice(LANGS)
    first = {"start": 1000000, "end": 2000000, "style": rng.choice([None, {"italics": True}]), "layout": None,
             "nodes": [["s", True, {"italics": True}, None], ["t", words(rng, pool=PLAIN), None]]}
    second = {"start": 3000000, "end": 4000000, "style": None, "layout": None, "nodes": [["t", words(rng, pool=PLAIN), None]]}
    if kind == "scc":
        nodes = []
        for i in range(rng.choice([33, 34, 40])):
            if i:
                nodes.append(["b", None])
            nodes.append(["t", "r%d" % i, None])
        bad = {"start": 5000000, "end": 6000000, "style": None, "layout": None, "nodes": nodes}
    elif kind in ("sami", "dfxp", "single"):
        bad = {"start": 5000000, "end": 6000000, "style": None, "layout": rng.choice(["abs", "abs_pt", "abs_c"]),
               "nodes": [["t", words(rng, pool=PLAIN), None]]}
        if rng.random() < 0.4:
            bad["layout"] = None
            bad["nodes"] = [["t", "px node", rng.choice(["abs", "abs_em"])]]
    else:
        bad = {"start": 5000000, "end": rng.choice([float("inf"), float("nan"), 10 ** 21]), "style": None, "layout": None,
               "nodes": [["t", words(rng, pool=PLAIN), None]]}
    caps = [first] + ([second] if rng.random() < 0.6 else []) + [bad]
    x = {"layout": None, "styles": rng.choice([None, [["s1", {"italics": True}]]]),
         "langs": [{"lang": lang, "layout": None, "caps": caps}]}
    if rng.random() < 0.3:
        x["langs"].insert(0, {"lang": "xx" if lang != "xx" else "yy", "layout": None, "caps": [dict(second)]})
    y = gen_spec(rng, rng.choice(["plain", "rich"])) if rng.random() < 0.5 else \
        {"layout": None, "styles": None, "langs": [{"lang": lang, "layout": None, "caps": [
            {"start": 1000000, "end": 2000000, "style": None, "layout": None,
             "nodes": [["s", True, {"italics": True}, None], ["t", "fine", None], ["s", False, {"italics": True}, None]]},
            {"start": 2500000, "end": 3500000, "style": None, "layout": None, "nodes": [["t", "plain", None]]}]}]}
    wopts = {}
    if kind in ("sami", "dfxp", "single") and rng.random() < 0.3:
        wopts["fit_to_screen"] = False

    def wr(w, s_):
        return {"op": "write", "kind": kind, "wopts": wopts, "kw": {}, "w": w, "set": s_}
    ops = [{"op": "build", "spec": x}, {"op": "build", "spec": y}]
    if rng.random() < 0.4:
        ops.append(wr(0, 1))
    ops += [wr(0, 0), wr(0, 1), wr(1, 1)]
    return ops


def history_c09(rng):
    """1-3 caption sets, 3-8 writes on shared and fresh writer objects; the same (writer class, options, set) is
    written again by the same object, by a fresh object and after other sets were written; now and then an edit."""
    ops = []
    shape = rng.random()
    if shape < 0.25:
        # stale writer state: one object writes a set with positioning / styles at every level, then a set with
        # none at all; a fresh object writes the latter
        ops = [{"op": "build", "spec": gen_spec(rng, "rich")} if rng.random() < 0.7 else
               gen_source(rng, rid=0, p_build=0.0, fmts=["sami", "dfxp", "vtt"]),
               {"op": "build", "spec": gen_spec(rng, "plain")} if rng.random() < 0.7 else
               gen_source(rng, rid=1, p_build=0.0, fmts=["srt", "mdvd"])]
        kind, wopts = gen_writer(rng)
        kw = {}
        return ops + [{"op": "write", "kind": kind, "wopts": wopts, "kw": kw, "w": 0, "set": 0},
                      {"op": "write", "kind": kind, "wopts": wopts, "kw": kw, "w": 0, "set": 1},
                      {"op": "write", "kind": kind, "wopts": wopts, "kw": kw, "w": 1, "set": 1},
                      {"op": "write", "kind": kind, "wopts": wopts, "kw": kw, "w": 0, "set": 0},
                      {"op": "write", "kind": kind, "wopts": wopts, "kw": kw, "w": 2, "set": 0}]
    if shape < 0.45:
        # memory across writes that is NOT in the writer object: one object writes A, a fresh object writes B
        # (compared with B written alone in a fresh process: the pristine twin)
        def src(k):
            if rng.random() < 0.75:
                return {"op": "build", "spec": gen_spec(rng, rng.choice([None, "rich", "rich"]))}
            return gen_source(rng, rid=k, p_build=0.0)
        kind, wopts = gen_writer(rng)
        b = src(1)
        if rng.random() < 0.4:
            b = {"op": "build", "spec": gen_spec(rng, "setlevel")}
        return [src(0), b,
                {"op": "write", "kind": kind, "wopts": wopts, "kw": {}, "w": 0, "set": 0},
                {"op": "write", "kind": kind, "wopts": wopts, "kw": {}, "w": 1, "set": 1}]
    if shape < 0.67 and shape >= 0.57:
        # write, edit the set in place, write again (same object, then a fresh one): the second text must be the text
        # of the EDITED set (its pristine twin: creation + the edits + the write alone in a fresh process)
        src0 = gen_source(rng, rid=0, p_build=0.5)
        kind, wopts = gen_writer(rng)
        kw = gen_kw(rng, kind, spec_langs(src0))
        ops = [src0, {"op": "write", "kind": kind, "wopts": wopts, "kw": kw, "w": 0, "set": 0}]
        for _ in range(rng.randint(1, 2)):
            li, ci, ni = rng.randint(0, 3), rng.randint(0, 5), rng.randint(0, 5)
            ops.append({"op": "edit", "set": 0, "edit": rng.choice([
                ["node_content", li, ci, ni, words(rng)], ["append_node", li, ci, words(rng)],
                ["cap_time", li, ci, "end", rng.choice([1234000, 99000000])], gen_edit(rng)])})
        ops.append({"op": "write", "kind": kind, "wopts": wopts, "kw": kw, "w": 0, "set": 0})
        ops.append({"op": "write", "kind": kind, "wopts": wopts, "kw": kw, "w": 1, "set": 0})
        return ops
    if shape < 0.57:
        # the SAME set written by different writer objects of one class under DIFFERENT options (video sizes, none,
        # relativize / fit off), in random order; each is compared with its pristine twin
        src0 = ({"op": "build", "spec": gen_spec(rng, rng.choice(["abs", "abs", "rich", None]))}
                if rng.random() < 0.8 else gen_source(rng, rid=0, p_build=0.0, fmts=["dfxp", "sami", "scc"]))
        kind = rng.choice(["dfxp", "sami", "single", "vtt", "dfxp", "sami"])
        if src0["op"] == "build" and rng.random() < 0.35:
            # a set EVERY writer must refuse (a caption time no writer can print), with positioning at every level
            src0 = {"op": "build", "spec": gen_spec(rng, "rich")}
            caps = [c for lg in src0["spec"]["langs"] for c in lg["caps"] if "same_as" not in c]
            rng.choice(caps)["end"] = rng.choice([float("inf"), float("nan"), 10 ** 21, float("inf")])
            kind = rng.choice(WRITER_KINDS)
        variants = [{"video_width": w_, "video_height": h_} for (w_, h_) in set(VIDEO_SIZES)] + \
                   [{}, {"relativize": False}, {"fit_to_screen": False, "video_width": 640, "video_height": 360}]
        rng.shuffle(variants)
        ops = [src0]
        for k, wo in enumerate(variants[:rng.randint(2, 4)]):
            ops.append({"op": "write", "kind": kind, "wopts": wo, "kw": {}, "w": k, "set": 0})
        return ops
    if shape < 0.73:
        return history_vocab(rng)
    if shape < 0.79:
        return history_process_state(rng)
    if shape < 0.845:
        return history_after_raise(rng)
    if shape < 0.885:
        return history_inline(rng)
    nsets = rng.choice([1, 2, 2, 3])
    for k in range(nsets):
        ops.append(gen_source(rng, rid=k, p_build=0.6))
    wid = 0
    kind, wopts = gen_writer(rng)
    focus_set = rng.randrange(nsets)
    kw = gen_kw(rng, kind, spec_langs(ops[focus_set]))
    main = wid
    wid += 1

    def wr(w, s, knd=kind, wo=wopts, kws=None):
        return {"op": "write", "kind": knd, "wopts": wo, "kw": kw if kws is None else kws, "w": w, "set": s}
    late = rng.random() < 0.4       # the focus set is written for the first time only AFTER other writes happened in
    if not late:                    # this process (its pristine twin history is what it is compared with)
        ops.append(wr(main, focus_set))
    for _ in range(rng.randint(1 if late else 0, 3)):
        r = rng.random()
        if r < (0.7 if late else 0.5):
            # the same writer object writes another set (possibly one that makes it raise / leaves a span open)
            s2 = rng.randrange(nsets)
            ops.append(wr(main, s2, kws=gen_kw(rng, kind, spec_langs(ops[s2]))))
        elif r < 0.8:
            k2, wo2 = gen_writer(rng)
            s2 = rng.randrange(nsets)
            ops.append({"op": "write", "kind": k2, "wopts": wo2, "kw": gen_kw(rng, k2, spec_langs(ops[s2])),
                        "w": wid, "set": s2})
            wid += 1
        else:
            ops.append({"op": "edit", "set": rng.randrange(nsets), "edit": gen_edit(rng)})
    ops.append(wr(main, focus_set))                 # same object again
    ops.append(wr(wid, focus_set))                  # a fresh object
    wid += 1
    if rng.random() < 0.4:
        ops.append(wr(main, focus_set))
    return ops


# ---- reader REUSE under non-default options ---------------------------------------------------------------------------------
NONDEFAULT_ROPTS = {"vtt": [{"ignore_timing_errors": False}, {"ignore_timing_errors": False}, {"time_shift_milliseconds": 1500},
                            {"ignore_timing_errors": False, "time_shift_milliseconds": 500}],
                    "dfxp": [{"read_invalid_positioning": True}]}
NONDEFAULT_OPTS = {"srt": [{"lang": "fr"}, {"lang": "de"}], "vtt": [{"lang": "es"}, {}], "mdvd": [{"lang": "fr"}],
                   "dfxp": [{}], "sami": [{}],
                   "scc": [{"lang": "fr"}, {"offset": 2}, {"simulate_roll_up": True}, {"lang": "de", "offset": 30},
                           {"simulate_roll_up": True, "offset": 1}]}


def _vtt_first_start(doc):
    import re
    m = re.search(r"(?:(\d+):)?(\d\d):(\d\d)\.(\d\d\d) -->", doc)
    if not m:
        return 0
    return ((int(m.group(1) or 0) * 60 + int(m.group(2))) * 60 + int(m.group(3))) * 1000 + int(m.group(4))


def vtt_raising_midway(rng):
    """a valid cue, then one the strict reader refuses: the read raises after it has remembered the first cue's start"""
    return ("WEBVTT\n\n00:%02d.000 --> 00:%02d.500\nfine\n\n" % (rng.choice([20, 40, 59]), 59) +
            rng.choice(["00:05.000 --> 00:04.000\nend before start\n", "00:01.000 --> 00:02.000\nearlier start\n",
                        "00:30.000 --> nonsense\nx\n"]))


def history_c10_reuse(rng):
    """ONE reader object built with NON-default options reads document 1, sometimes a document that makes it raise
    mid-way, then document 2 = the same document again, or another one (WebVTT: one whose first cue starts BEFORE document
    1's last cue); a second object with the same options reads document 2 as well.  Every read is compared with the same
    read in a pristine process (fresh reader, same options)."""
    fmt = rng.choice(["vtt", "vtt", "vtt", "scc", "scc", "srt", "mdvd", "dfxp", "sami"])
    ropts = dict(rng.choice(NONDEFAULT_ROPTS.get(fmt, [{}])))
    o1 = dict(rng.choice(NONDEFAULT_OPTS[fmt]))
    o2 = dict(rng.choice(NONDEFAULT_OPTS[fmt])) if rng.random() < 0.5 else dict(o1)
    mk = (lambda: doc_sami(rng)) if fmt == "sami" else (lambda: DOCS[fmt](rng))
    d1 = mk()
    q = rng.random()
    if q < 0.4:
        d2 = d1
    else:
        d2 = mk()
        if fmt == "vtt":
            for _ in range(6):
                if _vtt_first_start(d2) < _vtt_first_start(d1) or d1.count("-->") > 1 and _vtt_first_start(d2) <= _vtt_first_start(d1):
                    break
                d1, d2 = d2, d1 if rng.random() < 0.5 else mk()
            if _vtt_first_start(d2) > _vtt_first_start(d1):
                d1, d2 = d2, d1

    def rd(doc, opts, r):
        return {"op": "read", "fmt": fmt, "doc": doc, "opts": opts, "ropts": ropts, "r": r}
    ops = [rd(d1, o1, 0)]
    if rng.random() < 0.4:
        bad = vtt_raising_midway(rng) if fmt == "vtt" and rng.random() < 0.7 else bad_doc(rng, fmt)
        ops.append(rd(bad, {}, 0))
    ops.append(rd(d2, o2, 0))
    if rng.random() < 0.5:
        ops.append(rd(d2, o2, 1))
    if rng.random() < 0.3:
        ops.append(rd(d1, o1, 0))
    return ops


def history_c10(rng, maxlen=9):
    """3-9 operations: reads of the six formats on fresh and REUSED reader objects (same document again, another
    document; reader constructor options), API-built sets, writes by any writer in between, edits of a set (add_style,
    rules in place, caption times / style / layout, node append / content, caption removal), and re-reads of a
    document after edits.  SAMI documents sometimes share their <STYLE> block with an earlier one."""
    if rng.random() < 0.2:
        return history_c10_reuse(rng)
    ops = []
    nsets = 0
    readers = {}          # (fmt, ropts) -> reader ids
    rid = 0
    docs = []             # (fmt, doc, opts) read so far
    sami_styles = []
    wid = 0
    n = rng.randint(3, maxlen)
    while len(ops) < n:
        r = rng.random()
        if nsets == 0 or r < 0.45:
            q = rng.random()
            refused = False
            if docs and q < 0.35:
                fmt, doc, opts = rng.choice(docs)          # the same document again (a later read)
                if rng.random() < 0.4:
                    opts = read_opts(rng, fmt)             # ... with other options (offset, lang, roll-up)
            elif q < 0.50 and (nsets or rng.random() < 0.5):
                fmt = rng.choice(FORMATS)                  # a document the reader refuses; the object is used again
                doc, opts = bad_doc(rng, fmt), {}
                refused = True
            elif q < 0.55 and nsets:
                ops.append({"op": "build", "spec": gen_spec(rng)})
                nsets += 1
                continue
            else:
                fmt = rng.choice(FORMATS)
                if fmt == "sami":
                    if sami_styles and rng.random() < 0.5:
                        st = rng.choice(sami_styles)           # another document with the very same <STYLE> text
                    else:
                        st = sami_style(rng)
                        sami_styles.append(st)
                    doc = doc_sami(rng, st)
                else:
                    doc = DOCS[fmt](rng)
                opts = read_opts(rng, fmt)
                docs.append((fmt, doc, opts))
            ropts = reader_opts(rng, fmt)
            key = (fmt, repr(sorted(ropts.items())))
            if readers.get(key) and rng.random() < 0.6:
                use = rng.choice(readers[key])               # reader reuse
            else:
                use = rid
                rid += 1
                readers.setdefault(key, []).append(use)
            ops.append({"op": "read", "fmt": fmt, "doc": doc, "opts": opts, "ropts": ropts, "r": use})
            if rng.random() < 0.25:
                ops[-1]["detect"] = True               # reader.detect(document) is called first
            nsets += 1
            if refused and rng.random() < 0.8:
                # ... and now the SAME reader object reads a valid document
                good = doc_sami(rng) if fmt == "sami" else DOCS[fmt](rng)
                gopts = read_opts(rng, fmt)
                docs.append((fmt, good, gopts))
                ops.append({"op": "read", "fmt": fmt, "doc": good, "opts": gopts, "ropts": ropts, "r": use})
                nsets += 1
        elif r < 0.75:
            ops.append({"op": "edit", "set": rng.randrange(nsets), "edit": gen_edit(rng)})
        else:
            kind, wopts = gen_writer(rng)
            s = rng.randrange(nsets)
            ops.append({"op": "write", "kind": kind, "wopts": wopts, "kw": gen_kw(rng, kind, list(LANGS[:2])),
                        "w": wid, "set": s})
            wid += 1
    return ops


def pristine_twin(history, which=-1):
    """the creation ops of a history, the edits of the written set that precede the write, and ONE of its writes
    (default the last) done by a fresh writer object: what that write returns in a process where nothing else has
    been written (and no other set edited)"""
    widx = [k for k, op in enumerate(history) if op["op"] == "write"]
    if not widx:
        return None
    k = widx[which]
    w = history[k]
    twin = [op for op in history if op["op"] in ("build", "read")]
    last_creation = max([j for j, op in enumerate(history) if op["op"] in ("build", "read")] + [-1])
    for j, op in enumerate(history[:k]):
        if op["op"] == "edit" and op["set"] == w["set"]:
            if j < last_creation:
                return None          # an edit before a later creation op: the order cannot be kept in the twin
            twin.append(op)
    return twin + [dict(w, w=0)]
