"""Caption sets with layouts at every level (set, language, caption, node) for C13 / C12.

Abstract caption set (plain, JSON-able):
  {"global": layout|None, "langs": [{"name": str, "layout": layout|None,
                                     "caps": [{"layout": layout|None, "nodes": [node, ...]}]}]}
  node = ["text", str, layout|None] | ["break", layout|None] | ["style", start(bool), layout|None]
  layout = geom abstract layout (origin, extent, padding, alignment, webvtt)
"""
import impl  # noqa: F401
import geom
from geom import Some
from pycaption import CaptionSet, CaptionList, Caption, CaptionNode

LANGS = ["en-US", "fr", "de"]
WORDS = ["alpha", "beta", "gamma", "delta", "epsilon", "zeta", "eta", "theta"]
KIND = {"text": 1, "style": 2, "ustyle": 4, "break": 3}   # ustyle: a STYLE node whose content is {} (no span attributes)


def kind_code(n):
    """wire code of a node for the flat models (Positioning.v): 1 TEXT, 3 BREAK, STYLE start 2 (tags) / 4 (no tags),
    STYLE end 5 (tags) / 6 (no tags)"""
    if n[0] in ("style", "ustyle") and not n[1]:
        return 5 if n[0] == "style" else 6
    return KIND[n[0]]


def tup(x):
    """JSON lists -> tuples (layouts are nested tuples)"""
    if isinstance(x, list):
        return tuple(tup(y) for y in x)
    return x


def build(acs):
    d = {}
    k = 0
    for lg in acs["langs"]:
        caps = []
        for ci, c in enumerate(lg["caps"]):
            nodes = []
            for n in c["nodes"]:
                lay = None if n[-1] is None else geom.mk_layout(tup(n[-1]))
                if n[0] == "text":
                    nodes.append(CaptionNode.create_text(n[1], layout_info=lay))
                elif n[0] == "break":
                    nodes.append(CaptionNode.create_break(layout_info=lay))
                elif n[0] == "ustyle":
                    nodes.append(CaptionNode.create_style(n[1], {}, layout_info=lay))
                else:
                    nodes.append(CaptionNode.create_style(n[1], {"italics": True}, layout_info=lay))
            lay = None if c["layout"] is None else geom.mk_layout(tup(c["layout"]))
            caps.append(Caption((k + 1) * 2000000, (k + 1) * 2000000 + 1500000, nodes, layout_info=lay))
            k += 1
        lay = None if lg["layout"] is None else geom.mk_layout(tup(lg["layout"]))
        d[lg["name"]] = CaptionList(caps, layout_info=lay)
    g = None if acs["global"] is None else geom.mk_layout(tup(acs["global"]))
    if acs.get("styles"):
        # a style class: SAMIWriter writes the set-level padding as margins of its block
        return CaptionSet(d, styles={"c1": {"color": "white"}}, layout_info=g)
    return CaptionSet(d, layout_info=g)


def w_optlayout(l):
    return None if l is None else Some(geom.a_layout_w(geom.float_layout(tup(l))))


def w_nset(acs):
    langs = []
    for lg in acs["langs"]:
        caps = []
        for c in lg["caps"]:
            caps.append([w_optlayout(c["layout"]), [[kind_code(n), w_optlayout(n[-1])] for n in c["nodes"]]])
        langs.append([w_optlayout(lg["layout"]), caps])
    return [w_optlayout(acs["global"]), langs]


def w_ncap(c):
    return [w_optlayout(c["layout"]), [[kind_code(n), w_optlayout(n[-1])] for n in c["nodes"]]]


def w_cfg(cfg):
    rel, fit, w, h = cfg
    return [rel, fit, None if w is None else Some(geom.exact(w)), None if h is None else Some(geom.exact(h))]


def r_nset(x):
    """model output -> plain: (global, [(lang_layout, [(cap_layout, [(kind, node_layout)])])])"""
    ro = lambda o: geom.r_o(o, geom.r_layout)  # noqa: E731
    return (ro(x[0]), [(ro(lg[0]), [(ro(c[0]), [(n[0], ro(n[1])) for n in c[1]]) for c in lg[1]]) for lg in x[1]])


def gen_layout(rng, units, p_none=0.35, pct_safe=False, with_align=True):
    """layout over the given units; pct_safe: origins inside the safe area, extents that may or may not fit"""
    def val(u, hi=100):
        if u == 2:
            return rng.choice([0, 5, 10, 12.5, 33.33, 50, 80, 89.99, 90, 94.99, 95, 20, 25, 40, 2.675, 47.5]) \
                if rng.random() < 0.8 else rng.randint(0, 9000) / 100.0
        return rng.choice([0, 0.5, 1, 7, 16, 32, 100, 333.333, 1920, 64, 36, 10, 12])

    def size(u=None):
        u = rng.choice(units) if u is None else u
        return (val(u), u)
    o = None if rng.random() < p_none else (size(), size())
    e = None if rng.random() < p_none else (size(), size())
    p = None if rng.random() < 0.5 else tuple(size() for _ in range(4))
    if p is not None and rng.random() < 0.2:
        # Padding(...) built with some parts omitted: they default to 0%
        p = tuple(x if rng.random() < 0.5 else None for x in p)
    a = None
    if with_align and rng.random() > p_none:
        a = (rng.choice([None, 0, 1, 2, 3, 4]), rng.choice([None, 0, 1, 2]))
    if o is None and e is None and p is None and a is None:
        a = (rng.choice([0, 1, 2, 3, 4]), rng.choice([0, 1, 2]))
    return (o, e, p, a, None)


def gen_capset(rng, units, nlangs=(1, 2), ncaps=(1, 3), levels=("lang", "cap", "node"), p_level=0.5,
               span_layouts=True, bare_text_layouts=False, with_global=False, pool=None, break_layouts=False,
               style_only=False, span_text_none=False, unbalanced=False):
    """pool: optional list of layouts to draw from (makes equal layouts at several places frequent)"""
    def lay():
        if pool and rng.random() < 0.6:
            return rng.choice(pool)
        return gen_layout(rng, units)
    acs = {"global": lay() if with_global and rng.random() < 0.5 else None, "langs": []}
    wi = 0
    for li in range(rng.randint(*nlangs)):
        lg = {"name": LANGS[li], "layout": lay() if "lang" in levels and rng.random() < p_level else None, "caps": []}
        for _ in range(rng.randint(*ncaps)):
            cl = lay() if "cap" in levels and rng.random() < p_level else None
            nodes = []
            nlines = rng.randint(1, 3)
            for j in range(nlines):
                if j:
                    nodes.append(["break", lay() if break_layouts and rng.random() < 0.3 else None])
                word = WORDS[wi % len(WORDS)] + str(wi)
                wi += 1
                r = rng.random()
                if "node" in levels and span_layouts and r < 0.35:
                    nl = lay()
                    nodes.append(["style", True, nl])
                    # the text inside usually carries the span's layout (what readers produce); API-built sets may leave it None
                    nodes.append(["text", word, None if span_text_none and rng.random() < 0.5 else nl])
                    if not (unbalanced and rng.random() < 0.2):
                        nodes.append(["style", False, nl])
                elif span_layouts and 0.35 <= r < 0.5:
                    # a style span WITHOUT a layout of its own: its text belongs to the caption's region
                    kind = "style" if rng.random() < 0.8 else "ustyle"
                    nodes.append([kind, True, None])
                    nodes.append(["text", word, None])
                    nodes.append([kind, False, None])
                elif "node" in levels and bare_text_layouts and r < 0.6:
                    nodes.append(["text", word, lay()])
                else:
                    nodes.append(["text", word, cl if rng.random() < 0.5 else None])
            if style_only and rng.random() < 0.15:
                # a caption of STYLE nodes only (no text): WebVTT still writes a cue for it
                nodes = [["style", True, None], ["style", False, None]]
            lg["caps"].append({"layout": cl, "nodes": nodes})
        acs["langs"].append(lg)
    return acs


# ---- DFXP tree model (coq/model/DfxpTree.v, request 1210) --------------------------------------------------------
def word_ids(acs):
    """word -> integer id, in document order"""
    ids = {}
    for lg in acs["langs"]:
        for c in lg["caps"]:
            for n in c["nodes"]:
                if n[0] == "text":
                    ids[n[1]] = len(ids)
    return ids


def w_dset(acs, transformed, ids):
    """wire dset: the nodes of acs with the (already transformed, wire-form) layouts of `transformed` = (g, langs)"""
    out = []
    for lg, (ll, caps) in zip(acs["langs"], transformed[1]):
        wcaps = []
        for c, (cl, nodes) in zip(lg["caps"], caps):
            wn = []
            for n, (kind, nl) in zip(c["nodes"], nodes):
                wn.append([KIND[n[0]], bool(n[1]) if n[0] in ("style", "ustyle") else False, n[0] == "style", nl,
                           ids[n[1]] if n[0] == "text" else 0])
            wcaps.append([cl, wn])
        out.append([ll, wcaps])
    return out


def node_levels(nodes):
    """per node index: (index of the node whose layout is the node-level layout of this text, or None).
    Statement reading (DESIGN 7.0 ix): a text node's own layout, else the layout of the nearest enclosing STYLE span
    that has one (proper nesting of start/end nodes)."""
    stack, out = [], []
    for i, n in enumerate(nodes):
        if n[0] in ("style", "ustyle"):
            if n[1]:
                stack.append(i)
            elif stack:
                stack.pop()
            out.append(None)
        elif n[0] == "text":
            src = None
            if has_parts(n[-1]):
                src = i
            else:
                for j in reversed(stack):
                    if has_parts(nodes[j][-1]):
                        src = j
                        break
            out.append(src)
        else:
            out.append(None)
    return out


def has_parts(l):
    return l is not None and any(x is not None for x in tup(l)[:4])


def written_span(nodes):
    """per node index: index of the STYLE node whose <span> DFXPWriter has open when this node is written (the writer
    never nests spans: a new span closes the open one, a style end closes whatever is open), or None"""
    cur, out = None, []
    for i, n in enumerate(nodes):
        if n[0] in ("style", "ustyle"):
            if n[1]:
                if n[0] == "style" or (n[-1] is not None and (has_parts(n[-1]) or bool(tup(n[-1])[4]))):
                    cur = i
            else:
                cur = None
            out.append(None)
        else:
            out.append(cur)
    return out


PCT_LAYOUTS = {
    "L": (((10, 2), (10, 2)), ((80, 2), (20, 2)), None, (0, 2), None),
    "C": (((20, 2), (60, 2)), ((60, 2), (30, 2)), ((1, 2), (2, 2), (3, 2), (4, 2)), (1, 0), None),
    "S": (((30, 2), (5, 2)), None, None, (2, None), None),
    "S2": (((45, 2), (45, 2)), ((40, 2), (12.5, 2)), None, None, None),
    # exactly the DFXP default region (alignment start / after only): resolves to region "bottom"
    "D": (None, None, None, (3, 2), None),
    # an Alignment object with nothing set: a region without attributes, reads back as the defaults too
    "D0": (None, None, None, (None, None), None),
}


def span_grid():
    """exhaustive: {language layout absent / present / exactly the DFXP default} x {caption layout absent / equal to the
    language's / different / exactly the DFXP default (alignment start/after only) / an empty Alignment}
    x {span without own layout / with its own / with exactly the DFXP default / with an empty Alignment / equal to the
    caption's} x nesting depth 1-2 (inner span with / without own layout) x styled / unstyled style node (unstyled: depth 1
    only); text inside and outside the span(s)."""
    out = []
    for lang in (None, "L", "D"):
        for cap in (None, "eq", "C", "D", "D0"):
            for styled in ("style", "ustyle"):
                for s1 in (None, "S", "D", "D0", "eqC"):
                    for depth, s2 in ((1, None), (2, None), (2, "S2")):
                        if styled == "ustyle" and depth == 2:
                            continue
                        ll = PCT_LAYOUTS[lang] if lang else None
                        if cap is None:
                            cl = None
                        elif cap == "eq":
                            cl = ll if ll is not None else PCT_LAYOUTS["L"]
                        else:
                            cl = PCT_LAYOUTS[cap]
                        if s1 == "eqC":
                            # node layout equal to the caption's (a separately built, equal Layout object)
                            if cl is None:
                                continue
                            a = cl
                        else:
                            a = PCT_LAYOUTS[s1] if s1 else None
                        b = PCT_LAYOUTS["S2"] if s2 else None
                        inner_txt = b if b else a            # reader convention: a text carries the nearest region layout
                        nodes = [["text", "out0", None], ["break", None], [styled, True, a], ["text", "in1", a]]
                        if depth == 2:
                            nodes += [["style", True, b], ["text", "deep", inner_txt], ["style", False, b], ["text", "in2", a]]
                        nodes += [[styled, False, a], ["break", None], ["text", "out1", None]]
                        out.append({"global": None, "langs": [{"name": "en-US", "layout": ll,
                                                               "caps": [{"layout": cl, "nodes": nodes}]}]})
    return out


def alignment_grid():
    """every (horizontal, vertical) alignment pair (6 x 4 incl. None) at language, caption and span level, next to an origin"""
    out = []
    for h in (None, 0, 1, 2, 3, 4):
        for v in (None, 0, 1, 2):
            lay = (((10, 2), (20, 2)), None, None, (h, v), None)
            only = (None, None, None, (h, v), None)
            for level in ("lang", "cap", "span"):
                for l in (lay, only):
                    nodes = [["text", "w0", None]]
                    if level == "span":
                        nodes += [["break", None], ["style", True, l], ["text", "w1", l], ["style", False, l]]
                    out.append({"global": None, "langs": [{"name": "en-US", "layout": l if level == "lang" else None,
                                                           "caps": [{"layout": l if level == "cap" else None, "nodes": nodes}]}]})
    return out


def padding_grid():
    """Padding objects with every subset of omitted parts (they default to 0%), at caption and span level"""
    out = []
    for mask in range(16):
        pad = tuple((1 + i, 2) if mask & (1 << i) else None for i in range(4))
        lay = (((10, 2), (20, 2)), ((60, 2), (30, 2)), pad, None, None)
        for level in ("cap", "span"):
            nodes = [["text", "w0", None]]
            if level == "span":
                nodes += [["break", None], ["style", True, lay], ["text", "w1", lay], ["style", False, lay]]
            out.append({"global": None, "langs": [{"name": "en-US", "layout": None,
                                                   "caps": [{"layout": lay if level == "cap" else None, "nodes": nodes}]}]})
    return out


def many_layouts():
    """14 pairwise different layouts in one set: region ids r0 .. r13 (two digits)"""
    caps = []
    for i in range(14):
        caps.append({"layout": (((i, 2), (2 * i, 2)), None, None, None, None), "nodes": [["text", "w%d" % i, None]]})
    return {"global": None, "langs": [{"name": "en-US", "layout": None, "caps": caps}]}


def set_level_cases():
    """set-level layout: alone, and equal to a layout that has a region (then get_positioning_info finds that region)"""
    g = (((40, 2), (40, 2)), None, None, None, None)
    return [
        {"global": g, "langs": [{"name": "en-US", "layout": None, "caps": [{"layout": None, "nodes": [["text", "w0", None]]}]}]},
        {"global": g, "langs": [{"name": "en-US", "layout": None, "caps": [{"layout": None, "nodes": [["text", "w0", None]]}]},
                                {"name": "fr", "layout": None, "caps": [{"layout": g, "nodes": [["text", "w1", None]]}]}]},
        {"global": g, "langs": [{"name": "en-US", "layout": PCT_LAYOUTS["L"], "caps": [{"layout": None, "nodes": [["text", "w0", None]]}]}]},
    ]
