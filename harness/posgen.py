"""Caption sets with layouts at every level (set, language, caption, node) for C13 / C12.

Abstract caption set (plain, JSON-able):
  {"global": layout|None, "langs": [{"name": str, "layout": layout|None,
                                     "caps": [{"layout": layout|None, "nodes": [node, ...]}]}]}
  node = ["text", str, layout|None] | ["break", layout|None] | ["style", start(bool), layout|None]
  layout = geom abstract layout (origin, extent, padding, alignment, webvtt)
"""
import impl  # noqa: F401
import geom
from geom import Some
from pycaption import CaptionSet, CaptionList, Caption, CaptionNode

LANGS = ["en-US", "fr", "de"]
WORDS = ["alpha", "beta", "gamma", "delta", "epsilon", "zeta", "eta", "theta"]
KIND = {"text": 1, "style": 2, "break": 3}


def tup(x):
    """JSON lists -> tuples (layouts are nested tuples)"""
    if isinstance(x, list):
        return tuple(tup(y) for y in x)
    return x


def build(acs):
    d = {}
    k = 0
    for lg in acs["langs"]:
        caps = []
        for ci, c in enumerate(lg["caps"]):
            nodes = []
            for n in c["nodes"]:
                lay = None if n[-1] is None else geom.mk_layout(tup(n[-1]))
                if n[0] == "text":
                    nodes.append(CaptionNode.create_text(n[1], layout_info=lay))
                elif n[0] == "break":
                    nodes.append(CaptionNode.create_break(layout_info=lay))
                else:
                    nodes.append(CaptionNode.create_style(n[1], {"italics": True}, layout_info=lay))
            lay = None if c["layout"] is None else geom.mk_layout(tup(c["layout"]))
            caps.append(Caption((k + 1) * 2000000, (k + 1) * 2000000 + 1500000, nodes, layout_info=lay))
            k += 1
        lay = None if lg["layout"] is None else geom.mk_layout(tup(lg["layout"]))
        d[lg["name"]] = CaptionList(caps, layout_info=lay)
    g = None if acs["global"] is None else geom.mk_layout(tup(acs["global"]))
    return CaptionSet(d, layout_info=g)


def w_optlayout(l):
    return None if l is None else Some(geom.a_layout_w(geom.float_layout(tup(l))))


def w_nset(acs):
    langs = []
    for lg in acs["langs"]:
        caps = []
        for c in lg["caps"]:
            caps.append([w_optlayout(c["layout"]), [[KIND[n[0]], w_optlayout(n[-1])] for n in c["nodes"]]])
        langs.append([w_optlayout(lg["layout"]), caps])
    return [w_optlayout(acs["global"]), langs]


def w_ncap(c):
    return [w_optlayout(c["layout"]), [[KIND[n[0]], w_optlayout(n[-1])] for n in c["nodes"]]]


def w_cfg(cfg):
    rel, fit, w, h = cfg
    return [rel, fit, None if w is None else Some(geom.exact(w)), None if h is None else Some(geom.exact(h))]


def r_nset(x):
    """model output -> plain: (global, [(lang_layout, [(cap_layout, [(kind, node_layout)])])])"""
    ro = lambda o: geom.r_o(o, geom.r_layout)  # noqa: E731
    return (ro(x[0]), [(ro(lg[0]), [(ro(c[0]), [(n[0], ro(n[1])) for n in c[1]]) for c in lg[1]]) for lg in x[1]])


def gen_layout(rng, units, p_none=0.35, pct_safe=False, with_align=True):
    """layout over the given units; pct_safe: origins inside the safe area, extents that may or may not fit"""
    def val(u, hi=100):
        if u == 2:
            return rng.choice([0, 5, 10, 12.5, 33.33, 50, 80, 89.99, 90, 94.99, 95, 20, 25, 40, 2.675, 47.5]) \
                if rng.random() < 0.8 else rng.randint(0, 9000) / 100.0
        return rng.choice([0, 0.5, 1, 7, 16, 32, 100, 333.333, 1920, 64, 36, 10, 12])

    def size(u=None):
        u = rng.choice(units) if u is None else u
        return (val(u), u)
    o = None if rng.random() < p_none else (size(), size())
    e = None if rng.random() < p_none else (size(), size())
    p = None if rng.random() < 0.5 else tuple(size() for _ in range(4))
    a = None
    if with_align and rng.random() > p_none:
        a = (rng.choice([None, 0, 1, 2, 3, 4]), rng.choice([None, 0, 1, 2]))
    if o is None and e is None and p is None and a is None:
        a = (rng.choice([0, 1, 2, 3, 4]), rng.choice([0, 1, 2]))
    return (o, e, p, a, None)


def gen_capset(rng, units, nlangs=(1, 2), ncaps=(1, 3), levels=("lang", "cap", "node"), p_level=0.5,
               span_layouts=True, bare_text_layouts=False, with_global=False, pool=None):
    """pool: optional list of layouts to draw from (makes equal layouts at several places frequent)"""
    def lay():
        if pool and rng.random() < 0.6:
            return rng.choice(pool)
        return gen_layout(rng, units)
    acs = {"global": lay() if with_global and rng.random() < 0.5 else None, "langs": []}
    wi = 0
    for li in range(rng.randint(*nlangs)):
        lg = {"name": LANGS[li], "layout": lay() if "lang" in levels and rng.random() < p_level else None, "caps": []}
        for _ in range(rng.randint(*ncaps)):
            cl = lay() if "cap" in levels and rng.random() < p_level else None
            nodes = []
            nlines = rng.randint(1, 3)
            for j in range(nlines):
                if j:
                    nodes.append(["break", None])
                word = WORDS[wi % len(WORDS)] + str(wi)
                wi += 1
                r = rng.random()
                if "node" in levels and span_layouts and r < 0.35:
                    nl = lay()
                    nodes.append(["style", True, nl])
                    nodes.append(["text", word, nl])
                    nodes.append(["style", False, nl])
                elif "node" in levels and bare_text_layouts and r < 0.6:
                    nodes.append(["text", word, lay()])
                else:
                    nodes.append(["text", word, cl if rng.random() < 0.5 else None])
            lg["caps"].append({"layout": cl, "nodes": nodes})
        acs["langs"].append(lg)
    return acs
