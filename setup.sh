#!/bin/sh
# Build the framework from files on disk only (offline): Coq development (full .vo), extraction, driver.
set -e
HERE="$(cd "$(dirname "$0")" && pwd)"
cd "$HERE"
REPO="${VERIF_REPO:-/repo}"
env -u PYCAPTION_DEFAULT_LANG PYTHONPATH="$REPO" PYTHONHASHSEED=0 /venv/bin/python gen/gen_tables.py coq/model/Generated.v
/venv/bin/python tools/genproject.py
cd coq
coq_makefile -f _CoqProject -o Makefile.coq
timeout 3000 make -f Makefile.coq -j16
mkdir -p extract/ml ../bin
cd extract/ml
timeout 600 coqc -Q ../.. PV ../Extract.v
cp ../driver.ml .
ocamlfind ocamlopt -w -a oracle.mli oracle.ml driver.ml -o ../../../bin/oracle
cd "$HERE"
echo "1 2 0 2000 2 1 49" | bin/oracle >/dev/null
/venv/bin/python tools/mkmanifest.py --check
echo SETUP-OK
