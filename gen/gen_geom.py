"""Translator section for the geometry properties (C18, C13, C12): the enumerations of pycaption/geometry.py in
definition order (member name, value).  The size grammar is built by the code from UnitEnum's values in this
order, so the table is what ties the unit alternatives of the model to the working tree."""
TARGET = "GenGeom.v"


def emit(w, get, fail, zlit, strlit, word):
    for coqname, pyname in (("unit_enum", "UnitEnum"), ("halign_enum", "HorizontalAlignmentEnum"),
                            ("valign_enum", "VerticalAlignmentEnum")):
        enum = get("pycaption.geometry", pyname)
        try:
            members = [(m.name, m.value) for m in enum]
        except Exception as e:  # noqa
            fail("pycaption.geometry." + pyname, f"not an enumeration: {e}")
        for n, v in members:
            if not isinstance(n, str) or not isinstance(v, str):
                fail("pycaption.geometry." + pyname, f"member {n!r} = {v!r} is not a string pair")
        w(f"Definition {coqname} : list (list Z * list Z) :=")
        w("  [" + ";\n   ".join(f"({strlit(n)}, {strlit(v)})" for n, v in members) + "].")
        w("")
