"""Translator section for the SCC READER tables (C05 C06 C15 C16): pycaption.scc.constants -> coq/model/GenScc.v.

Words ('94ae') and bytes ('ae') become Z (int(w, 16)); characters become code points; dicts become association
lists in the dict's own iteration order; strings become `list Z`.
Keys of the command tables that are not 4 hex digits (the source contains a few 5-character typos such as '15462')
can never equal a code word of a stream (the reader only looks at 4-character tokens); they are dropped and counted
in `scc_dropped_keys`.  Everything else fails closed.
"""
from fractions import Fraction

TARGET = "GenScc.v"
MOD = "pycaption.scc.constants"
HEX = set("0123456789abcdef")


def emit(w, get, fail, zlit, strlit, word):
    dropped = [0]

    def is_word(k):
        return isinstance(k, str) and len(k) == 4 and set(k) <= HEX

    def words_of(name, obj):
        """keys / items of a table of code words -> list of ints (bad keys dropped and counted)"""
        if not isinstance(obj, (dict, list, tuple)):
            fail(f"{MOD}.{name}", f"unexpected type {type(obj).__name__}")
        res = []
        for k in obj:
            if not isinstance(k, str):
                fail(f"{MOD}.{name}", f"key is not a str: {k!r}")
            if is_word(k):
                res.append(int(k, 16))
            else:
                dropped[0] += 1
        return res

    def zlist(name, l, per_line=16):
        w(f"Definition {name} : list Z := [")
        for i in range(0, len(l), per_line):
            w("  " + "; ".join(zlit(x) for x in l[i:i + per_line]) + (";" if i + per_line < len(l) else ""))
        w("].")
        w("")

    def strmap(name, obj, keylen):
        """dict code -> str   as   list (Z * list Z)"""
        if not isinstance(obj, dict):
            fail(f"{MOD}.{name}", "not a dict")
        items = []
        for k, v in obj.items():
            if not (isinstance(k, str) and len(k) == keylen and set(k) <= HEX):
                fail(f"{MOD}.{name}", f"key is not {keylen} lower-case hex digits: {k!r}")
            if not isinstance(v, str):
                fail(f"{MOD}.{name}", f"value is not a str: {v!r}")
            items.append(f"({int(k, 16)}, {strlit(v, name)})")
        return items

    def put_items(name, ty, items, per_line=6):
        w(f"Definition {name} : list ({ty}) := [")
        for i in range(0, len(items), per_line):
            w("  " + "; ".join(items[i:i + per_line]) + (";" if i + per_line < len(items) else ""))
        w("].")
        w("")

    w("(* SCC reader tables. Words/bytes are integers (int(hex)), characters are code points. *)")
    w("")
    put_items("scc_characters", "Z * list Z", strmap("CHARACTERS", get(MOD, "CHARACTERS"), 2))
    put_items("scc_special_chars", "Z * list Z", strmap("SPECIAL_CHARS", get(MOD, "SPECIAL_CHARS"), 4))
    put_items("scc_extended_chars", "Z * list Z", strmap("EXTENDED_CHARS", get(MOD, "EXTENDED_CHARS"), 4))

    zlist("scc_commands", words_of("COMMANDS", get(MOD, "COMMANDS")))

    pac = get(MOD, "PAC_BYTES_TO_POSITIONING_MAP")
    if not isinstance(pac, dict):
        fail(f"{MOD}.PAC_BYTES_TO_POSITIONING_MAP", "not a dict")
    items = []
    for hi, sub in pac.items():
        if not (isinstance(hi, str) and len(hi) == 2 and set(hi) <= HEX and isinstance(sub, dict)):
            fail(f"{MOD}.PAC_BYTES_TO_POSITIONING_MAP", f"bad high byte entry {hi!r}")
        for lo, pos in sub.items():
            if not (isinstance(lo, str) and len(lo) == 2 and set(lo) <= HEX):
                fail(f"{MOD}.PAC_BYTES_TO_POSITIONING_MAP", f"bad low byte {lo!r}")
            if not (isinstance(pos, tuple) and len(pos) == 2 and all(isinstance(x, int) and not isinstance(x, bool)
                                                                     for x in pos)):
                fail(f"{MOD}.PAC_BYTES_TO_POSITIONING_MAP", f"bad position {pos!r}")
            items.append(f"({int(hi + lo, 16)}, ({zlit(pos[0])}, {zlit(pos[1])}))")
    put_items("scc_pac", "Z * (Z * Z)", items, 5)

    to = get(MOD, "PAC_TAB_OFFSET_COMMANDS")
    if not isinstance(to, dict):
        fail(f"{MOD}.PAC_TAB_OFFSET_COMMANDS", "not a dict")
    items = []
    for k, v in to.items():
        if not is_word(k) or not isinstance(v, int) or isinstance(v, bool):
            fail(f"{MOD}.PAC_TAB_OFFSET_COMMANDS", f"bad entry {k!r}: {v!r}")
        items.append(f"({int(k, 16)}, {zlit(v)})")
    put_items("scc_tab_offsets", "Z * Z", items)

    for name, coqname in [("MID_ROW_CODES", "scc_mid_row_codes"),
                          ("BACKGROUND_COLOR_CODES", "scc_background_color_codes"),
                          ("CUE_STARTING_COMMAND", "scc_cue_starting_commands"),
                          ("ITALICS_COMMANDS", "scc_italics_commands"),
                          ("UNDERLINE_COMMANDS", "scc_underline_commands"),
                          ("PLAIN_TEXT_COMMANDS", "scc_plain_text_commands"),
                          ("STYLE_SETTING_COMMANDS", "scc_style_setting_commands")]:
        zlist(coqname, words_of(name, get(MOD, name)))

    us = get(MOD, "MICROSECONDS_PER_CODEWORD")
    if isinstance(us, bool) or not isinstance(us, (int, float)):
        fail(f"{MOD}.MICROSECONDS_PER_CODEWORD", f"not a number: {us!r}")
    fr = Fraction(*us.as_integer_ratio()) if isinstance(us, float) else Fraction(us)
    w("(* MICROSECONDS_PER_CODEWORD, the exact value of the binary64 constant (as_integer_ratio) *)")
    w(f"Definition scc_us_per_codeword_num : Z := {zlit(fr.numerator)}.")
    w(f"Definition scc_us_per_codeword_den : Z := {zlit(fr.denominator)}.")
    w("")
    w(f"Definition scc_dropped_keys : Z := {zlit(dropped[0])}.")
