"""Translator section for the text properties (C04): the entity table SAMIParser uses.
   coq/model/GenText.v :  sami_name2codepoint : list (list Z * Z)   (name -> code point, sorted by name)"""
TARGET = "GenText.v"


def emit(w, get, fail, zlit, strlit, word):
    cls = get("pycaption.sami", "SAMIParser")
    try:
        table = cls().name2codepoint
    except Exception as e:  # noqa
        fail("pycaption.sami.SAMIParser().name2codepoint", f"{type(e).__name__}: {e}")
    if not isinstance(table, dict) or not table:
        fail("pycaption.sami.SAMIParser().name2codepoint", "not a non-empty dict")
    w("(* SAMIParser().name2codepoint : html.entities.name2codepoint + apos *)")
    w("Definition sami_name2codepoint : list (list Z * Z) := [")
    items = sorted(table.items())
    for k, (name, cp) in enumerate(items):
        if not isinstance(name, str) or not isinstance(cp, int):
            fail("name2codepoint", f"unexpected entry {name!r}: {cp!r}")
        w("  (" + strlit(name) + ", " + zlit(cp) + ")" + (";" if k < len(items) - 1 else ""))
    w("].")
