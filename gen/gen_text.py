"""Translator section for the text properties (C03, C04).
   coq/model/GenText.v :
     sami_name2codepoint : list (list Z * Z)        the entity table SAMIParser uses (name -> code point)
     html4_entities      : list (list Z * Z)        html.entities.name2codepoint of the Python standard library
     html5_entities      : list (list Z * list Z)   html.entities.html5, names with ';' only (name without ';' -> text):
                                                    the named character references of HTML, used by the WebVTT reference
                                                    parser (spec) - standard library data, not pycaption's
     vtt_voice_pattern, vtt_other_pattern : list Z  the two regular expressions of pycaption/webvtt.py, as text"""
TARGET = "GenText.v"


def emit(w, get, fail, zlit, strlit, word):
    cls = get("pycaption.sami", "SAMIParser")
    try:
        table = cls().name2codepoint
    except Exception as e:  # noqa
        fail("pycaption.sami.SAMIParser().name2codepoint", f"{type(e).__name__}: {e}")
    if not isinstance(table, dict) or not table:
        fail("pycaption.sami.SAMIParser().name2codepoint", "not a non-empty dict")
    w("(* SAMIParser().name2codepoint : html.entities.name2codepoint + apos *)")
    w("Definition sami_name2codepoint : list (list Z * Z) := [")
    items = sorted(table.items())
    for k, (name, cp) in enumerate(items):
        if not isinstance(name, str) or not isinstance(cp, int):
            fail("name2codepoint", f"unexpected entry {name!r}: {cp!r}")
        w("  (" + strlit(name) + ", " + zlit(cp) + ")" + (";" if k < len(items) - 1 else ""))
    w("].")

    import html.entities as he
    w("")
    w("Definition html4_entities : list (list Z * Z) := [")
    items = sorted(he.name2codepoint.items())
    for k, (name, cp) in enumerate(items):
        w("  (" + strlit(name) + ", " + zlit(cp) + ")" + (";" if k < len(items) - 1 else ""))
    w("].")
    w("")
    w("Definition html5_entities : list (list Z * list Z) := [")
    items = sorted((n[:-1], v) for n, v in he.html5.items() if n.endswith(";"))
    for k, (name, val) in enumerate(items):
        w("  (" + strlit(name) + ", " + strlit(val) + ")" + (";" if k < len(items) - 1 else ""))
    w("].")
    w("")
    voice = get("pycaption.webvtt", "VOICE_SPAN_PATTERN")
    other = get("pycaption.webvtt", "OTHER_SPAN_PATTERN")
    for nm, pat in (("vtt_voice_pattern", voice), ("vtt_other_pattern", other)):
        if not hasattr(pat, "pattern") or not isinstance(pat.pattern, str):
            fail("pycaption.webvtt." + nm, "not a compiled str pattern")
        w("Definition " + nm + " : list Z := " + strlit(pat.pattern) + ".")
