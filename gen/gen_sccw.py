"""Translator section for the SCC WRITER tables (C17) -> coq/model/GenSccw.v.

Everything the writer looks up is re-emitted from the working tree:
  CHARACTER_TO_CODE, SPECIAL_OR_EXTENDED_CHAR_TO_CODE   (code point -> byte / 16-bit word)
  PAC_HIGH_BYTE_BY_ROW, PAC_LOW_BYTE_BY_ROW_RESTRICTED  (index = row; a non-hex entry such as 'xx' becomes -1)
  HEADER, MICROSECONDS_PER_CODEWORD (exact ratio of the binary64 value)
plus the reader's CHARACTERS table (own copy, used only by the re-read spec of C17: byte -> code point).
Fail-closed: unexpected shapes abort the section (TRANSLATOR-FAILED <name>)."""
TARGET = "GenSccw.v"


def emit(w, get, fail, zlit, strlit, word):
    C = "pycaption.scc.constants"

    def byte(b, name):
        if not (isinstance(b, str) and len(b) == 2):
            fail(name, f"not a 2-hex-digit byte: {b!r}")
        try:
            return int(b, 16)
        except ValueError:
            fail(name, f"not hex: {b!r}")

    def byte_or_neg(b, name):
        if not (isinstance(b, str) and len(b) == 2):
            fail(name, f"not a 2-character entry: {b!r}")
        try:
            return int(b, 16)
        except ValueError:
            return -1

    def pairs(name, items):
        w(f"Definition {name} : list (Z * Z) :=")
        w("  [" + ";\n   ".join(f"({zlit(a)}, {zlit(b)})" for a, b in items) + "].")
        w("")

    c2c = get(C, "CHARACTER_TO_CODE")
    if not isinstance(c2c, dict):
        fail(C + ".CHARACTER_TO_CODE", "not a dict")
    items = []
    for ch, code in c2c.items():
        if not isinstance(ch, str) or len(ch) > 1:
            fail(C + ".CHARACTER_TO_CODE", f"key is not a single character: {ch!r}")
        if ch == "":
            byte(code, C + ".CHARACTER_TO_CODE['']")     # the no-op filler; never looked up for a character
            continue
        items.append((ord(ch), byte(code, C + ".CHARACTER_TO_CODE")))
    w("(* CHARACTER_TO_CODE: code point -> byte (the '' key, the filler, is never looked up for a character) *)")
    pairs("sccw_character_to_code", items)

    s2c = get(C, "SPECIAL_OR_EXTENDED_CHAR_TO_CODE")
    if not isinstance(s2c, dict):
        fail(C + ".SPECIAL_OR_EXTENDED_CHAR_TO_CODE", "not a dict")
    items = []
    for ch, code in s2c.items():
        if not isinstance(ch, str) or len(ch) != 1:
            fail(C + ".SPECIAL_OR_EXTENDED_CHAR_TO_CODE", f"key is not a single character: {ch!r}")
        items.append((ord(ch), word(code, C + ".SPECIAL_OR_EXTENDED_CHAR_TO_CODE")))
    w("(* SPECIAL_OR_EXTENDED_CHAR_TO_CODE: code point -> 16-bit word *)")
    pairs("sccw_special_or_extended_to_code", items)

    hi = get(C, "PAC_HIGH_BYTE_BY_ROW")
    lo = get(C, "PAC_LOW_BYTE_BY_ROW_RESTRICTED")
    for nm, t in (("PAC_HIGH_BYTE_BY_ROW", hi), ("PAC_LOW_BYTE_BY_ROW_RESTRICTED", lo)):
        if not isinstance(t, (list, tuple)):
            fail(C + "." + nm, "not a list")
    w("(* index = row number; -1 = not a hex byte (the 'xx' placeholder of row 0) *)")
    w("Definition sccw_pac_high_byte_by_row : list Z := ["
      + "; ".join(zlit(byte_or_neg(b, C + ".PAC_HIGH_BYTE_BY_ROW")) for b in hi) + "].")
    w("Definition sccw_pac_low_byte_by_row_restricted : list Z := ["
      + "; ".join(zlit(byte_or_neg(b, C + ".PAC_LOW_BYTE_BY_ROW_RESTRICTED")) for b in lo) + "].")
    w("")

    w("Definition sccw_header : list Z := " + strlit(get(C, "HEADER"), C + ".HEADER") + ".")
    mpc = get(C, "MICROSECONDS_PER_CODEWORD")
    if isinstance(mpc, bool) or not isinstance(mpc, (int, float)):
        fail(C + ".MICROSECONDS_PER_CODEWORD", f"not a number: {mpc!r}")
    num, den = (float(mpc)).as_integer_ratio()
    w("(* MICROSECONDS_PER_CODEWORD, exact value of the binary64 constant *)")
    w(f"Definition sccw_mpc_num : Z := {zlit(num)}.")
    w(f"Definition sccw_mpc_den : Z := {zlit(den)}.")
    w("")

    chars = get(C, "CHARACTERS")
    if not isinstance(chars, dict):
        fail(C + ".CHARACTERS", "not a dict")
    items = []
    for code, ch in chars.items():
        if not isinstance(ch, str) or len(ch) > 1:
            fail(C + ".CHARACTERS", f"value is not a character: {ch!r}")
        items.append((byte(code, C + ".CHARACTERS"), ord(ch) if ch else -1))
    w("(* the READER's CHARACTERS: byte -> code point (-1 = prints nothing); own copy for the re-read spec *)")
    pairs("sccw_reader_characters", items)
