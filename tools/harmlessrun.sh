#!/bin/sh
# usage: tools/harmlessrun.sh <dir with patch.diff [equiv.py]> Cxx [Cxx ...]
# False-alarm measurement: applies a behaviour-preserving rewrite to a scratch copy of $VERIF_REPO (default /repo), runs the
# pinned tests, the rewrite's own differential digest (equiv.py, clean vs rewritten) and the given quick checks against the
# copy; a check that exits non-zero here is a false alarm (or the rewrite is not harmless - look at the replay).
set -u
V="$(cd "$(dirname "$0")/.." && pwd)"
D="$(readlink -f "$1")"; shift
R="${VERIF_REPO:-/repo}"
S="$(mktemp -d /tmp/pyc_harm.XXXXXX)"
rsync -a --exclude .git --exclude '*.egg-info' "$R/" "$S/"
( cd "$S" && patch -p1 -s --fuzz=3 < "$D/patch.diff" ) || { echo "HARMLESS $(basename $D): PATCH-FAILED"; rm -rf "$S"; exit 2; }
TESTS=$("$V/tools/runtests.sh" "$S" | tail -1)
EQ="n/a"
if [ -f "$D/equiv.py" ]; then
  A=$(cd "$D" && PYTHONPATH="$R" PYTHONHASHSEED=0 timeout 600 /venv/bin/python equiv.py 2>/dev/null | tail -1)
  B=$(cd "$D" && PYTHONPATH="$S" PYTHONHASHSEED=0 timeout 600 /venv/bin/python equiv.py 2>/dev/null | tail -1)
  [ "$A" = "$B" ] && EQ=same || EQ=DIFFERENT
fi
cd "$V"
RES=""
for P in "$@"; do
  OUT=$(VERIF_REPO="$S" ./check "$P" quick 2>&1); RC=$?
  NF=$(echo "$OUT" | grep -c "no-failing-input-found")
  VI=$(echo "$OUT" | grep -c "^VIOLATION")
  RES="$RES $P:rc=$RC,viol=$VI,nofail=$NF"
  [ $RC -ne 0 ] && echo "$OUT" | grep -E "^VIOLATION|disagree|broken" | head -5 | sed "s/^/    [$P] /"
done
rm -rf "$S"
env -u PYCAPTION_DEFAULT_LANG PYTHONPATH="$R" PYTHONHASHSEED=0 /venv/bin/python "$V/gen/gen_tables.py" "$V/coq/model/Generated.v" >/dev/null
echo "HARMLESS $(basename $D): tests[$TESTS] equiv=$EQ checks:$RES"
