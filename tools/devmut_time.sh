#!/bin/sh
# developer helper (builder "time"): devmut_time.sh <patch.diff> <Cxx> - apply a mutant to a scratch copy of $VERIF_REPO,
# run the pinned tests and the property's harness (no Coq build), print the summary lines, remove the copy
PATCH="$(readlink -f "$1")"; P="$2"
V="$(cd "$(dirname "$0")/.." && pwd)"
R="${VERIF_REPO:-/tmp/wr_time}"
S="$(mktemp -d /tmp/pyc_mut.XXXXXX)"
rsync -a --exclude .git --exclude '*.egg-info' "$R/" "$S/"
cd "$S" && patch -p1 -s < "$PATCH" || { echo "PATCH-FAILED"; rm -rf "$S"; exit 2; }
echo "--- $(basename "$PATCH") tests: $("$V/tools/runtests.sh" "$S" | tail -1)"
cd "$V" && VERIF_REPO="$S" tools/devrun_time.py "$P" quick 2>&1 | grep -E "^evaluations|^VIOLATION|^DISAGREE" | cut -c1-160 | sort | uniq -c | sort -rn | head -${3:-12}
rm -rf "$S"
