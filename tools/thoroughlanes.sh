#!/bin/sh
# usage: tools/thoroughlanes.sh "C01 C02" "C05" ...   each argument is a lane of properties run sequentially (thorough tier);
# lanes run in parallel. Prints one line per check. Meant for `vp run -- sh -c './setup.sh && tools/thoroughlanes.sh ...'`.
V="$(cd "$(dirname "$0")/.." && pwd)"; cd "$V"
i=0
for L in "$@"; do i=$((i+1)); ( for P in $L; do S=$(date +%s); OUT=$(./check $P thorough 2>&1); RC=$?; echo "$P rc=$RC $(( $(date +%s)-S ))s $(echo "$OUT" | tail -1)"; echo "$OUT" | grep -E "^VIOLATION" | sed 's/^/    /'; done > /tmp/thl_$$.$i.log 2>&1 ) & done
wait
cat /tmp/thl_$$.*.log; rm -f /tmp/thl_$$.*.log
