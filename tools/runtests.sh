#!/bin/sh
# usage: runtests.sh <repo dir>  -> prints "passed N failed M"
cd "$1" && /venv/bin/python -m pytest -ra -q -p no:cacheprovider --timeout=900 --continue-on-collection-errors 2>&1 | tail -4
