#!/venv/bin/python
"""Regenerate /verif/MANIFEST.json from the table below (so that it is always schema-valid and current).
   --check : only validate the committed JSON files structurally."""
import json
import os
import sys

VERIF = os.path.dirname(os.path.dirname(os.path.abspath(__file__)))

BASE_NOTE = ("Trusted: Coq 8.16.1 kernel (vm_compute, no native_compute); no axioms (Print Assumptions under every "
             "theorem of coq/props/{pid}.v says 'Closed under the global context'); extraction with ExtrOcamlBasic "
             "only + coq/extract/driver.ml; gen/gen_tables.py; the Python harness (generators, canonicalisation). "
             "The model is hand-written Gallina; it is tied to /repo on every run by regenerating the constant tables "
             "and by the correspondence streams (model vs implementation on the same inputs through the public API). ")

# pid -> dict(claimed, text, note, technique, design)
P = {
    "C19": dict(
        text="Theorems (all caption lists, all rational skews/offsets, all run structures): the model of "
             "adjust_caption_timing equals filter(start'>=0) o map(t -> t*skew+off) with nodes and order kept; the "
             "model of merge_concurrent_captions equals map join (maximal runs), never raises, is idempotent. "
             "Correspondence: the extracted model and the property oracle are run against the real functions on "
             "generated caption sets (node identity tracked).",
        note="Python float arithmetic t*skew+offset is modelled exactly in Q; observations compared within 2^-10 us; "
             "inputs whose retimed start lies within that margin of 0 are counted and excluded.",
        technique="Coq proof (induction over caption lists) + extracted-model correspondence",
        design="7 C19"),
    "C20": dict(
        text="Theorems over ALL strings: no sniffer raises on a non-empty string; detect_format returns the first "
             "reader in the documented order whose own detect accepts; the order generated from SUPPORTED_READERS is "
             "the documented one; the empty string raises the no-captions error. Correspondence: exhaustive short "
             "strings over a marker alphabet, every truncation of writer outputs, random strings; own-output "
             "detection + re-read for all six writers by execution.",
        note="Own-output recognition (writer output is detected as its format and read back) is decided by "
             "execution, not by a theorem; str.isdigit/str.lower outside ASCII are not modelled.",
        technique="Coq proof (all strings) + extracted-model correspondence + exhaustive short-string sweep",
        design="7 C20"),
}

ALL = ["C%02d" % i for i in range(1, 21)]


def manifest():
    checks = []
    na = []
    for pid in ALL:
        if pid in P:
            d = P[pid]
            checks.append({
                "property_id": pid,
                "quick_cmd": f"./check {pid} quick",
                "thorough_cmd": f"./check {pid} thorough",
                "evidence_file": f"/verif/evidence/{pid}.json",
                "replay_cmd_template": f"./check {pid} --replay {{path}}",
                "engine": "coq+oracle+harness",
                "level_claimed": {"category": "proof", "text": d["text"], "design_ref": "DESIGN.md section " + d["design"]},
                "level_note": BASE_NOTE.format(pid=pid) + d["note"],
                "technique": d["technique"],
            })
        else:
            na.append({"property_id": pid,
                       "reason": "not claimed yet: the Coq model/theorems and correspondence check for this property "
                                 "are still being built (see DESIGN.md section 7); no check is registered until it "
                                 "runs clean on the unchanged tree"})
    return {
        "version": 1,
        "setup_cmd": "./setup.sh",
        "hooks": {
            "guard": "PYCAPTION_VERIF",
            "enable": "exported as PYCAPTION_VERIF=1 by ./check; no source hook exists: every observation goes through "
                      "the public API of the working tree at /repo (PYTHONPATH=/repo)",
            "baseline_off_cmd": "cd /repo && env -u PYCAPTION_VERIF /venv/bin/python -m pytest -ra -q -p no:cacheprovider "
                                "--timeout=900 --continue-on-collection-errors",
            "source_commits": [],
            "add_only": True,
        },
        "engines": [
            {"name": "coq+oracle+harness", "path": "/verif/check",
             "serves_properties": [c["property_id"] for c in checks],
             "kind_free_text": "Coq 8.16 theorems about an executable Gallina model (coq/), model extracted to OCaml "
                               "(bin/oracle) and run against the implementation by harness/vcheck.py; constant tables "
                               "regenerated from /repo on every run (gen/gen_tables.py)"}],
        "checks": checks,
        "not_applicable": na,
        "notes": "fix: commits in /repo and recorded findings are listed in /verif/known_findings.json; "
                 "seeded breaking changes used to validate the checks are under /verif/seeded/.",
    }


def validate():
    m = json.load(open(os.path.join(VERIF, "MANIFEST.json")))
    assert m["version"] == 1 and isinstance(m["setup_cmd"], str)
    for k in ("guard", "enable", "baseline_off_cmd"):
        assert isinstance(m["hooks"][k], str)
    ids = set()
    for c in m["checks"]:
        for k in ("property_id", "quick_cmd", "evidence_file", "level_claimed", "level_note"):
            assert k in c, (c.get("property_id"), k)
        assert c["level_claimed"]["category"] in ("exploration", "fault_enumeration", "model_checking", "proof",
                                                  "translation_validation", "other")
        ids.add(c["property_id"])
    for n in m.get("not_applicable", []):
        assert n["property_id"] not in ids
        ids.add(n["property_id"])
    assert ids == set(ALL), sorted(set(ALL) - ids)
    kf = json.load(open(os.path.join(VERIF, "known_findings.json")))
    for e in kf["findings"]:
        assert e["status"] in ("known", "fixed") and e["property"] in ALL and "what" in e
        if e["status"] == "known":
            assert e.get("match"), "known finding needs a specific match predicate"
    return True


if __name__ == "__main__":
    if "--check" in sys.argv:
        validate()
        print("MANIFEST-OK")
    else:
        with open(os.path.join(VERIF, "MANIFEST.json"), "w") as f:
            json.dump(manifest(), f, indent=1)
            f.write("\n")
        validate()
        print("MANIFEST written")
