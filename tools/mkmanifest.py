#!/venv/bin/python
"""Regenerate /verif/MANIFEST.json from the table below (so that it is always schema-valid and current).
   --check : only validate the committed JSON files structurally."""
import json
import os
import re
import sys

VERIF = os.path.dirname(os.path.dirname(os.path.abspath(__file__)))

BASE_NOTE = ("Trusted: Coq 8.16.1 kernel (vm_compute, no native_compute); no axioms (Print Assumptions under every "
             "theorem of coq/props/{pid}.v says 'Closed under the global context'); extraction with ExtrOcamlBasic "
             "only + coq/extract/driver.ml; gen/gen_tables.py; the Python harness (generators, canonicalisation). "
             "The model is hand-written Gallina; it is tied to /repo on every run by regenerating the constant tables "
             "and by the correspondence streams (model vs implementation on the same inputs through the public API). ")

# pid -> dict(claimed, text, note, technique, design)
def load_meta():
    """meta/Cxx.json: {"text", "note", "technique", "design"[, "category"]} - one file per claimed property"""
    P = {}
    d = os.path.join(VERIF, "meta")
    for f in sorted(os.listdir(d)):
        if re.fullmatch(r"C\d\d\.json", f):
            P[f[:-5]] = json.load(open(os.path.join(d, f)))
    return P


def assemble_known():
    """known_findings.d/*.json (one finding per file, committed by hand) -> known_findings.json (committed)."""
    d = os.path.join(VERIF, "known_findings.d")
    out = []
    for f in sorted(os.listdir(d)):
        if f.endswith(".json"):
            e = json.load(open(os.path.join(d, f)))
            out.extend(e if isinstance(e, list) else [e])
    data = {"comment": "Assembled by tools/mkmanifest.py from known_findings.d/*.json (each committed by hand); never "
                       "written at check time. status=known entries are reported as KNOWN-FINDING and do not fail the "
                       "check; status=fixed entries suppress nothing.",
            "findings": out}
    with open(os.path.join(VERIF, "known_findings.json"), "w") as f:
        json.dump(data, f, indent=1)
        f.write("\n")


P = load_meta()

ALL = ["C%02d" % i for i in range(1, 21)]


def manifest():
    checks = []
    na = []
    for pid in ALL:
        if pid in P:
            d = P[pid]
            checks.append({
                "property_id": pid,
                "quick_cmd": f"./check {pid} quick",
                "thorough_cmd": f"./check {pid} thorough",
                "evidence_file": f"/verif/evidence/{pid}.json",
                "replay_cmd_template": f"./check {pid} --replay {{path}}",
                "engine": "coq+oracle+harness",
                "level_claimed": {"category": d.get("category", "proof"), "text": d["text"], "design_ref": "DESIGN.md section " + d["design"]},
                "level_note": BASE_NOTE.format(pid=pid) + d["note"],
                "technique": d["technique"],
            })
        else:
            na.append({"property_id": pid,
                       "reason": "not claimed yet: the Coq model/theorems and correspondence check for this property "
                                 "are still being built (see DESIGN.md section 7); no check is registered until it "
                                 "runs clean on the unchanged tree"})
    return {
        "version": 1,
        "setup_cmd": "./setup.sh",
        "hooks": {
            "guard": "PYCAPTION_VERIF",
            "enable": "exported as PYCAPTION_VERIF=1 by ./check; no source hook exists: every observation goes through "
                      "the public API of the working tree at /repo (PYTHONPATH=/repo)",
            "baseline_off_cmd": "cd /repo && env -u PYCAPTION_VERIF /venv/bin/python -m pytest -ra -q -p no:cacheprovider "
                                "--timeout=900 --continue-on-collection-errors",
            "source_commits": [],
            "add_only": True,
        },
        "engines": [
            {"name": "coq+oracle+harness", "path": "/verif/check",
             "serves_properties": [c["property_id"] for c in checks],
             "kind_free_text": "Coq 8.16 theorems about an executable Gallina model (coq/), model extracted to OCaml "
                               "(bin/oracle) and run against the implementation by harness/vcheck.py; constant tables "
                               "regenerated from /repo on every run (gen/gen_tables.py)"}],
        "checks": checks,
        "not_applicable": na,
        "notes": "fix: commits in /repo and recorded findings are listed in /verif/known_findings.json; "
                 "seeded breaking changes used to validate the checks are under /verif/seeded/.",
    }


def validate():
    m = json.load(open(os.path.join(VERIF, "MANIFEST.json")))
    assert m["version"] == 1 and isinstance(m["setup_cmd"], str)
    for k in ("guard", "enable", "baseline_off_cmd"):
        assert isinstance(m["hooks"][k], str)
    ids = set()
    for c in m["checks"]:
        for k in ("property_id", "quick_cmd", "evidence_file", "level_claimed", "level_note"):
            assert k in c, (c.get("property_id"), k)
        assert c["level_claimed"]["category"] in ("exploration", "fault_enumeration", "model_checking", "proof",
                                                  "translation_validation", "other")
        ids.add(c["property_id"])
    for n in m.get("not_applicable", []):
        assert n["property_id"] not in ids
        ids.add(n["property_id"])
    assert ids == set(ALL), sorted(set(ALL) - ids)
    kf = json.load(open(os.path.join(VERIF, "known_findings.json")))
    for e in kf["findings"]:
        assert e["status"] in ("known", "fixed") and e["property"] in ALL and "what" in e
        if e["status"] == "known":
            assert e.get("match"), "known finding needs a specific match predicate"
    return True


if __name__ == "__main__":
    if "--check" in sys.argv:
        validate()
        print("MANIFEST-OK")
    else:
        assemble_known()
        with open(os.path.join(VERIF, "MANIFEST.json"), "w") as f:
            json.dump(manifest(), f, indent=1)
            f.write("\n")
        validate()
        print("MANIFEST written")
