#!/bin/sh
# integrator: tools/mergebuilder.sh <name>  -> merge branch b-<name> of /tmp/vb_<name>, resolving generated-file conflicts
n=$1; V=/verif; cd $V
git fetch -q /tmp/vb_$n b-$n && git merge --no-edit FETCH_HEAD >/tmp/merge_$n.log 2>&1
for f in $(git diff --name-only --diff-filter=U); do
  case $f in
    MANIFEST.json|known_findings.json|.gitignore|DESIGN.md|evidence/C19.json|evidence/C20.json) git checkout --ours $f;;
    evidence/*) git checkout --theirs $f;;
    *) echo "REAL CONFLICT $f";;
  esac
done
git add -A; git commit -qm "merge b-$n" 2>/dev/null; git log --oneline -1
echo "fix commits on fix-$n not on main (by subject):"
git -C /repo log --reverse --format='%h %s' main..fix-$n | while read h s; do git -C /repo log --format=%s main | grep -qxF "$s" || echo "$h $s"; done
