#!/venv/bin/python
"""Integrator tool: for every known_findings.d/*.json with status=fixed whose "commit" is a subject line (or a hash from a
builder's branch), look the commit up on /repo's main by subject and write the final short hash into "commit" and "line"."""
import json, os, re, subprocess, sys
V = os.path.dirname(os.path.dirname(os.path.abspath(__file__)))
log = subprocess.run(["git", "-C", "/repo", "log", "--format=%h\t%s", "main"], capture_output=True, text=True).stdout
subj = {}
for l in log.splitlines():
    h, s = l.split("\t", 1)
    subj.setdefault(s, h)
hashes = set(subj.values())
d = os.path.join(V, "known_findings.d")
for f in sorted(os.listdir(d)):
    p = os.path.join(d, f)
    e = json.load(open(p))
    if e.get("status") != "fixed":
        continue
    c = e.get("commit", "")
    if c in hashes:
        continue
    s = e.get("commit_subject") or c
    h = subj.get(s)
    if not h:
        # maybe a branch hash: resolve its subject
        r = subprocess.run(["git", "-C", "/repo", "log", "-1", "--format=%s", c], capture_output=True, text=True)
        if r.returncode == 0:
            s = r.stdout.strip()
            h = subj.get(s)
    if not h:
        print("UNRESOLVED", f, c[:60]); continue
    e["commit_subject"] = s
    e["commit"] = h
    line = e.get("line", "")
    m = re.match(r"(fixed: property=\S+ )(\S+)( .*)", line)
    e["line"] = (m.group(1) + h + m.group(3)) if m else f"fixed: property={e['property']} {h} {e['what'][:160]}"
    json.dump(e, open(p, "w"), indent=1, ensure_ascii=False)
    print("filled", f, h)
