#!/bin/sh
# developer helper (builder "time"): mkmutant_time.sh <out.diff> <file relative to repo> <python expr: s -> s'>
# builds a -p1 diff against $VERIF_REPO (default /tmp/wr_time) by applying a textual replacement
OUT="$1"; F="$2"; OLD="$3"; NEW="$4"
R="${VERIF_REPO:-/tmp/wr_time}"
T="$(mktemp -d /tmp/mkmut.XXXXXX)"
mkdir -p "$T/a/$(dirname "$F")" "$T/b/$(dirname "$F")"
cp "$R/$F" "$T/a/$F"; cp "$R/$F" "$T/b/$F"
OLD="$OLD" NEW="$NEW" /venv/bin/python - "$T/b/$F" <<'P'
import os,sys
p=sys.argv[1]; s=open(p).read(); o=os.environ['OLD']; n=os.environ['NEW']
assert s.count(o)>=1, "pattern not found"
s=s.replace(o,n,1); open(p,'w').write(s)
P
(cd "$T" && diff -u "a/$F" "b/$F" > "$OUT")
rm -rf "$T"
echo "wrote $OUT"
