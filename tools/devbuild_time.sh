#!/bin/sh
# developer helper (builder "time"): rebuild the oracle binary after model/spec changes
set -e
V="$(cd "$(dirname "$0")/.." && pwd)"
cd "$V"
/venv/bin/python tools/genproject.py
cd coq
timeout 1500 make -f Makefile.coq -j4 extract/Oracle.vo 2>&1 | grep -v "^COQDEP\|WARNING conda" | tail -15
cd extract/ml
timeout 600 coqc -Q ../.. PV ../Extract.v
cp ../driver.ml .
ocamlfind ocamlopt -w -a oracle.mli oracle.ml driver.ml -o ../../../bin/oracle
echo ORACLE-BUILT
