#!/bin/sh
# usage: tools/seedrun.sh <seeded/<id>> [Cxx ...]   (default checks: the property named in meta.json)
# Applies the seeded patch to a scratch copy of $VERIF_REPO (default /repo), runs the pinned tests, the demo and the
# quick checks against the copy, prints a summary line, removes the copy.
set -u
V="$(cd "$(dirname "$0")/.." && pwd)"
D="$(readlink -f "$1")"; shift
R="${VERIF_REPO:-/repo}"
PIDS="$*"
[ -z "$PIDS" ] && PIDS=$(/venv/bin/python -c "import json,sys;print(json.load(open('$D/meta.json'))['property'])")
S="$(mktemp -d /tmp/pyc_seed.XXXXXX)"
rsync -a --exclude .git --exclude '*.egg-info' "$R/" "$S/"
( cd "$S" && patch -p1 -s --fuzz=3 < "$D/patch.diff" ) || { echo "SEED $(basename $D): PATCH-FAILED"; rm -rf "$S"; exit 2; }
TESTS=$("$V/tools/runtests.sh" "$S" | tail -1)
DEMO_CLEAN=$(cd "$D" && PYTHONPATH="$R" timeout 300 /venv/bin/python demo.py >/dev/null 2>&1; echo $?)
DEMO_MUT=$(cd "$D" && PYTHONPATH="$S" timeout 300 /venv/bin/python demo.py >/dev/null 2>&1; echo $?)
cd "$V"
RES=""
for P in $PIDS; do
  OUT=$(VERIF_REPO="$S" ./check "$P" quick 2>&1); RC=$?
  KIND=$(echo "$OUT" | grep -c "^VIOLATION" )
  NF=$(echo "$OUT" | grep -c "no-failing-input-found")
  RES="$RES $P:rc=$RC,viol=$KIND,nofail=$NF"
done
rm -rf "$S"
env -u PYCAPTION_DEFAULT_LANG PYTHONPATH="$R" PYTHONHASHSEED=0 /venv/bin/python "$V/gen/gen_tables.py" "$V/coq/model/Generated.v" >/dev/null
echo "SEED $(basename $D): tests[$TESTS] demo_clean=$DEMO_CLEAN demo_mutant=$DEMO_MUT checks:$RES"
