import sys, os, time
sys.path.insert(0, os.path.join(os.path.dirname(os.path.abspath(__file__)), "..", "harness"))
import vcheck, importlib
mod = importlib.import_module("props.C18")
ctx = vcheck.Ctx("C18", "quick", 0)
res = {"evaluations": 0, "nontrivial": set(), "violations": [], "disagreements": [], "distribution": {}}
for f in (mod.stream_print, mod.stream_eq, mod.stream_attr, mod.stream_fresh, mod.stream_parse):
    t = time.time(); f(ctx, res); print(f.__name__, "%.1f" % (time.time() - t), flush=True)
