import sys, os, json
sys.path.insert(0, os.path.join(os.path.dirname(os.path.abspath(__file__)), "..", "harness"))
import vcheck, importlib
mod = importlib.import_module("props.C13")
ctx = vcheck.Ctx("C13", "quick", 0)
res = {"evaluations": 0, "nontrivial": set(), "violations": [], "disagreements": [], "distribution": {}}
mod.stream_writers(ctx, res)
seen = 0
for d in res["disagreements"]:
    if d.get("fmt") == sys.argv[1]:
        print("CFG", d["cfg"], "WHY", d.get("why"))
        print("  IMPL", str(d.get("impl"))[:600])
        print("  MODEL", str(d.get("model"))[:600])
        print("  INPUT", json.dumps(vcheck.jsonable(d["input"]))[:1500])
        seen += 1
        if seen >= int(sys.argv[2]):
            break
