#!/venv/bin/python
"""developer helper (builder "time"): run a property's harness module without the Coq build step
usage: VERIF_REPO=... tools/devrun_time.py C01 [quick|thorough]"""
import sys, os, json, time
V = os.path.dirname(os.path.dirname(os.path.abspath(__file__)))
sys.path.insert(0, os.path.join(V, "harness"))
import vcheck, importlib
pid = sys.argv[1]; tier = sys.argv[2] if len(sys.argv) > 2 else "quick"
ctx = vcheck.Ctx(pid, tier, int(os.environ.get("VERIF_SEED", "0")))
mod = importlib.import_module("props." + pid)
t0 = time.time()
res = mod.run(ctx)
print("evaluations", res["evaluations"], "nontrivial", len(res["nontrivial"]) if not isinstance(res["nontrivial"], int) else res["nontrivial"],
      "violations", len(res["violations"]), "disagreements", len(res["disagreements"]), "%.1fs" % (time.time() - t0))
print(json.dumps(vcheck.jsonable(res["distribution"]), indent=0)[:1500])
kinds = {}
for v in res["violations"]:
    kinds.setdefault(v.get("kind"), []).append(v)
for k, vs in kinds.items():
    print("VIOLATION kind", k, len(vs))
    for v in vs[:3]:
        print("   ", v.get("what"), "|", str(v.get("document"))[:200].replace("\n", "\\n"))
for d in res["disagreements"][:10]:
    print("DISAGREE", json.dumps(vcheck.jsonable(d))[:600])
