#!/bin/sh
# usage: tools/try_patch.sh <patch.diff> <Cxx> [more Cxx...]
# Copies /repo (working tree) to a scratch dir, applies the patch, runs the pinned tests and the given quick checks
# against the scratch copy (VERIF_REPO), then removes the scratch copy.
set -u
PATCH="$(readlink -f "$1")"; shift
V="$(cd "$(dirname "$0")/.." && pwd)"
R="${VERIF_REPO:-/repo}"
S="$(mktemp -d /tmp/pyc_mut.XXXXXX)"
rsync -a --exclude .git --exclude '*.egg-info' "$R/" "$S/"
cd "$S" && patch -p1 -s < "$PATCH" || { echo "PATCH-FAILED"; rm -rf "$S"; exit 2; }
echo "--- tests:"; "$V/tools/runtests.sh" "$S" | tail -1
cd "$V"
for P in "$@"; do
  echo "--- check $P:"; VERIF_REPO="$S" ./check "$P" quick | tail -4; echo "exit=$?"
done
rm -rf "$S"
# restore generated tables for /repo
env -u PYCAPTION_DEFAULT_LANG PYTHONPATH="$R" PYTHONHASHSEED=0 /venv/bin/python "$V/gen/gen_tables.py" "$V/coq/model/Generated.v" >/dev/null
