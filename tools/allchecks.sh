#!/bin/sh
# usage: tools/allchecks.sh [quick|thorough]   runs every registered check once; prints one line per check
V="$(cd "$(dirname "$0")/.." && pwd)"; cd "$V"
T="${1:-quick}"
for P in $(/venv/bin/python -c "import json;print(' '.join(c['property_id'] for c in json.load(open('MANIFEST.json'))['checks']))"); do
  S=$(date +%s); OUT=$(./check $P $T 2>&1); RC=$?; E=$(date +%s)
  echo "$P rc=$RC $((E-S))s $(echo "$OUT" | tail -1)"
  echo "$OUT" | grep -E "^(VIOLATION|KNOWN-FINDING)" | sed 's/^/    /'
done
