#!/venv/bin/python
"""Developer helper: run one property's harness (no Coq build, no evidence): tools/runprop.py Cxx [seed] [thorough]"""
import sys, os, time, json, importlib
HERE = os.path.dirname(os.path.abspath(__file__))
sys.path.insert(0, os.path.join(HERE, "..", "harness"))
import vcheck
pid = sys.argv[1]
seed = int(sys.argv[2]) if len(sys.argv) > 2 else 0
tier = "thorough" if len(sys.argv) > 3 else "quick"
ctx = vcheck.Ctx(pid, tier, seed)
mod = importlib.import_module("props." + pid)
t = time.time()
res = mod.run(ctx)
print("evaluations", res["evaluations"], "nontrivial", len(res["nontrivial"]), "time %.1f" % (time.time() - t))
print("distribution", json.dumps(vcheck.jsonable(res["distribution"]))[:3000])
kinds = {}
for v in res["violations"]:
    kinds.setdefault(v.get("kind"), []).append(v)
for k, vs in kinds.items():
    print("VIOL", k, len(vs))
    for v in vs[:4]:
        print("    ", str(v.get("what"))[:400])
print("disagreements", len(res["disagreements"]))
for d in res["disagreements"][:12]:
    print("    ", str(vcheck.jsonable(d))[:500])
