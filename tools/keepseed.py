#!/venv/bin/python
"""usage: tools/keepseed.py <seed dir> [Cxx ...]
Runs tools/seedrun.sh on the seed and, if the seed is confirmed (tests still pass, demo passes clean and fails
on the mutant), copies it to seeded/<id>/ with meta.json extended by what was run and what the checks reported."""
import json, os, re, shutil, subprocess, sys
V = os.path.dirname(os.path.dirname(os.path.abspath(__file__)))
d = os.path.abspath(sys.argv[1]); pids = sys.argv[2:]
out = subprocess.run([os.path.join(V, "tools/seedrun.sh"), d] + pids, capture_output=True, text=True).stdout.strip().splitlines()[-1]
print(out)
m = re.search(r"tests\[(\d+) passed.*?\] demo_clean=(\d+) demo_mutant=(\d+) checks:(.*)$", out)
if not m:
    sys.exit("unparsable: " + out)
passed, dc, dm, checks = int(m.group(1)), int(m.group(2)), int(m.group(3)), m.group(4).split()
confirmed = passed == 217 and dc == 0 and dm != 0
meta = json.load(open(os.path.join(d, "meta.json")))
_prev = os.path.join(V, "seeded", os.path.basename(d), "meta.json")
if os.path.exists(_prev):
    _pm = json.load(open(_prev))
    if _pm.get("also_caught_by_other_checks"):
        meta["also_caught_by_other_checks"] = _pm["also_caught_by_other_checks"]
    if _pm.get("round5_first_run"):
        meta["round5_first_run"] = _pm["round5_first_run"]
    if _pm.get("round4_first_run"):
        meta["round4_first_run"] = _pm["round4_first_run"]
sid = os.path.basename(d)
res = {}
for c in checks:
    pid, rest = c.split(":")
    kv = dict(x.split("=") for x in rest.split(","))
    res[pid] = {"exit": int(kv["rc"]), "violation_lines": int(kv["viol"]),
                "with_failing_input": int(kv["viol"]) - int(kv["nofail"]) > 0}
meta.update({"id": sid, "breaks_property": meta.get("property"), "confirmed": confirmed,
             "what_was_run": ["patch applied to a scratch copy of /repo (tools/seedrun.sh)",
                              "pinned test suite on the copy: %d passed" % passed,
                              "demo.py on clean tree: exit %d; on the mutant: exit %d" % (dc, dm),
                              "VERIF_REPO=<copy> ./check <Cxx> quick for: " + ", ".join(res)],
             "check_results": res,
             "caught_by": sorted(p for p, r in res.items() if r["exit"] != 0)})
if not confirmed:
    print("NOT CONFIRMED - not kept"); sys.exit(1)
dst = os.path.join(V, "seeded", sid)
os.makedirs(dst, exist_ok=True)
for f in ("patch.diff", "demo.py"):
    shutil.copy(os.path.join(d, f), os.path.join(dst, f))
json.dump(meta, open(os.path.join(dst, "meta.json"), "w"), indent=1)
print("kept", dst, "caught_by", meta["caught_by"])
