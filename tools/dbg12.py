import sys, os, json
sys.path.insert(0, os.path.join(os.path.dirname(os.path.abspath(__file__)), "..", "harness"))
import vcheck, importlib
mod = importlib.import_module("props.C12")
ctx = vcheck.Ctx("C12", "quick", 1)
res = {"evaluations": 0, "nontrivial": set(), "violations": [], "disagreements": [], "distribution": {}}
from props.C13 import Printed
mod.stream_settings(ctx, res, Printed()); mod.stream_vtt(ctx, res, Printed())
mod.stream_dfxp(ctx, res)
for v in res["violations"]:
    if v["kind"] == sys.argv[1]:
        print(v["cfg"], v["what"][:200]); print(json.dumps(vcheck.jsonable(v["input"]))[:1200]); break
