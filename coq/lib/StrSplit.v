(* Shared string lemmas on lib/Str.v (wave 7): what split_ch / strip / rstrip / join return in terms of the string they
   were given (every piece is a contiguous part of the input, split_ch and join are inverse, a stripped string is a
   contiguous part).  No new definitions besides [part]; all closed, stdlib only. *)
From Coq Require Import List ZArith Lia Bool ZifyBool.
From PV Require Import lib.Sx lib.Str.
Import ListNotations.
Open Scope Z_scope.

(* p is a contiguous part of s *)
Definition part (p s : str) : Prop := exists a b, s = a ++ p ++ b.

Lemma part_refl : forall s, part s s.
Proof. intros s. exists [], []. rewrite app_nil_r. reflexivity. Qed.

Lemma part_trans : forall a b c, part a b -> part b c -> part a c.
Proof.
  intros a b c [x [y H1]] [u [v H2]]. subst. exists (u ++ x), (y ++ v). rewrite <- !app_assoc. reflexivity.
Qed.

Lemma part_app_l : forall p a b, part p a -> part p (a ++ b).
Proof. intros p a b [x [y H]]. subst. exists x, (y ++ b). rewrite <- !app_assoc. reflexivity. Qed.

Lemma part_app_r : forall p a b, part p b -> part p (a ++ b).
Proof. intros p a b [x [y H]]. subst. exists (a ++ x), y. rewrite <- !app_assoc. reflexivity. Qed.

(* ---- strip ---- *)
Lemma lstrip_by_suffix : forall f s, exists a, s = a ++ lstrip_by f s.
Proof.
  intros f. induction s as [|c t IH]; [exists []; reflexivity|].
  cbn [lstrip_by]. destruct (f c).
  - destruct IH as [a Ha]. exists (c :: a). cbn [app]. rewrite <- Ha. reflexivity.
  - exists []. reflexivity.
Qed.

Lemma rstrip_by_prefix : forall f s, exists b, s = rstrip_by f s ++ b.
Proof.
  intros f s. unfold rstrip_by. destruct (lstrip_by_suffix f (rev s)) as [a Ha].
  exists (rev a). rewrite <- rev_app_distr, <- Ha, rev_involutive. reflexivity.
Qed.

Lemma lstrip_by_part : forall f s, part (lstrip_by f s) s.
Proof. intros f s. destruct (lstrip_by_suffix f s) as [a Ha]. exists a, []. rewrite app_nil_r. exact Ha. Qed.

Lemma rstrip_by_part : forall f s, part (rstrip_by f s) s.
Proof. intros f s. destruct (rstrip_by_prefix f s) as [b Hb]. exists [], b. exact Hb. Qed.

Lemma strip_by_part : forall f s, part (strip_by f s) s.
Proof.
  intros f s. unfold strip_by. apply (part_trans _ (lstrip_by f s)); [apply rstrip_by_part|apply lstrip_by_part].
Qed.

Lemma strip_part : forall s, part (strip s) s.
Proof. intros s. apply strip_by_part. Qed.

(* what is stripped off is made of characters of the class *)
Lemma lstrip_by_head : forall f s c t, lstrip_by f s = c :: t -> f c = false.
Proof.
  intros f. induction s as [|x s IH]; intros c t H; [discriminate|].
  cbn [lstrip_by] in H. destruct (f x) eqn:E; [apply (IH c t H)|]. injection H as <- _. exact E.
Qed.

(* ---- split_ch ---- *)
Lemma split_ch_aux_part : forall sep s cur p, In p (split_ch_aux sep s cur) -> part p (rev cur ++ s).
Proof.
  intros sep. induction s as [|c t IH]; intros cur p H.
  - cbn in H. destruct H as [<-|[]]. rewrite app_nil_r. apply part_refl.
  - cbn [split_ch_aux] in H. destruct (c =? sep).
    + destruct H as [<-|H].
      * apply part_app_l. apply part_refl.
      * apply part_app_r. change (c :: t) with ([c] ++ t). apply part_app_r. apply (IH [] p H).
    + specialize (IH (c :: cur) p H). cbn [rev] in IH. rewrite <- app_assoc in IH. exact IH.
Qed.

Lemma split_ch_part : forall sep s p, In p (split_ch sep s) -> part p s.
Proof. intros sep s p H. apply (split_ch_aux_part sep s [] p H). Qed.

Lemma split_ch_aux_cons : forall sep s cur, exists x l, split_ch_aux sep s cur = x :: l.
Proof.
  intros sep. induction s as [|c t IH]; intros cur; [cbn; eauto|].
  cbn [split_ch_aux]. destruct (c =? sep); [eauto|apply IH].
Qed.

Lemma split_ch_aux_join : forall sep s cur, join [sep] (split_ch_aux sep s cur) = rev cur ++ s.
Proof.
  intros sep. induction s as [|c t IH]; intros cur.
  - cbn. rewrite app_nil_r. reflexivity.
  - cbn [split_ch_aux]. destruct (c =? sep) eqn:E.
    + apply Z.eqb_eq in E. subst c.
      destruct (split_ch_aux_cons sep t []) as [x [l Hx]]. pose proof (IH []) as IH0. rewrite Hx in IH0 |- *.
      change (join [sep] (rev cur :: x :: l)) with (rev cur ++ [sep] ++ join [sep] (x :: l)).
      rewrite IH0. reflexivity.
    + rewrite (IH (c :: cur)). cbn [rev]. rewrite <- app_assoc. reflexivity.
Qed.

(* sep.join(s.split(sep)) == s *)
Lemma split_ch_join : forall sep s, join [sep] (split_ch sep s) = s.
Proof. intros sep s. apply (split_ch_aux_join sep s []). Qed.

Lemma split_ch_aux_no_sep : forall sep s cur p, ~ In sep cur -> In p (split_ch_aux sep s cur) -> ~ In sep p.
Proof.
  intros sep. induction s as [|c t IH]; intros cur p Hc H.
  - cbn in H. destruct H as [<-|[]]. intros Hin. apply Hc. apply in_rev. exact Hin.
  - cbn [split_ch_aux] in H. destruct (c =? sep) eqn:E.
    + destruct H as [<-|H]; [intros Hin; apply Hc; apply in_rev; exact Hin|]. apply (IH [] p); [intros []|exact H].
    + apply (IH (c :: cur) p); [|exact H]. intros [X|X]; [lia|apply Hc; exact X].
Qed.

(* no piece of s.split(sep) contains sep *)
Lemma split_ch_no_sep : forall sep s p, In p (split_ch sep s) -> ~ In sep p.
Proof. intros sep s p H. apply (split_ch_aux_no_sep sep s [] p); [intros []|exact H]. Qed.

(* ---- join ---- *)
Lemma join_cons2 : forall sep a b l, join sep (a :: b :: l) = a ++ sep ++ join sep (b :: l).
Proof. reflexivity. Qed.

Lemma join_part : forall sep l p, In p l -> part p (join sep l).
Proof.
  intros sep. induction l as [|a t IH]; intros p H; [destruct H|].
  destruct t as [|b t'].
  - destruct H as [<-|[]]. apply part_refl.
  - rewrite join_cons2. destruct H as [<-|H]; [apply part_app_l; apply part_refl|].
    apply part_app_r. apply part_app_r. apply IH. exact H.
Qed.

(* pieces of a filtered list are pieces of the list *)
Lemma filter_part : forall (f : str -> bool) l p s, (forall q, In q l -> part q s) -> In p (filter f l) -> part p s.
Proof. intros f l p s H Hin. apply filter_In in Hin. apply H. apply Hin. Qed.
