(* Python str semantics on lists of code points (Z). Definitions only; lemmas live in
   proofs/StrFacts.v so that the model still runs when a proof breaks. *)
From Coq Require Import List ZArith Lia Bool ZifyBool.
From Coq Require Strings.String Strings.Ascii.
Export String.StringSyntax.
From PV Require Import lib.Sx.
Import ListNotations.
Open Scope Z_scope.

(* ASCII literals: lit "WEBVTT" *)
Fixpoint lit (s : String.string) : str :=
  match s with
  | String.EmptyString => []
  | String.String a t => Z.of_N (Ascii.N_of_ascii a) :: lit t
  end.
Arguments lit s%string_scope.

Definition ch_eqb := Z.eqb.

Fixpoint str_eqb (a b : str) : bool :=
  match a, b with
  | [], [] => true
  | x :: a', y :: b' => (x =? y) && str_eqb a' b'
  | _, _ => false
  end.

Fixpoint is_prefix (p s : str) : bool :=
  match p, s with
  | [], _ => true
  | x :: p', y :: s' => (x =? y) && is_prefix p' s'
  | _ :: _, [] => false
  end.

(* Python: p in s *)
Fixpoint is_infix (p s : str) : bool :=
  is_prefix p s || match s with [] => false | _ :: s' => is_infix p s' end.

(* index of first occurrence, Python s.find(p) *)
Fixpoint find_from (p s : str) (i : Z) : option Z :=
  if is_prefix p s then Some i else
  match s with [] => None | _ :: s' => find_from p s' (i + 1) end.
Definition find (p s : str) := find_from p s 0.

(* ASCII code points *)
Definition c_nl := 10.  Definition c_cr := 13.  Definition c_sp := 32.
Definition c_tab := 9.

Definition is_digit (c : Z) : bool := (48 <=? c) && (c <=? 57).
Definition digit_val (c : Z) : Z := c - 48.

(* str.isdigit() restricted to ASCII digits (non-ASCII digits are excluded from
   generated inputs; see DESIGN section 6) *)
Definition isdigit (s : str) : bool :=
  match s with [] => false | _ => forallb is_digit s end.

Definition lower_ch (c : Z) : Z := if (65 <=? c) && (c <=? 90) then c + 32 else c.
Definition lower (s : str) : str := map lower_ch s.
Definition upper_ch (c : Z) : Z := if (97 <=? c) && (c <=? 122) then c - 32 else c.
Definition upper (s : str) : str := map upper_ch s.

(* Python str.isspace() characters (complete CPython list) *)
Definition is_space (c : Z) : bool :=
  ((9 <=? c) && (c <=? 13)) || ((28 <=? c) && (c <=? 32)) || (c =? 133) || (c =? 160)
  || (c =? 5760) || ((8192 <=? c) && (c <=? 8202)) || (c =? 8232) || (c =? 8233)
  || (c =? 8239) || (c =? 8287) || (c =? 12288).

(* line boundaries of str.splitlines() other than \r\n *)
Definition is_linebreak (c : Z) : bool :=
  ((10 <=? c) && (c <=? 13)) || ((28 <=? c) && (c <=? 30)) || (c =? 133)
  || (c =? 8232) || (c =? 8233).

(* str.splitlines(): cur is the reversed current line *)
Definition after_break (c : Z) (t : str) : str :=
  if c =? 13 then match t with 10 :: t' => t' | _ => t end else t.
Fixpoint splitlines_aux (s : str) (cur : str) (started : bool) : list str :=
  match s with
  | [] => if started then [rev cur] else []
  | c :: t =>
      if is_linebreak c then
        rev cur :: (if c =? 13
                    then match t with
                         | 10 :: t' => splitlines_aux t' [] false
                         | _ => splitlines_aux t [] false
                         end
                    else splitlines_aux t [] false)
      else splitlines_aux t (c :: cur) true
  end.
Definition splitlines (s : str) : list str := splitlines_aux s [] false.

(* strip: Python str.strip() with no argument (whitespace), and with a char set *)
Fixpoint lstrip_by (f : Z -> bool) (s : str) : str :=
  match s with
  | c :: t => if f c then lstrip_by f t else s
  | [] => []
  end.
Definition rstrip_by (f : Z -> bool) (s : str) : str := rev (lstrip_by f (rev s)).
Definition strip_by (f : Z -> bool) (s : str) : str := rstrip_by f (lstrip_by f s).
Definition strip := strip_by is_space.
Definition lstrip := lstrip_by is_space.
Definition rstrip := rstrip_by is_space.

(* split on a non-empty separator (Python s.split(sep)); fuel = length s + 1 *)
Fixpoint split_aux (fuel : nat) (sep s cur : str) : list str :=
  match fuel with
  | O => [rev cur ++ s]
  | S f =>
    match s with
    | [] => [rev cur]
    | c :: t =>
        if is_prefix sep s then rev cur :: split_aux f sep (skipn (length sep) s) []
        else split_aux f sep t (c :: cur)
    end
  end.
Definition split (sep s : str) : list str := split_aux (S (length s)) sep s [].

(* split on a single character: structural, no fuel *)
Fixpoint split_ch_aux (sep : Z) (s cur : str) : list str :=
  match s with
  | [] => [rev cur]
  | c :: t => if c =? sep then rev cur :: split_ch_aux sep t [] else split_ch_aux sep t (c :: cur)
  end.
Definition split_ch (sep : Z) (s : str) : list str := split_ch_aux sep s [].

(* join *)
Fixpoint join (sep : str) (l : list str) : str :=
  match l with
  | [] => []
  | [a] => a
  | a :: t => a ++ sep ++ join sep t
  end.

(* replace all (leftmost, non-overlapping) occurrences of non-empty p by r *)
Fixpoint replace_aux (fuel : nat) (p r s : str) : str :=
  match fuel with
  | O => s
  | S f =>
    match s with
    | [] => []
    | c :: t => if is_prefix p s then r ++ replace_aux f p r (skipn (length p) s)
                else c :: replace_aux f p r t
    end
  end.
Definition replace (p r s : str) : str :=
  match p with [] => s | _ => replace_aux (S (length s)) p r s end.

(* decimal *)
Fixpoint digits_val_acc (s : str) (acc : Z) : option Z :=
  match s with
  | [] => Some acc
  | c :: t => if is_digit c then digits_val_acc t (acc * 10 + digit_val c) else None
  end.
(* int(s) for s a non-empty ASCII digit string (no sign, no whitespace, no underscores) *)
Definition int_of_digits (s : str) : option Z :=
  match s with [] => None | _ => digits_val_acc s 0 end.

(* decimal printer for non-negative z; fuel-based *)
Fixpoint dec_aux (fuel : nat) (z : Z) (acc : str) : str :=
  match fuel with
  | O => acc
  | S f => let acc' := (48 + z mod 10) :: acc in
           if z <? 10 then acc' else dec_aux f (z / 10) acc'
  end.
Definition dec_nonneg (z : Z) : str := dec_aux (S (Z.to_nat (Z.log2 z))) z [].
Definition dec_z (z : Z) : str := if z <? 0 then 45 :: dec_nonneg (- z) else dec_nonneg z.

(* zero-pad on the left to width w (Python "%0wd" for non-negative) *)
Definition zpad (w : nat) (s : str) : str := repeat 48 (w - length s) ++ s.

Definition ljust (w : nat) (fill : Z) (s : str) : str := s ++ repeat fill (w - length s).

(* take-while / drop-while *)
Fixpoint take_while (f : Z -> bool) (s : str) : str :=
  match s with c :: t => if f c then c :: take_while f t else [] | [] => [] end.
Fixpoint drop_while (f : Z -> bool) (s : str) : str :=
  match s with c :: t => if f c then drop_while f t else s | [] => [] end.

Definition str_of_ascii := List.map Z.of_nat.
