(* Outcome of a modelled API call: the documented exception classes that some property
   talks about, plus Crash k for Python-level exceptions that are not documented behaviour. *)
From Coq Require Import List ZArith.
From PV Require Import lib.Sx.
Import ListNotations.
Open Scope Z_scope.

Inductive err : Type :=
| ENoCaptions | ESyntax | ETiming | ELineLength | ERelativization | EInvalidInput
| ENotImplemented | EOutOfFuel
| ECrash (k : Z).   (* 1 IndexError 2 KeyError 3 ValueError 4 AttributeError 5 TypeError 9 other *)

Definition IndexError := ECrash 1.
Definition KeyError := ECrash 2.
Definition ValueError := ECrash 3.
Definition AttributeError := ECrash 4.
Definition TypeError := ECrash 5.

Inductive result (A : Type) : Type :=
| Ok (a : A)
| Err (e : err).
Arguments Ok {A} a.
Arguments Err {A} e.

Definition bind {A B} (r : result A) (f : A -> result B) : result B :=
  match r with Ok a => f a | Err e => Err e end.
Notation "'do' x <- r ; k" := (bind r (fun x => k)) (at level 200, x pattern, r at level 100, k at level 200).

Definition is_crash {A} (r : result A) : bool :=
  match r with Err (ECrash _) => true | _ => false end.

Definition err_code (e : err) : Z :=
  match e with
  | ENoCaptions => 1 | ESyntax => 2 | ETiming => 3 | ELineLength => 4
  | ERelativization => 5 | EInvalidInput => 6 | ENotImplemented => 7 | EOutOfFuel => 8
  | ECrash k => 100 + k
  end.

Definition err_of_code (z : Z) : err :=
  match z with
  | 1 => ENoCaptions | 2 => ESyntax | 3 => ETiming | 4 => ELineLength
  | 5 => ERelativization | 6 => EInvalidInput | 7 => ENotImplemented | 8 => EOutOfFuel
  | _ => ECrash (z - 100)
  end.

(* wire: Ok a -> (0 a), Err e -> (1 code) *)
Definition of_result {A} (f : A -> sx) (r : result A) : sx :=
  match r with Ok a => SL [SI 0; f a] | Err e => SL [SI 1; SI (err_code e)] end.

Definition sx_result {A} (f : sx -> option A) (x : sx) : option (result A) :=
  match x with
  | SL [SI 0; y] => match f y with Some a => Some (Ok a) | None => None end
  | SL [SI 1; SI c] => Some (Err (err_of_code c))
  | _ => None
  end.

Fixpoint res_map {A B} (f : A -> result B) (l : list A) : result (list B) :=
  match l with
  | [] => Ok []
  | a :: t => do b <- f a; do bs <- res_map f t; Ok (b :: bs)
  end.
