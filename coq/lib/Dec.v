(* Decimal printing / int() round trip on Str's [dec_nonneg], [int_of_digits], [zpad];
   fixed-width digit fields; digit-value lists (second fractions of any length).
   Definitions first, lemmas after (all closed, stdlib only). *)
From Coq Require Import List ZArith Lia Bool ZifyBool.
From PV Require Import lib.Sx lib.Str.
Import ListNotations.
Open Scope Z_scope.
#[local] Ltac Zify.zify_post_hook ::= Z.to_euclidean_division_equations.

(* ---- definitions ----------------------------------------------------------- *)

(* exactly two / three decimal digits of a number below 100 / 1000 *)
Definition two (n : Z) : str := [48 + n / 10; 48 + n mod 10].
Definition three (n : Z) : str := [48 + n / 100; 48 + (n / 10) mod 10; 48 + n mod 10].

(* a non-negative number with k extra leading zeros *)
Definition padded (k : nat) (n : Z) : str := repeat 48 k ++ dec_nonneg n.

(* a digit-value list d1 .. dk (each 0..9), most significant first *)
Definition digits_ok (ds : list Z) : bool := forallb (fun d => (0 <=? d) && (d <=? 9)) ds.
Definition digits_num (ds : list Z) : Z := fold_left (fun a d => a * 10 + d) ds 0.
Definition digits_str (ds : list Z) : str := map (fun d => 48 + d) ds.

(* ---- lemmas ------------------------------------------------------------------ *)

Lemma digits_val_acc_app : forall a b acc,
  digits_val_acc (a ++ b) acc =
  match digits_val_acc a acc with Some v => digits_val_acc b v | None => None end.
Proof.
  induction a as [|c a IH]; intros b acc; cbn [app digits_val_acc]; [reflexivity|].
  destruct (is_digit c); [apply IH|reflexivity].
Qed.

Lemma digits_val_acc_zeros : forall k s, digits_val_acc (repeat 48 k ++ s) 0 = digits_val_acc s 0.
Proof.
  induction k as [|k IH]; intros s; [reflexivity|].
  cbn [repeat app digits_val_acc]. change (is_digit 48) with true. cbv iota.
  change (0 * 10 + digit_val 48) with 0. apply IH.
Qed.

Lemma dec_aux_S : forall f z acc,
  dec_aux (S f) z acc = if z <? 10 then (48 + z mod 10) :: acc else dec_aux f (z / 10) ((48 + z mod 10) :: acc).
Proof. reflexivity. Qed.

Lemma dec_aux_acc : forall fuel z acc, dec_aux fuel z acc = dec_aux fuel z [] ++ acc.
Proof.
  induction fuel as [|f IH]; intros z acc; [reflexivity|]. rewrite !dec_aux_S.
  destruct (z <? 10); [reflexivity|].
  rewrite IH. rewrite (IH _ [_]). rewrite <- app_assoc. reflexivity.
Qed.

Lemma pow2_ge1 : forall f : nat, 1 <= 2 ^ Z.of_nat f.
Proof. intros f. pose proof (Z.pow_pos_nonneg 2 (Z.of_nat f)). lia. Qed.

Lemma dec_aux_val : forall fuel z, 0 <= z < 2 ^ Z.of_nat (S fuel) ->
  digits_val_acc (dec_aux (S fuel) z []) 0 = Some z.
Proof.
  induction fuel as [|f IH]; intros z Hz.
  - change (2 ^ Z.of_nat 1) with 2 in Hz. cbn [dec_aux].
    assert (Hlt : (z <? 10) = true) by lia. rewrite Hlt.
    cbn [digits_val_acc]. unfold is_digit, digit_val.
    assert (Hm : z mod 10 = z) by (apply Z.mod_small; lia). rewrite Hm.
    assert (Hd : ((48 <=? 48 + z) && (48 + z <=? 57)) = true) by lia. rewrite Hd.
    f_equal. lia.
  - rewrite dec_aux_S. destruct (z <? 10) eqn:Hlt.
    + cbn [digits_val_acc]. unfold is_digit, digit_val.
      assert (Hm : z mod 10 = z) by (apply Z.mod_small; lia). rewrite Hm.
      assert (Hd : ((48 <=? 48 + z) && (48 + z <=? 57)) = true) by lia. rewrite Hd.
      f_equal. lia.
    + rewrite dec_aux_acc, digits_val_acc_app.
      assert (Hq : 0 <= z / 10 < 2 ^ Z.of_nat (S f)).
      { rewrite Nat2Z.inj_succ in Hz. rewrite Z.pow_succ_r in Hz by lia.
        split; [apply Z.div_pos; lia|]. apply Z.div_lt_upper_bound; lia. }
      rewrite (IH _ Hq).
      cbn [digits_val_acc]. unfold is_digit, digit_val.
      pose proof (Z.mod_pos_bound z 10 ltac:(lia)) as Hmb.
      assert (Hd : ((48 <=? 48 + z mod 10) && (48 + z mod 10 <=? 57)) = true) by lia. rewrite Hd.
      f_equal. pose proof (Z.div_mod z 10 ltac:(lia)). lia.
Qed.

Lemma dec_nonneg_val : forall z, 0 <= z -> digits_val_acc (dec_nonneg z) 0 = Some z.
Proof.
  intros z Hz. unfold dec_nonneg. apply dec_aux_val. split; [exact Hz|].
  destruct (Z.eq_dec z 0) as [->|Hnz]; [reflexivity|].
  rewrite Nat2Z.inj_succ, Z2Nat.id by apply Z.log2_nonneg.
  apply Z.log2_spec. lia.
Qed.

Lemma dec_aux_nonempty : forall fuel z acc, dec_aux (S fuel) z acc <> [].
Proof.
  intros fuel z acc. rewrite dec_aux_S. destruct (z <? 10); [discriminate|].
  rewrite dec_aux_acc. intros H. apply app_eq_nil in H. destruct H; discriminate.
Qed.

Lemma dec_nonneg_nonempty : forall z, dec_nonneg z <> [].
Proof. intros z. unfold dec_nonneg. apply dec_aux_nonempty. Qed.

(* int(s) for s = zeros ++ decimal of n *)
Theorem int_of_padded : forall k n, 0 <= n -> int_of_digits (padded k n) = Some n.
Proof.
  intros k n Hn. unfold int_of_digits, padded.
  destruct (repeat 48 k ++ dec_nonneg n) eqn:E.
  - apply app_eq_nil in E. destruct E as [_ E]. exfalso. exact (dec_nonneg_nonempty n E).
  - rewrite <- E. rewrite digits_val_acc_zeros. apply dec_nonneg_val. exact Hn.
Qed.

Theorem int_of_dec : forall n, 0 <= n -> int_of_digits (dec_nonneg n) = Some n.
Proof. intros n Hn. exact (int_of_padded 0 n Hn). Qed.

Lemma dec_aux_digits : forall fuel z acc, 0 <= z ->
  forallb is_digit acc = true -> forallb is_digit (dec_aux fuel z acc) = true.
Proof.
  induction fuel as [|f IH]; intros z acc Hz Hacc; [exact Hacc|]. rewrite dec_aux_S.
  pose proof (Z.mod_pos_bound z 10 ltac:(lia)) as Hmb.
  assert (Hd : is_digit (48 + z mod 10) = true) by (unfold is_digit; lia).
  destruct (z <? 10).
  - cbn [forallb]. rewrite Hd, Hacc. reflexivity.
  - apply IH; [apply Z.div_pos; lia|]. cbn [forallb]. rewrite Hd, Hacc. reflexivity.
Qed.

Lemma dec_nonneg_digits : forall z, 0 <= z -> forallb is_digit (dec_nonneg z) = true.
Proof. intros z Hz. unfold dec_nonneg. apply dec_aux_digits; [exact Hz|reflexivity]. Qed.

Lemma padded_digits : forall k n, 0 <= n -> forallb is_digit (padded k n) = true.
Proof.
  intros k n Hn. unfold padded. rewrite forallb_app, dec_nonneg_digits by exact Hn.
  rewrite andb_true_r. induction k; [reflexivity|]. cbn [repeat forallb]. rewrite IHk. reflexivity.
Qed.

Lemma padded_nonempty : forall k n, padded k n <> [].
Proof.
  intros k n H. unfold padded in H. apply app_eq_nil in H. destruct H as [_ H].
  exact (dec_nonneg_nonempty n H).
Qed.

Lemma isdigit_padded : forall k n, 0 <= n -> isdigit (padded k n) = true.
Proof.
  intros k n Hn. unfold isdigit. pose proof (padded_nonempty k n) as Hne.
  destruct (padded k n) eqn:E; [congruence|]. rewrite <- E. apply padded_digits. exact Hn.
Qed.

(* fixed-width fields *)
Lemma int_of_two : forall n, 0 <= n < 100 -> int_of_digits (two n) = Some n.
Proof.
  intros n Hn. unfold int_of_digits, two. cbn [digits_val_acc]. unfold is_digit, digit_val.
  assert (H1 : ((48 <=? 48 + n / 10) && (48 + n / 10 <=? 57)) = true) by lia.
  assert (H2 : ((48 <=? 48 + n mod 10) && (48 + n mod 10 <=? 57)) = true) by lia.
  rewrite H1, H2. f_equal. lia.
Qed.

Lemma int_of_three : forall n, 0 <= n < 1000 -> int_of_digits (three n) = Some n.
Proof.
  intros n Hn. unfold int_of_digits, three. cbn [digits_val_acc]. unfold is_digit, digit_val.
  assert (H1 : ((48 <=? 48 + n / 100) && (48 + n / 100 <=? 57)) = true) by lia.
  assert (H2 : ((48 <=? 48 + (n / 10) mod 10) && (48 + (n / 10) mod 10 <=? 57)) = true) by lia.
  assert (H3 : ((48 <=? 48 + n mod 10) && (48 + n mod 10 <=? 57)) = true) by lia.
  rewrite H1, H2, H3. f_equal. lia.
Qed.

Lemma two_digits : forall n, 0 <= n < 100 -> forallb is_digit (two n) = true.
Proof. intros n Hn. unfold two, is_digit. cbn [forallb]. lia. Qed.
Lemma three_digits : forall n, 0 <= n < 1000 -> forallb is_digit (three n) = true.
Proof. intros n Hn. unfold three, is_digit. cbn [forallb]. lia. Qed.

(* "%02d" / "%03d" of Str (zpad over dec_nonneg) print exactly these fields: finite check *)
Lemma range_forall : forall (P : Z -> bool) (n : nat),
  forallb P (map Z.of_nat (seq 0 n)) = true -> forall z, 0 <= z < Z.of_nat n -> P z = true.
Proof.
  intros P n H z Hz. rewrite forallb_forall in H. apply H.
  apply in_map_iff. exists (Z.to_nat z). split; [lia|]. apply in_seq. lia.
Qed.

Lemma str_eqb_eq : forall a b, str_eqb a b = true -> a = b.
Proof.
  induction a as [|x a IH]; intros [|y b]; cbn [str_eqb]; try discriminate; [reflexivity|].
  intros H. apply andb_true_iff in H. destruct H as [H1 H2]. f_equal; [lia|apply IH; exact H2].
Qed.

Lemma str_eqb_refl : forall a, str_eqb a a = true.
Proof. induction a as [|x a IH]; cbn [str_eqb]; [reflexivity|]. rewrite IH. lia. Qed.

Lemma zpad2_two : forall n, 0 <= n < 100 -> zpad 2 (dec_nonneg n) = two n.
Proof.
  intros n Hn. apply str_eqb_eq.
  apply (range_forall (fun z => str_eqb (zpad 2 (dec_nonneg z)) (two z)) 100);
    [vm_compute; reflexivity|lia].
Qed.

Lemma zpad3_three : forall n, 0 <= n < 1000 -> zpad 3 (dec_nonneg n) = three n.
Proof.
  intros n Hn. apply str_eqb_eq.
  apply (range_forall (fun z => str_eqb (zpad 3 (dec_nonneg z)) (three z)) 1000);
    [vm_compute; reflexivity|lia].
Qed.

(* digit-value lists *)
Lemma digits_str_val : forall ds acc, digits_ok ds = true ->
  digits_val_acc (digits_str ds) acc = Some (fold_left (fun a d => a * 10 + d) ds acc).
Proof.
  induction ds as [|d ds IH]; intros acc H; [reflexivity|].
  cbn [digits_ok forallb] in H. apply andb_true_iff in H. destruct H as [Hd Hr].
  cbn [digits_str map digits_val_acc fold_left]. unfold is_digit, digit_val.
  assert (H1 : ((48 <=? 48 + d) && (48 + d <=? 57)) = true) by lia. rewrite H1.
  replace (acc * 10 + (48 + d - 48)) with (acc * 10 + d) by lia. apply IH. exact Hr.
Qed.

Lemma int_of_digits_str : forall ds, ds <> [] -> digits_ok ds = true ->
  int_of_digits (digits_str ds) = Some (digits_num ds).
Proof.
  intros ds Hne Hok. unfold int_of_digits. destruct ds as [|d ds]; [congruence|].
  change (match digits_str (d :: ds) with [] => None | _ :: _ => digits_val_acc (digits_str (d :: ds)) 0 end)
    with (digits_val_acc (digits_str (d :: ds)) 0).
  apply digits_str_val. exact Hok.
Qed.

Lemma digits_str_length : forall ds, length (digits_str ds) = length ds.
Proof. intros. apply map_length. Qed.

Lemma digits_str_digits : forall ds, digits_ok ds = true -> forallb is_digit (digits_str ds) = true.
Proof.
  induction ds as [|d ds IH]; intros H; [reflexivity|].
  cbn [digits_ok forallb] in H. apply andb_true_iff in H. destruct H as [Hd Hr].
  unfold digits_str in *. cbn [map forallb]. rewrite (IH Hr). unfold is_digit. lia.
Qed.

Lemma fold_digits_bounds : forall ds acc, digits_ok ds = true -> 0 <= acc ->
  acc * 10 ^ Z.of_nat (length ds) <= fold_left (fun a d => a * 10 + d) ds acc
  < (acc + 1) * 10 ^ Z.of_nat (length ds).
Proof.
  induction ds as [|d ds IH]; intros acc H Hacc.
  - cbn [length fold_left]. change (10 ^ Z.of_nat 0) with 1. lia.
  - cbn [digits_ok forallb] in H. apply andb_true_iff in H. destruct H as [Hd Hr].
    cbn [fold_left length]. rewrite Nat2Z.inj_succ, Z.pow_succ_r by lia.
    specialize (IH (acc * 10 + d) Hr ltac:(lia)).
    pose proof (Z.pow_pos_nonneg 10 (Z.of_nat (length ds)) ltac:(lia) ltac:(lia)) as Hp.
    nia.
Qed.

Lemma digits_num_bounds : forall ds, digits_ok ds = true ->
  0 <= digits_num ds < 10 ^ Z.of_nat (length ds).
Proof.
  intros ds H. pose proof (fold_digits_bounds ds 0 H ltac:(lia)) as B. unfold digits_num. lia.
Qed.
