(* Generic wire format between the Python harness and the extracted oracle.
   A value is an s-expression of integers, strings (lists of code points) and lists;
   on the wire it is a flat list of integers:
     SI z  ->  0 z
     SS s  ->  2 n c1 .. cn
     SL l  ->  1 n  e1 .. en
   All structured encoding/decoding is done here, in Coq, so that the OCaml driver is
   only "read integers, call oracle, print integers". *)
From Coq Require Import List ZArith Lia Bool ZifyBool.
Import ListNotations.
Open Scope Z_scope.

Definition str := list Z.

Inductive sx : Type :=
| SI (z : Z)
| SS (s : str)
| SL (l : list sx).

Fixpoint enc (x : sx) : list Z :=
  match x with
  | SI z => [0; z]
  | SS s => 2 :: Z.of_nat (length s) :: s
  | SL l => 1 :: Z.of_nat (length l) :: flat_map enc l
  end.

(* fuel-based decoder; fuel = length of input suffices *)
Fixpoint dec (fuel : nat) (inp : list Z) : option (sx * list Z) :=
  match fuel with
  | O => None
  | S f =>
    match inp with
    | 0 :: z :: rest => Some (SI z, rest)
    | 2 :: n :: rest =>
        if (n <? 0) || (Z.of_nat (length rest) <? n) then None
        else Some (SS (firstn (Z.to_nat n) rest), skipn (Z.to_nat n) rest)
    | 1 :: n :: rest =>
        if n <? 0 then None else
        (fix items (k : nat) (inp : list Z) (acc : list sx) : option (sx * list Z) :=
           match k with
           | O => Some (SL (rev acc), inp)
           | S k' => match dec f inp with
                     | Some (x, inp') => items k' inp' (x :: acc)
                     | None => None
                     end
           end) (Z.to_nat n) rest []
    | _ => None
    end
  end.

Definition decode (inp : list Z) : option sx :=
  match dec (S (length inp)) inp with
  | Some (x, []) => Some x
  | _ => None
  end.

(* ---- helpers to destructure requests -------------------------------------- *)

Definition sx_int (x : sx) : option Z := match x with SI z => Some z | _ => None end.
Definition sx_str (x : sx) : option str := match x with SS s => Some s | _ => None end.
Definition sx_list (x : sx) : option (list sx) := match x with SL l => Some l | _ => None end.
Definition sx_bool (x : sx) : option bool :=
  match x with SI 0 => Some false | SI 1 => Some true | _ => None end.

Fixpoint opt_map {A B} (f : A -> option B) (l : list A) : option (list B) :=
  match l with
  | [] => Some []
  | a :: t => match f a, opt_map f t with
              | Some b, Some bs => Some (b :: bs)
              | _, _ => None
              end
  end.

Definition sx_opt {A} (f : sx -> option A) (x : sx) : option (option A) :=
  match x with
  | SL [] => Some None
  | SL [y] => match f y with Some a => Some (Some a) | None => None end
  | _ => None
  end.

Definition sx_listof {A} (f : sx -> option A) (x : sx) : option (list A) :=
  match x with SL l => opt_map f l | _ => None end.

Definition of_bool (b : bool) : sx := SI (if b then 1 else 0).
Definition of_opt {A} (f : A -> sx) (o : option A) : sx :=
  match o with None => SL [] | Some a => SL [f a] end.
Definition of_list {A} (f : A -> sx) (l : list A) : sx := SL (map f l).

(* ---- codec round trip ------------------------------------------------------ *)

Lemma firstn_app_exact {A} (a b : list A) : firstn (length a) (a ++ b) = a.
Proof. induction a; simpl; congruence. Qed.
Lemma skipn_app_exact {A} (a b : list A) : skipn (length a) (a ++ b) = b.
Proof. induction a; simpl; congruence. Qed.

Fixpoint depth (x : sx) : nat :=
  match x with
  | SL l => S (fold_right (fun y d => Nat.max (depth y) d) O l)
  | _ => 1%nat
  end.

Lemma dec_enc : forall fuel x rest, (depth x <= fuel)%nat -> dec fuel (enc x ++ rest) = Some (x, rest).
Proof.
  induction fuel as [|f IH]; intros x rest Hd.
  - destruct x; simpl in Hd; lia.
  - destruct x as [z|s|l].
    + reflexivity.
    + cbn [enc app dec].
      assert (Hn : (Z.of_nat (length s) <? 0) = false) by lia.
      rewrite Hn. cbn [orb].
      assert (Hl : (Z.of_nat (length (s ++ rest)) <? Z.of_nat (length s)) = false).
      { rewrite app_length. lia. }
      rewrite Hl. rewrite Nat2Z.id, firstn_app_exact, skipn_app_exact. reflexivity.
    + cbn [enc app dec].
      assert (Hn : (Z.of_nat (length l) <? 0) = false) by lia.
      rewrite Hn. rewrite Nat2Z.id.
      assert (Hgen : forall l acc rest,
                 (forall y, In y l -> (depth y <= f)%nat) ->
                 (fix items (k : nat) (inp : list Z) (acc : list sx) : option (sx * list Z) :=
                    match k with
                    | O => Some (SL (rev acc), inp)
                    | S k' => match dec f inp with
                              | Some (x, inp') => items k' inp' (x :: acc)
                              | None => None
                              end
                    end) (length l) (flat_map enc l ++ rest) acc
                 = Some (SL (rev acc ++ l), rest)).
      { clear - IH. induction l as [|y l IHl]; intros acc rest Hy.
        - simpl. rewrite app_nil_r. reflexivity.
        - cbn [length flat_map]. rewrite <- app_assoc.
          rewrite IH by (apply Hy; left; reflexivity).
          rewrite IHl by (intros; apply Hy; right; assumption).
          cbn [rev]. rewrite <- app_assoc. reflexivity. }
      rewrite Hgen; [reflexivity|].
      intros y Hy. simpl in Hd.
      assert (Hmax : forall l y, In y l -> (depth y <= fold_right (fun y d => Nat.max (depth y) d) O l)%nat).
      { clear. induction l as [|a l IHl]; intros y H; [destruct H|].
        destruct H as [->|H]; simpl; [lia|]. specialize (IHl _ H). lia. }
      specialize (Hmax _ _ Hy). lia.
Qed.

Lemma depth_le_enc : forall x, (depth x <= length (enc x))%nat.
Proof.
  fix IH 1. intros [z|s|l]; simpl; try lia.
  assert (H : (fold_right (fun y d => Nat.max (depth y) d) O l <= length (flat_map enc l))%nat).
  { induction l as [|y l IHl]; simpl; [lia|]. rewrite app_length. specialize (IH y). lia. }
  lia.
Qed.

Theorem decode_encode : forall x, decode (enc x) = Some x.
Proof.
  intros x. unfold decode.
  pose proof (dec_enc (S (length (enc x))) x [] ) as H.
  rewrite app_nil_r in H. rewrite H; [reflexivity|].
  pose proof (depth_le_enc x). lia.
Qed.
