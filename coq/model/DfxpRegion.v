(* Model of pycaption/dfxp/base.py RegionCreator (C07): which regions are created, which id every div / p / span
   refers to, which regions survive cleanup_regions.
   A layout is abstracted to (equality class, creates-a-region, truthiness): class 0 is "equal to
   DFXP_DEFAULT_REGION"; None = no layout.  `creates` = origin or extent or padding or alignment (the test of
   _create_unique_regions; an invariant of the equality class, Layout.__eq__ compares exactly these four);
   `truthy` = bool(layout) = creates or webvtt_positioning (Layout.__bool__; NOT an invariant of the class,
   Layout.__eq__ ignores webvtt_positioning) - the test of get_positioning_info and of _recreate_span. Region ids: -1 is DFXP_DEFAULT_REGION_ID ("bottom"), k >= 0 is "r<k>". Definitions only. *)
From Coq Require Import List ZArith Bool.
Import ListNotations.
Open Scope Z_scope.

Definition lay := option (Z * bool * bool).
Definition truthy (l : lay) : bool := match l with Some (_, _, b) => b | None => false end.

(* style-start nodes with a truthy layout ask for a region (the span carries region=); other nodes only
   contribute their layout to the set of regions to create *)
Record rnode := mkRnode { rn_layout : lay; rn_span : bool }.
Record rcap := mkRcap { rc_layout : lay; rc_nodes : list rnode }.
Record rlang := mkRlang { rl_layout : lay; rl_caps : list rcap }.
Record rset := mkRset { rs_layout : lay; rs_langs : list rlang }.

(* _OrderedSet.add *)
Definition oset_add (l : lay) (s : list (Z * bool)) : list (Z * bool) :=
  match l with
  | None => s
  | Some (c, cr, _) => if existsb (fun x => fst x =? c) s then s else s ++ [(c, cr)]
  end.

(* _collect_unique_regions: language, caption and node layouts in document order; None and the default discarded *)
Definition collect_unique (cs : rset) : list (Z * bool) :=
  let all := fold_left (fun s l =>
               fold_left (fun s c => fold_left (fun s n => oset_add (rn_layout n) s) (rc_nodes c) (oset_add (rc_layout c) s))
                         (rl_caps l) (oset_add (rl_layout l) s)) (rs_langs cs) [] in
  filter (fun x => negb (fst x =? 0)) all.

(* _create_unique_regions with _get_new_id: only layouts with origin / extent / padding / alignment get a region;
   ids r0, r1, ... in that order *)
Fixpoint create_regions (u : list (Z * bool)) (seed : Z) : list (Z * Z) :=   (* class -> id *)
  match u with
  | [] => []
  | (c, b) :: t => if b then (c, seed) :: create_regions t (seed + 1) else create_regions t seed
  end.

Definition default_id : Z := -1.
(* self._region_map after create_document_regions: document regions, then update() with the default region *)
Definition region_map (cs : rset) : list (Z * Z) := create_regions (collect_unique cs) 0 ++ [(0, default_id)].

Fixpoint map_get (c : Z) (m : list (Z * Z)) : option Z :=
  match m with [] => None | (k, v) :: t => if k =? c then Some v else map_get c t end.

(* get_positioning_info: node, else caption, else language, else set layout (by truthiness); unknown -> default *)
Definition pick (node cap lang set : lay) : lay :=
  if truthy node then node else if truthy cap then cap else if truthy lang then lang else set.
Definition region_of (m : list (Z * Z)) (l : lay) : Z :=
  match l with
  | Some (c, _, _) => match map_get c m with Some id => id | None => default_id end
  | None => default_id
  end.

(* references: per language the div's region, per caption the p's region and the regions of its spans *)
Definition refs (cs : rset) : list (Z * list (Z * list Z)) :=
  let m := region_map cs in
  map (fun l => (region_of m (pick None None (rl_layout l) (rs_layout cs)),
                 map (fun c => (region_of m (pick None (rc_layout c) (rl_layout l) (rs_layout cs)),
                                map (fun n => region_of m (pick (rn_layout n) (rc_layout c) (rl_layout l) (rs_layout cs)))
                                    (filter (fun n => rn_span n && truthy (rn_layout n)) (rc_nodes c))))
                     (rl_caps l)))
      (rs_langs cs).

Definition all_refs (cs : rset) : list Z :=
  flat_map (fun d => fst d :: flat_map (fun p => fst p :: snd p) (snd d)) (refs cs).

(* the <layout> section: the default region first, then the document regions; cleanup_regions keeps the assigned *)
Definition created (cs : rset) : list Z := default_id :: map snd (create_regions (collect_unique cs) 0).
Definition defined (cs : rset) : list Z :=
  filter (fun id => existsb (Z.eqb id) (all_refs cs)) (created cs).
