(* GeomStore.v - as_percentage_of / fit_to_screen of pycaption/geometry.py on the heap (C18: "relativizing or fitting
   returns a new value without modifying the receiver").

   Geometry objects live in the store of model/Store.v (locations, objects = kind + cells).  The numbers are those of
   the value-level model (Geometry.v: size_as_pct, size_add, clamp0 ...); what this file adds is WHICH objects the code
   allocates and which references of the receiver it puts into the result:
     Size.as_percentage_of      `return self` for a percentage, else a new Size
     Point/Stretch/Padding      always a new object; its Size fields are the results of Size.as_percentage_of
     Layout.as_percentage_of    a new Layout; `alignment` is the receiver's reference; origin / extent / padding are new
                                objects (when present); webvtt_positioning is not passed on
     Layout.fit_to_screen       `return self` without an origin; else two new Size objects (the 90 - x / 95 - y values, always
                                built), a new Stretch, with an extent also the bottom-right Point and its two Sizes (garbage),
                                and a new Layout holding the receiver's origin, padding, alignment references; the new
                                Stretch holds the receiver's extent's Size objects where they are kept
   No operation assigns to an existing object: the store only grows (proofs/GeomStoreFacts.v). *)
From Coq Require Import List ZArith QArith Bool.
From PV Require Import lib.Sx lib.Str lib.Result.
From PV Require Import model.Geometry model.Store.
Import ListNotations.
Open Scope Z_scope.

Definition KSize := 20.      (* 1 numerator, 2 denominator (> 0) of value, 3 unit code *)
Definition KPoint := 21.     (* 1 x, 2 y *)
Definition KStretch := 22.   (* 1 horizontal, 2 vertical *)
Definition KPadding := 23.   (* 1 before, 2 after, 3 start, 4 end *)
Definition KAlign := 24.     (* 1 horizontal code | None, 2 vertical code | None *)
Definition KGLayout := 25.   (* 1 origin, 2 extent, 3 padding, 4 alignment, 5 webvtt_positioning *)

(* ---- store-passing computations that may raise ------------------------------------------------------------------ *)
Definition SM (A : Type) := store -> result (store * A).
Definition ret {A} (a : A) : SM A := fun st => Ok (st, a).
Definition fail {A} (e : err) : SM A := fun _ => Err e.
Definition bnd {A B} (m : SM A) (f : A -> SM B) : SM B :=
  fun st => match m st with Ok (st1, a) => f a st1 | Err e => Err e end.
Definition lift {A} (r : result A) : SM A := fun st => match r with Ok a => Ok (st, a) | Err e => Err e end.
Definition new (k : Z) (its : list (val * val)) : SM val := fun st => Ok (new_obj st k its).
Definition rd (v : val) (k : Z) : SM val := fun st => Ok (st, field st v (VInt k)).
Notation "'run' x <~ m ; k" := (bnd m (fun x => k)) (at level 200, x pattern, m at level 100, k at level 200).

Definition ucode (u : unit_) : Z := match u with PX => 0 | EM => 1 | PCT => 2 | CELL => 3 | PT => 4 end.
Definition unit_of (z : Z) : option unit_ :=
  if z =? 0 then Some PX else if z =? 1 then Some EM else if z =? 2 then Some PCT else if z =? 3 then Some CELL
  else if z =? 4 then Some PT else None.

Definition size_cells (a : size) : list (val * val) :=
  [(VInt 1, VInt (Qnum (s_val a))); (VInt 2, VInt (Zpos (Qden (s_val a)))); (VInt 3, VInt (ucode (s_unit a)))].
Definition new_size (a : size) : SM val := new KSize (size_cells a).

(* pure decoding of a Size object *)
Definition dec_size (st : store) (v : val) : option size :=
  match field st v (VInt 1), field st v (VInt 2), field st v (VInt 3) with
  | VInt n, VInt d, VInt u => match unit_of u with Some u => Some (mkSize (Qmake n (Z.to_pos d)) u) | None => None end
  | _, _, _ => None
  end.
Definition rd_size (v : val) : SM size :=
  fun st => match dec_size st v with Some a => Ok (st, a) | None => Err AttributeError end.

(* Size.as_percentage_of *)
Definition size_pct_s (v : val) (w h : option Q) : SM val :=
  run a <~ rd_size v;
  if unit_eqb (s_unit a) PCT then ret v            (* return self *)
  else run r <~ lift (size_as_pct a w h); new_size r.

Definition point_pct_s (v : val) (w h : option Q) : SM val :=
  run x <~ rd v 1; run x' <~ size_pct_s x w None; run y <~ rd v 2; run y' <~ size_pct_s y None h;
  new KPoint [(VInt 1, x'); (VInt 2, y')].
Definition stretch_pct_s (v : val) (w h : option Q) : SM val :=
  run x <~ rd v 1; run x' <~ size_pct_s x w None; run y <~ rd v 2; run y' <~ size_pct_s y None h;
  new KStretch [(VInt 1, x'); (VInt 2, y')].
Definition padding_pct_s (v : val) (w h : option Q) : SM val :=
  run b <~ rd v 1; run b' <~ size_pct_s b None h; run a <~ rd v 2; run a' <~ size_pct_s a None h;
  run s <~ rd v 3; run s' <~ size_pct_s s w None; run e <~ rd v 4; run e' <~ size_pct_s e w None;
  new KPadding [(VInt 1, b'); (VInt 2, a'); (VInt 3, s'); (VInt 4, e')].

Definition is_none (v : val) : bool := match v with VNone => true | _ => false end.
Definition opt_s (f : val -> SM val) (v : val) : SM val := if is_none v then ret VNone else f v.

(* Layout.as_percentage_of: params = {'alignment': self.alignment}; origin, extent, padding converted when present *)
Definition layout_pct_s (v : val) (w h : option Q) : SM val :=
  run al <~ rd v 4;
  run o <~ rd v 1; run o' <~ opt_s (fun x => point_pct_s x w h) o;
  run e <~ rd v 2; run e' <~ opt_s (fun x => stretch_pct_s x w h) e;
  run p <~ rd v 3; run p' <~ opt_s (fun x => padding_pct_s x w h) p;
  new KGLayout [(VInt 1, o'); (VInt 2, e'); (VInt 3, p'); (VInt 4, al); (VInt 5, VNone)].

(* Layout.fit_to_screen *)
Definition layout_fit_s (v : val) : SM val :=
  run o <~ rd v 1;
  if is_none o then ret v else                       (* return self *)
  run ox <~ rd o 1; run sx_ <~ rd_size ox; run oy <~ rd o 2; run sy_ <~ rd_size oy;
  run dh <~ new_size (mkSize (Qred (clamp0 (90 - s_val sx_))%Q) PCT);
  run dv <~ new_size (mkSize (Qred (clamp0 (95 - s_val sy_))%Q) PCT);
  run e <~ rd v 2;
  run ne <~ (if is_none e then new KStretch [(VInt 1, dh); (VInt 2, dv)]
         else
           run eh <~ rd e 1; run seh <~ rd_size eh; run ev <~ rd e 2; run sev <~ rd_size ev;
           (* bottom_right = self.origin.add_stretch(self.extent): two Size additions, one Point *)
           run brx <~ lift (size_add sx_ seh); run bx <~ new_size brx;
           run bry <~ lift (size_add sy_ sev); run by_ <~ new_size bry;
           run _ <~ new KPoint [(VInt 1, bx); (VInt 2, by_)];
           if negb (unit_eqb (s_unit brx) PCT) then fail ValueError else
           new KStretch [(VInt 1, if Qle_bool (s_val brx) 90%Q then eh else dh);
                         (VInt 2, if Qle_bool (s_val bry) 95%Q then ev else dv)]);
  run p <~ rd v 3; run al <~ rd v 4;
  new KGLayout [(VInt 1, o); (VInt 2, ne); (VInt 3, p); (VInt 4, al); (VInt 5, VNone)].

(* ---- building a receiver the way the constructors are called with fresh arguments; decoding a result ------------- *)
Definition hcode (a : halign) : Z := match a with HLeft => 0 | HCenter => 1 | HRight => 2 | HStart => 3 | HEnd => 4 end.
Definition vcode (a : valign) : Z := match a with VTop => 0 | VCenter => 1 | VBottom => 2 end.
Definition h_of (z : Z) : option halign :=
  if z =? 0 then Some HLeft else if z =? 1 then Some HCenter else if z =? 2 then Some HRight else if z =? 3 then Some HStart
  else if z =? 4 then Some HEnd else None.
Definition v_of (z : Z) : option valign :=
  if z =? 0 then Some VTop else if z =? 1 then Some VCenter else if z =? 2 then Some VBottom else None.

Definition enc_point (p : point) : SM val :=
  run x <~ new_size (p_x p); run y <~ new_size (p_y p); new KPoint [(VInt 1, x); (VInt 2, y)].
Definition enc_stretch (s : stretch) : SM val :=
  run x <~ new_size (st_h s); run y <~ new_size (st_v s); new KStretch [(VInt 1, x); (VInt 2, y)].
Definition enc_padding (p : padding) : SM val :=
  run b <~ new_size (pd_before p); run a <~ new_size (pd_after p); run s <~ new_size (pd_start p); run e <~ new_size (pd_end p);
  new KPadding [(VInt 1, b); (VInt 2, a); (VInt 3, s); (VInt 4, e)].
Definition enc_align (a : alignment) : SM val :=
  new KAlign [(VInt 1, match al_h a with Some x => VInt (hcode x) | None => VNone end);
              (VInt 2, match al_v a with Some x => VInt (vcode x) | None => VNone end)].
Definition enc_opt {A} (f : A -> SM val) (o : option A) : SM val := match o with Some a => f a | None => ret VNone end.
Definition enc_layout (l : layout) : SM val :=
  run o <~ enc_opt enc_point (l_origin l); run e <~ enc_opt enc_stretch (l_extent l); run p <~ enc_opt enc_padding (l_padding l);
  run a <~ enc_opt enc_align (l_alignment l);
  new KGLayout [(VInt 1, o); (VInt 2, e); (VInt 3, p); (VInt 4, a);
                (VInt 5, match l_webvtt l with Some s => VStr s | None => VNone end)].

Definition dec2 {A} (mk : size -> size -> A) (st : store) (v : val) : option A :=
  match dec_size st (field st v (VInt 1)), dec_size st (field st v (VInt 2)) with
  | Some a, Some b => Some (mk a b) | _, _ => None end.
Definition dec_padding (st : store) (v : val) : option padding :=
  match dec_size st (field st v (VInt 1)), dec_size st (field st v (VInt 2)),
        dec_size st (field st v (VInt 3)), dec_size st (field st v (VInt 4)) with
  | Some a, Some b, Some c, Some d => Some (mkPadding a b c d) | _, _, _, _ => None end.
Definition dec_align (st : store) (v : val) : option alignment :=
  let h := match field st v (VInt 1) with VInt z => h_of z | _ => None end in
  let vv := match field st v (VInt 2) with VInt z => v_of z | _ => None end in
  Some (mkAlign h vv).
Definition dec_opt {A} (f : store -> val -> option A) (st : store) (v : val) : option (option A) :=
  if is_none v then Some None else match f st v with Some a => Some (Some a) | None => None end.
Definition dec_layout (st : store) (v : val) : option layout :=
  match dec_opt (dec2 mkPoint) st (field st v (VInt 1)), dec_opt (dec2 mkStretch) st (field st v (VInt 2)),
        dec_opt dec_padding st (field st v (VInt 3)), dec_opt dec_align st (field st v (VInt 4)) with
  | Some o, Some e, Some p, Some a =>
      Some (mkLayout o e p a (match field st v (VInt 5) with VStr s => Some s | _ => None end))
  | _, _, _, _ => None
  end.

(* ---- the observable sharing profile: for every path of the result, is it the receiver's object at the same path? --- *)
Definition paths (st : store) (v : val) : list val :=
  let f x k := field st x (VInt k) in
  let o := f v 1 in let e := f v 2 in let p := f v 3 in
  [v; o; f o 1; f o 2; e; f e 1; f e 2; p; f p 1; f p 2; f p 3; f p 4; f v 4].
(* 1 same object, 0 another object, 2 not an object (None) *)
Definition same_obj (a b : val) : Z := match a with VLoc _ => if val_eqb a b then 1 else 0 | _ => 2 end.
Fixpoint profile (a b : list val) : list Z :=
  match a, b with x :: s, y :: t => same_obj x y :: profile s t | _, _ => [] end.

(* op: 0 as_percentage_of (w, h), 1 fit_to_screen.  The receiver is built in the empty store. *)
Definition layout_op_profile (op : Z) (w h : option Q) (l : layout) : result (option layout * list Z) :=
  match enc_layout l [] with
  | Err e => Err e
  | Ok (st, v) =>
      match (if op =? 0 then layout_pct_s v w h else layout_fit_s v) st with
      | Err e => Err e
      | Ok (st', r) => Ok (dec_layout st' r, profile (paths st' r) (paths st v))
      end
  end.
