(* C12 (wave 7): the STRING level of tts:textAlign / tts:displayAlign.  model/Positioning.v keeps the two attributes as enum
   members (region_attrs); here are the names the writer prints (_create_external_horizontal/vertical_alignment) and the
   reader's way back (scrape_positioning_info: `found or "start"`, `found or "after"`, then _create_internal_alignment ->
   Alignment.from_horizontal_and_vertical_align, which maps unknown names to None).  Definitions only. *)
From Coq Require Import List ZArith QArith Bool.
From PV Require Import lib.Sx lib.Str lib.Result model.Geometry model.Positioning.
Import ListNotations.
Open Scope Z_scope.

Definition halign_name (h : halign) : str :=
  match h with HLeft => lit "left" | HCenter => lit "center" | HRight => lit "right" | HStart => lit "start" | HEnd => lit "end" end.
Definition valign_name (v : valign) : str :=
  match v with VTop => lit "before" | VCenter => lit "center" | VBottom => lit "after" end.

Definition halign_of_name (s : str) : option halign :=
  if str_eqb s (lit "left") then Some HLeft else if str_eqb s (lit "start") then Some HStart
  else if str_eqb s (lit "center") then Some HCenter else if str_eqb s (lit "right") then Some HRight
  else if str_eqb s (lit "end") then Some HEnd else None.
Definition valign_of_name (s : str) : option valign :=
  if str_eqb s (lit "before") then Some VTop else if str_eqb s (lit "center") then Some VCenter
  else if str_eqb s (lit "after") then Some VBottom else None.

(* `x or default`: an absent or empty attribute takes the default *)
Definition or_default (o : option str) (d : str) : str := match o with Some (c :: t) => c :: t | _ => d end.

(* the alignment part of scrape_positioning_info on a region with these two attribute values *)
Definition read_alignment (text_align display_align : option str) : option alignment :=
  match halign_of_name (or_default text_align (lit "start")), valign_of_name (or_default display_align (lit "after")) with
  | None, None => None
  | h, v => Some (mkAlign h v)
  end.

(* what the writer prints for a layout's alignment: only the components that are set; no alignment -> the default region's *)
Definition written_alignment (a : option alignment) : option str * option str :=
  (option_map halign_name (fst (align_attrs a)), option_map valign_name (snd (align_attrs a))).
