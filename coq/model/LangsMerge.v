(* Model (wave 7) of two pieces of pycaption's language handling (C14):
   * SAMIParser._css_parse as far as languages go: the dict class -> lang that the parser builds from the blocks of a
     stylesheet (`style_sheet[selector.lower()] = new_style`: a later block of a class REPLACES the earlier one and
     keeps the position of the first) - `read_styles`, here over the language-declaring blocks the SAMI writer emits
     (model.Langs.sheet_langs);
   * pycaption.base.merge_concurrent_captions / merge: the loop over one language's captions with its three
     variables (last_caption, concurrent_captions, merged_captions) and `merge` (nodes of the run in order, a line
     break before the nodes of every caption but the first `if new_nodes:`; start, end (and style) of the FIRST
     caption); `if merged_captions: caption_set.set_captions(lang, merged_captions)` per language.
   A caption is (start, end, nodes), a node is None (line break) or Some text.  Definitions only. *)
From Coq Require Import List ZArith Bool.
From PV Require Import lib.Sx lib.Str lib.Result model.Langs.
Import ListNotations.
Open Scope Z_scope.

(* ---- the stylesheet as read back ---------------------------------------------------------------------------- *)
Definition read_styles (sheet : list (str * str)) : sami_styles :=
  fold_left (fun d b => dict_set (lower (fst b)) (Some (snd b)) d) sheet [].

(* a <P class=c> written by the SAMI writer, read through the stylesheet it wrote *)
Definition reread_lang (default : str) (cls : str) (sheet : list (str * str)) : str :=
  p_lang default [(lit "class", cls)] (read_styles sheet).

(* handle_starttag over a run of <P> tags: the language of every tag, and self.langs *)
Definition p_langs (default : str) (styles : sami_styles) (ps : list (list (str * str))) : list str * list str :=
  let tags := map (fun a => p_lang default a styles) ps in (tags, first_appearance tags).

(* ---- merge_concurrent_captions ---------------------------------------------------------------------------------- *)
Notation node := (option str) (only parsing).
Notation cap := (Z * Z * list (option str))%type (only parsing).
Definition cap_start (c : cap) : Z := fst (fst c).
Definition cap_end (c : cap) : Z := snd (fst c).
Definition cap_nodes (c : cap) : list node := snd c.

(* merge(captions): new_nodes; `if new_nodes: append break` before every caption's nodes; times of captions[0] *)
Definition merge_nodes (run : list cap) : list node :=
  fold_left (fun acc c => (match acc with [] => acc | _ => acc ++ [None] end) ++ cap_nodes c) run [].
Definition merge_run (run : list cap) : option cap :=
  match run with
  | [] => None                                   (* captions[0] raises IndexError; never called on an empty run *)
  | c :: _ => Some (cap_start c, cap_end c, merge_nodes run)
  end.
Definition push_run (run : list cap) (merged : list cap) : list cap :=
  match merge_run run with Some m => merged ++ [m] | None => merged end.

(* the loop body; state = (last_caption, concurrent_captions, merged_captions) *)
Definition merge_state := (option cap * list cap * list cap)%type.
Definition merge_step (st : merge_state) (c : cap) : merge_state :=
  match st with
  | (Some lc, conc, merged) =>
      if (cap_start c =? cap_start lc) && (cap_end c =? cap_end lc)
      then (Some c, conc ++ [c], merged)
      else (Some c, [c], push_run conc merged)
  | (None, conc, merged) => (Some c, [c], merged)
  end.
Definition merge_lang (caps : list cap) : list cap :=
  match fold_left merge_step caps (None, [], []) with
  | (_, conc, merged) => match conc with [] => merged | _ => push_run conc merged end
  end.
(* `if merged_captions: set_captions(lang, merged_captions)` - an empty language keeps its (empty) list *)
Definition merge_concurrent (cs : list (str * list cap)) : list (str * list cap) :=
  map (fun lc => (fst lc, match merge_lang (snd lc) with [] => snd lc | m => m end)) cs.

(* ---- SinglePositioningDFXPWriter.write / LegacyDFXPWriter.write: merge first, then the writer of model.Langs ------ *)
(* a merged caption as it is observed in the written <p>: its start and its text nodes joined by one space (the line
   breaks become <br/>, which the observation turns into white space) *)
Definition cap_texts (c : cap) : list str :=
  flat_map (fun n => match n with Some t => [t] | None => [] end) (cap_nodes c).
Definition flat_cue (c : cap) : cue := (cap_start c, join (lit " ") (cap_texts c)).
Definition flat_set (cs : list (str * list cap)) : capset := map (fun lc => (fst lc, map flat_cue (snd lc))) cs.
(* caption_set = merge_concurrent_captions(caption_set); return super().write(caption_set, force) *)
Definition single_write (force : str) (cs : list (str * list cap)) : dfxp_doc :=
  dfxp_write force (flat_set (merge_concurrent cs)).
Definition legacy_merge_write (force : str) (cs : list (str * list cap)) : Result.result dfxp_doc :=
  legacy_write force (flat_set (merge_concurrent cs)).
