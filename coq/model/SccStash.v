(* Model of pycaption/scc/specialized_collections.py: PreCaption, TimingCorrectingCaptionList (extend,
   _update_last_batch), CaptionCreator.correct_last_timing(force=True), and of
   pycaption/scc/__init__.py: fix_last_captions_without_ending, the flash-cue scan, Caption.format_start.
   Definitions only.  (C06 C15 C16 C05)

   The list object and the `_last_batch` / `_still_editing` tuples alias the same PreCaption objects; the stored
   members of `_still_editing` are exactly `_last_batch` (both are set by the same create_and_store call), which is
   always the tail of the list: the model keeps the list and the length of that tail. *)
From Coq Require Import List ZArith QArith Bool.
From PV Require Import lib.Sx lib.Str lib.Result model.GenScc model.SccLen.
Import ListNotations.
Open Scope Z_scope.

Definition pos : Type := (Z * Z)%type.          (* (row, column) *)

Inductive cnode : Type :=
| CText (s : str) (p : pos)
| CBreak (p : pos)
| CStyle (on : bool) (p : pos).                 (* italics on / off *)

Record precap : Type := mkPre { pc_start : Q; pc_end : Q; pc_nodes : list cnode; pc_layout : option pos }.

Definition set_end (e : Q) (c : precap) : precap := mkPre (pc_start c) e (pc_nodes c) (pc_layout c).

Record stash : Type := mkStash { st_caps : list precap; st_batch : nat }.
Definition stash0 : stash := mkStash [] 0.

(* apply f to the last n elements *)
Definition map_tail {A} (n : nat) (f : A -> A) (l : list A) : list A :=
  firstn (length l - n) l ++ map f (skipn (length l - n) l).

Definition us_per_codeword : Q := (scc_us_per_codeword_num # Z.to_pos scc_us_per_codeword_den)%Q.
(* 5 * MICROSECONDS_PER_CODEWORD + 1 *)
Definition join_threshold : Q := (5 * us_per_codeword + 1)%Q.

Definition has_nodes (c : precap) : bool := match pc_nodes c with [] => false | _ => true end.

(* _update_last_batch(batch, *new): batch = last st_batch elements *)
Definition update_last_batch (s : stash) (new : list precap) : list precap :=
  match new with
  | [] => st_caps s
  | n0 :: _ =>
      match last (map Some (skipn (length (st_caps s) - st_batch s) (st_caps s))) None with
      | None => st_caps s                                   (* empty batch *)
      | Some b =>
          if Qeq_bool (pc_end b) 0 || negb (Qle_bool join_threshold (pc_start n0 - pc_end b))
          then map_tail (st_batch s) (set_end (pc_start n0)) (st_caps s)
          else st_caps s
      end
  end.

(* TimingCorrectingCaptionList.extend *)
Definition stash_extend (s : stash) (items : list precap) : stash :=
  let new := filter has_nodes items in
  mkStash (update_last_batch s new ++ new) (length new).

(* CaptionCreator.correct_last_timing(end_time, force=True) *)
Definition correct_last_timing (s : stash) (t : Q) : stash :=
  mkStash (map_tail (st_batch s) (set_end t) (st_caps s)) (st_batch s).

(* fix_last_captions_without_ending: for caption in reversed(l): if caption.end: return; caption.end = start + 4 s *)
Fixpoint fix_last_rev (l : list precap) : list precap :=
  match l with
  | [] => []
  | c :: t => if Qeq_bool (pc_end c) 0 then set_end (pc_start c + inject_Z 4000000) c :: fix_last_rev t else l
  end.
Definition fix_last (l : list precap) : list precap := rev (fix_last_rev (rev l)).

(* 0 < cap.end - cap.start < 50000 *)
Definition is_flash (c : precap) : bool :=
  let d := (pc_end c - pc_start c)%Q in negb (Qle_bool d 0) && negb (Qle_bool (inject_Z 50000) d).

(* timedelta(microseconds=x): round half to even to whole microseconds *)
Definition round_half_even (q : Q) : Z :=
  let n := Qnum q in let d := Zpos (Qden q) in
  let fl := n / d in let r2 := 2 * (n mod d) in
  if r2 <? d then fl else if d <? r2 then fl + 1 else if Z.even fl then fl else fl + 1.

(* Caption.format_start(): "HH:MM:SS.mmm" from timedelta.seconds / .microseconds (days are dropped) *)
Definition format_ts (us : Q) : str :=
  let t := round_half_even us in
  let secs := (t / 1000000) mod 86400 in
  let ms := (t mod 1000000) / 1000 in
  zpad 2 (dec_z (secs / 3600)) ++ [58] ++ zpad 2 (dec_z ((secs mod 3600) / 60)) ++ [58]
  ++ zpad 2 (dec_z (secs mod 60)) ++ [46] ++ zpad 3 (dec_z ms).

(* "".join(get_text_nodes()) *)
Definition node_text (n : cnode) : str :=
  match n with CText s _ => s | CBreak _ => [10] | CStyle _ _ => [] end.
Definition cap_text (c : precap) : str := concat (map node_text (pc_nodes c)).
Definition to_lcap (c : precap) : lcap := (format_ts (pc_start c), cap_text c).

Inductive read_result : Type :=
| ROk (caps : list precap)
| RLen (msg : str)                 (* CaptionLineLengthError(msg) *)
| RErr (e : err).

(* the tail of SCCReader.read after the final flush *)
Definition finish_read (s : stash) : read_result :=
  let caps := st_caps s in
  match length_check (map to_lcap caps) with
  | Some msg => RLen msg
  | None =>
      if existsb is_flash caps then RErr ETiming
      else match caps with
           | [] => RErr ENoCaptions
           | _ => ROk (fix_last caps)
           end
  end.
