(* C08 - model of one conversion hop (write in a format, read it back with pycaption's own
   reader) at the level of the timeline of one language: the C02 writer models print the
   timing tokens, the C01 reader models parse them.  Definitions only. *)
From Coq Require Import List ZArith QArith Bool.
From PV Require Import lib.Sx lib.Str lib.Result.
From PV Require Import model.Base model.TimeRead model.TimeWrite.
From PV Require model.TextWrite model.TextRead model.DfxpWriteDoc model.DfxpReadLines model.SamiWriteDoc model.SamiReadLines.
Import ListNotations.
Open Scope Z_scope.

Inductive fmt := FSrt | FVtt | FDfxp | FSami | FMdvd.

Definition cue : Type := (Z * Z)%type.          (* start, end in microseconds *)

Definition hop_time_srt (t : Z) : result Z := srt_to_micro (srt_ts (inject_Z t)).
Definition hop_time_vtt (t : Z) : result Z := vtt_timestamp (vtt_ts (inject_Z t)).
Definition hop_time_dfxp (t : Z) : result Z := dfxp_time (dfxp_ts (inject_Z t)).
Definition hop_time_mdvd (t : Z) : result Z :=
  do n <- py_int (mdvd_token (inject_Z t)); frames_to_micro n (25, 1).

Definition hop_cues (f : Z -> result Z) (cs : list cue) : result (list cue) :=
  res_map (fun c : cue => do s <- f (fst c); do e <- f (snd c); Ok (s, e)) cs.

Definition cap_of (c : cue) : caption := mkCap (inject_Z (fst c)) (inject_Z (snd c)) [0].
Definition cue_q (c : cue) : Q * Q := (inject_Z (fst c), inject_Z (snd c)).

(* the SRT writer first merges runs of equal spans; tokens are printed from the caption's numbers *)
Definition srt_written (cs : list cue) : list caption := srt_merge (map cap_of cs).

Definition hop_time_q (f : Q -> str) (g : str -> result Z) (c : caption) : result cue :=
  do s <- g (f (c_start c)); do e <- g (f (c_end c)); Ok (s, e).

Definition sami_p_of (e : sev) : option str * bool :=
  match e with
  | SCue ms _ => (Some (sami_token ms), true)
  | SBlank ms => (Some (sami_token ms), false)
  end.

Definition hop (f : fmt) (cs : list cue) : result (list cue) :=
  match f with
  | FSrt => res_map (hop_time_q srt_ts srt_to_micro) (srt_written cs)
  | FVtt => hop_cues hop_time_vtt cs
  | FDfxp => hop_cues hop_time_dfxp cs
  | FMdvd => hop_cues hop_time_mdvd cs
  | FSami => sami_translate_str (map sami_p_of (sami_write (map cue_q cs)))
  end.

Fixpoint run_model (chain : list fmt) (cs : list cue) : result (list cue) :=
  match chain with
  | [] => Ok cs
  | f :: t => do cs' <- hop f cs; run_model t cs'
  end.

(* ---- MicroDVD writer at string level (MicroDVDWriter._recreate_lang), for the document-level
   round trip: frames, then the text: TEXT nodes verbatim, BREAK nodes as '|' ------------------ *)
(* while p in s: s = s.replace(p, r) *)
Fixpoint collapse (fuel : nat) (p r s : str) : str :=
  match fuel with
  | O => s
  | S f => if is_infix p s then collapse f p r (replace p r s) else s
  end.

Definition mdvd_content (lines : list str) : str :=
  let c1 := strip (join [124] lines) ++ [10] in
  let c2 := collapse (length c1) [10; 10] [10] c1 in
  collapse (length c2) [124; 10] [10] c2.

Definition mdvd_write_cue (c : Z * Z * list str) : str :=
  let '(s, e, lines) := c in
  123 :: mdvd_token (inject_Z s) ++ 125 :: 123 :: mdvd_token (inject_Z e) ++ 125 :: mdvd_content lines.

Definition mdvd_write (cs : list (Z * Z * list str)) : str := flat_map mdvd_write_cue cs.

(* ---- SRT at string level (wave 5): the document SRTWriter prints for captions given as text lines: per caption the
   counter, the timing line, the lines, a blank line; the final character is removed (srt[:-1]).  For the captions of the
   domain (distinct spans, clean lines) the writer's merge loop and its clean-up of the content are the identity; the
   harness compares this model's documents with the real writer's (request 804). *)
Definition srt_write_block (k : Z) (c : Z * Z * list str) : str :=
  let '(s, e, lines) := c in
  dec_z k ++ [10] ++ srt_ts (inject_Z s) ++ lit " --> " ++ srt_ts (inject_Z e) ++ [10] ++ join [10] lines ++ [10; 10].
Fixpoint srt_write_blocks (k : Z) (cs : list (Z * Z * list str)) : str :=
  match cs with [] => [] | c :: t => srt_write_block k c ++ srt_write_blocks (k + 1) t end.
Definition srt_write_doc (cs : list (Z * Z * list str)) : str := removelast (srt_write_blocks 1 cs).

(* ---- WebVTT at string level (wave 6): the document WebVTTWriter prints for captions given as text lines (no layout, no
   style): header, per caption the timing line and the lines, every line through the writer's escaping
   (TextWrite.vtt_encode: & < and the arrow), captions joined by a blank line; the last cue has no blank line after it.
   Reading: the C01 model of WebVTTReader's line loop (lenient, no shift) and, on every text line, the reader's decoding
   (TextRead.vtt_decode: strip, voice and tag substitution, the entity chain).  Request 805 compares the writer model's
   documents with the real writer's. *)
Definition vtt_write_cue (c : Z * Z * list str) : str :=
  let '(s, e, lines) := c in
  vtt_ts (inject_Z s) ++ lit " --> " ++ vtt_ts (inject_Z e) ++ [10]
  ++ join [10] (map TextWrite.vtt_encode lines) ++ [10].
Definition vtt_write_doc (cs : list (Z * Z * list str)) : str :=
  lit "WEBVTT" ++ [10; 10] ++ join [10] (map vtt_write_cue cs).
Definition vtt_read_doc (d : str) : result (list rcap) :=
  match vtt_read false 0 d with
  | Ok caps => Ok (map (fun c => (fst c, map (TextRead.vtt_decode true) (snd c))) caps)
  | Err e => Err e
  end.

(* several languages through the single-language formats, as the writers do it: SRTWriter joins the languages' documents
   with the line MULTI-LANGUAGE SRT, MicroDVDWriter concatenates them (WebVTTWriter writes the first language only) *)
Definition srt_write_set (langs : list (list (Z * Z * list str))) : str :=
  join (lit "MULTI-LANGUAGE SRT" ++ [10]) (map srt_write_doc langs).
Definition mdvd_write_set (langs : list (list (Z * Z * list str))) : str := concat (map mdvd_write langs).

(* a hop at DOCUMENT level for the line formats whose writer is modelled at string level: print the document, read it
   with the model of the format's reader; captions are (start, end, text lines) *)
Definition hop_doc (f : fmt) (cs : list (Z * Z * list str)) : result (list (Z * Z * list str)) :=
  match f with
  | FSrt => srt_read (srt_write_doc cs)
  | FMdvd => mdvd_read (mdvd_write cs)
  | FVtt => vtt_read_doc (vtt_write_doc cs)
  (* wave 7: the DFXP document (DfxpWriteDoc, one language "en-US") read by the string-level reader model *)
  | FDfxp => DfxpReadLines.dfxp_read_lines (DfxpWriteDoc.dfxp_write_doc (lit "en-US") cs)
  (* round 4: the SAMI document (SamiWriteDoc, one language "en-US") read by the string-level SAMI reader model *)
  | FSami => SamiReadLines.sami_read_lines [] [(lower (lit "en-US"), lit "en-US")]
                                            (SamiWriteDoc.sami_body_text (lit "en-US") cs)
  end.
Fixpoint run_doc (chain : list fmt) (cs : list (Z * Z * list str)) : result (list (Z * Z * list str)) :=
  match chain with
  | [] => Ok cs
  | f :: t => match hop_doc f cs with Ok r => run_doc t r | Err e => Err e end
  end.

(* ---- caption sets with several languages: DFXP and SAMI carry them (one <div> / one class each);
   a hop converts every language on its own ------------------------------------------------------------ *)
Definition capset : Type := list (str * list cue).
Definition carries_languages (f : fmt) : bool := match f with FDfxp | FSami => true | _ => false end.

Definition hop_set (f : fmt) (cs : capset) : result capset :=
  if carries_languages f
  then res_map (fun lc : str * list cue => do c <- hop f (snd lc); Ok (fst lc, c)) cs
  else Err ENotImplemented.       (* SRT, WebVTT, MicroDVD files hold one language: outside *)

Fixpoint run_model_set (chain : list fmt) (cs : capset) : result capset :=
  match chain with
  | [] => Ok cs
  | f :: t => do cs' <- hop_set f cs; run_model_set t cs'
  end.
