(* C13 (round 4): what SAMIWriter._recreate_style_block prints for a layout: the four margins of its padding
   (`if layout_info and layout_info.padding`: margin-top = before, margin-right = end, margin-bottom = after,
   margin-left = start, each by str(Size)), for the set-level layout (written into every style class block) and for the
   language-level layout of every language (the block of the language's class).  Definitions only. *)
From Coq Require Import List ZArith QArith Bool.
From PV Require Import lib.Sx lib.Str lib.Result model.Geometry model.Positioning.
Import ListNotations.
Open Scope Z_scope.

Definition sami_margins (o : option layout) : list (str * str) :=
  match o with
  | Some l =>
      if layout_truthy l then
        match l_padding l with
        | Some p => [(lit "margin-top", size_str (pd_before p)); (lit "margin-right", size_str (pd_end p));
                     (lit "margin-bottom", size_str (pd_after p)); (lit "margin-left", size_str (pd_start p))]
        | None => []
        end
      else []
  | None => []
  end.

(* head: the set-level block (style classes); then one block per language *)
Definition sami_doc_margins (s : nset) : list (list (str * str)) :=
  sami_margins (ns_layout s) :: map (fun lg => sami_margins (nl_layout lg)) (ns_langs s).
