(* C08, round 4: the TEXT side of SAMIReader at string level for documents whose paragraphs are text lines separated by
   <br/> (what SAMIWriter writes for captions given as lines).  _translate_tag reads a NavigableString with the same
   pattern as the DFXP reader (leading line breaks and indentation dropped, first line kept, further non-blank lines
   appended after one blank: DfxpReadLines.dfxp_string_text), <br> -> BREAK.  From the tokens of model/SamiText.v: the
   items (text runs and <br>) of every <p>, paragraphs without visible text dropped (they only end a cue), a paragraph
   read as lines when its items alternate text / <br> (else None = outside).  One language: times from
   SamiText.sami_read_string.  Definitions only. *)
From Coq Require Import List ZArith Bool.
From PV Require Import lib.Sx lib.Str lib.Result.
From PV Require Import model.TimeTree model.XmlRead model.SamiText model.DfxpReadLines.
Import ListNotations.
Open Scope Z_scope.

Inductive pit := PT (s : str) | PB.

(* state: finished paragraphs, the open one *)
Definition pi_flush (st : list (list pit) * option (list pit)) : list (list pit) * option (list pit) :=
  match snd st with Some its => (fst st ++ [its], None) | None => st end.
Definition pi_step (st : list (list pit) * option (list pit)) (tk : stok) : list (list pit) * option (list pit) :=
  match tk with
  | SOpen n _ =>
      if str_eqb n (lit "p") then (fst (pi_flush st), Some [])
      else if str_eqb n (lit "sync") then pi_flush st
      else if str_eqb n (lit "br") then
        match snd st with Some its => (fst st, Some (its ++ [PB])) | None => st end
      else st
  | SClose n => if str_eqb n (lit "p") || str_eqb n (lit "sync") then pi_flush st else st
  | SText s => match snd st with Some its => (fst st, Some (its ++ [PT s])) | None => st end
  end.
Definition par_items (toks : list stok) : list (list pit) := fst (pi_flush (fold_left pi_step toks ([], None))).

Definition items_text (its : list pit) : str := flat_map (fun i => match i with PT s => s | PB => [] end) its.

Fixpoint items_lines (its : list pit) : option (list str) :=
  match its with
  | [PT s] => match dfxp_string_text s with Some t => Some [t] | None => None end
  | PT s :: PB :: rest =>
      match dfxp_string_text s, items_lines rest with
      | Some t, Some ls => Some (t :: ls)
      | _, _ => None
      end
  | _ => None
  end.

Definition sami_read_lines (default : str) (styles : list (str * str)) (s : str) : result (list (Z * Z * list str)) :=
  match sami_read_string default styles s with
  | Ok [(_, times)] =>
      match stoks (S (length s)) s with
      | Some toks =>
          match opt_all (map items_lines (filter (fun its => visible (items_text its)) (par_items toks))) with
          | Some ls =>
              if (length ls =? length times)%nat
              then Ok (map (fun tl : (Z * Z) * list str => (fst (fst tl), snd (fst tl), snd tl)) (combine times ls))
              else Err EOutside
          | None => Err EOutside
          end
      | None => Err EOutside
      end
  | Ok _ => Err EOutside
  | Err e => Err e
  end.
