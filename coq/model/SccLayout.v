(* Model of pycaption/scc/specialized_collections.py:_get_layout_from_tuple (C05). Definitions only.
     horizontal = Size(80 * column / 32.0 + 10, PERCENT);  vertical = Size(90 * (row - 1) / 15.0 + 5, PERCENT)
     Layout(origin=Point(horizontal, vertical), alignment=Alignment(LEFT, TOP))                                   *)
From Coq Require Import List ZArith QArith.
From PV Require Import model.SccStash.
Import ListNotations.

Definition layout_of_pos (p : pos) : Q * Q :=
  let '(row, col) := p in
  ((80 * inject_Z col / 32 + 10)%Q, (90 * inject_Z (row - 1) / 15 + 5)%Q).

Definition grid_positions : list pos :=
  flat_map (fun r => map (fun c => (Z.of_nat r, Z.of_nat c)) (seq 0 32)) (seq 1 15).
