(* SccReuse.v - C10: an SCCReader OBJECT used for several read() calls (definitions only).

   model/SccDecoder.v is the decoder of ONE read: fold of translate_line over the lines from the initial state rstate0.
   Here the decoder state is the state of a reader OBJECT: it survives a read() - also one that raised half way - and the
   next read() starts from whatever SCCReader._reset_state re-creates.  The reset is modelled field by field
   (scc/__init__.py _reset_state: caption_stash, time_translator, node_creator_factory = position tracker, last_command,
   double_starter, buffer_dict = three node creators + the active key, pop_ons_queue, time), so that "the reset covers the
   decoder state" is a statement that can fail: `fs` lists the fields a reset re-creates.

   Not in the decoder model, hence not here: roll_rows / roll_rows_expected / simulate_roll_up (the model is the reader
   with simulate_roll_up=False, where they are never consulted).  The exception of a refused document is not stored in the
   object: r_err is always cleared; time_translator.offset is assigned by read() itself after the reset. *)
From Coq Require Import List ZArith QArith Bool.
From PV Require Import lib.Sx lib.Str lib.Result model.SccTime model.SccStash model.SccDecoder.
Import ListNotations.

Inductive fld : Type :=
| FStash        (* caption_stash *)
| FTk           (* node_creator_factory.position_tracker *)
| FLast         (* last_command *)
| FDstart       (* double_starter *)
| FPop | FPaint | FRoll     (* buffer_dict["pop" / "paint" / "roll"] *)
| FActive       (* buffer_dict.active_key *)
| FQueue        (* pop_ons_queue *)
| FTime         (* time *)
| FTc           (* time_translator._last_time *)
| FFrames.      (* time_translator._frames *)

Definition fld_code (f : fld) : Z :=
  match f with
  | FStash => 0 | FTk => 1 | FLast => 2 | FDstart => 3 | FPop => 4 | FPaint => 5 | FRoll => 6 | FActive => 7
  | FQueue => 8 | FTime => 9 | FTc => 10 | FFrames => 11
  end%Z.

Definition all_fields : list fld :=
  [FStash; FTk; FLast; FDstart; FPop; FPaint; FRoll; FActive; FQueue; FTime; FTc; FFrames].

Definition fld_of_code (z : Z) : option fld := List.find (fun f => Z.eqb (fld_code f) z) all_fields.

Definition has (fs : list fld) (f : fld) : bool := existsb (fun g => Z.eqb (fld_code g) (fld_code f)) fs.

Definition covers (fs : list fld) : bool := forallb (has fs) all_fields.

(* what read() does before the first line: the listed fields are re-created, the others keep what the last read() left *)
Definition reset_fields (fs : list fld) (s : rstate) (offset_us : Q) : rstate :=
  let z := rstate0 offset_us in
  mkR (if has fs FStash then r_stash z else r_stash s)
      (if has fs FTk then r_tk z else r_tk s)
      (if has fs FLast then r_last z else r_last s)
      (if has fs FDstart then r_dstart z else r_dstart s)
      (if has fs FPop then r_pop z else r_pop s)
      (if has fs FPaint then r_paint z else r_paint s)
      (if has fs FRoll then r_roll z else r_roll s)
      (if has fs FActive then r_active z else r_active s)
      (if has fs FQueue then r_queue z else r_queue s)
      (if has fs FTime then r_time z else r_time s)
      (if has fs FTc then r_tc z else r_tc s)
      (if has fs FFrames then r_frames z else r_frames s)
      offset_us None.

(* reader.read(document, offset=..) on an object whose decoder state is s: (state left in the object, result) *)
Definition reader_read (fs : list fld) (s : rstate) (offset_us : Q) (ls : list sline) : rstate * read_result :=
  let s1 := fold_left translate_line ls (reset_fields fs s offset_us) in
  let s2 := match r_err s1 with Some _ => s1 | None => flush_implicit s1 end in
  (s2, match r_err s2 with Some e => RErr e | None => finish_read (r_stash s2) end).

Definition doc : Type := (Q * list sline)%type.

(* one reader object reads a sequence of documents *)
Fixpoint reader_history (fs : list fld) (s : rstate) (docs : list doc) : list read_result :=
  match docs with
  | [] => []
  | d :: t => let (s1, r) := reader_read fs s (fst d) (snd d) in r :: reader_history fs s1 t
  end.

(* SCCReader() : __init__ calls _reset_state *)
Definition new_reader : rstate := rstate0 0.

(* the reset of the code after the repair (fix: SCCReader kept captions and decoder state of earlier read() calls) *)
Definition code_reset : list fld := all_fields.
(* before it: nothing was re-created by read() *)
Definition no_reset : list fld := [].
Definition without (f : fld) : list fld := filter (fun g => negb (Z.eqb (fld_code g) (fld_code f))) all_fields.
