(* C12 (wave 7): RegionCreator.cleanup_regions on the document tree of model/DfxpTree.v.
   get_positioning_info records every region id it hands out (_assigned_region_ids): it is called for every <div>, every
   <p> and every <span> whose style node has a (truthy) layout_info - exactly the elements that get a region attribute.
   cleanup_regions removes from <layout> every <region> whose xml:id was never handed out.  Definitions only. *)
From Coq Require Import List ZArith QArith Bool.
From PV Require Import lib.Sx lib.Str lib.Result model.Geometry model.Positioning model.DfxpTree.
Import ListNotations.
Open Scope Z_scope.

Definition opt_list {A} (o : option A) : list A := match o with Some a => [a] | None => [] end.
Definition somes {A} (l : list (option A)) : list A := flat_map opt_list l.

(* the region attributes that occur on elements of the body (= the ids handed out by get_positioning_info) *)
Definition div_refs (d : xdiv) : list region_id := somes (xd_region d :: flat_map p_elem_regions (xd_ps d)).
Definition doc_refs (d : xdoc) : list region_id := flat_map div_refs (x_divs d).

Definition rid_mem (r : region_id) (l : list region_id) : bool := existsb (region_id_eqb r) l.

Definition cleanup_regions (d : xdoc) : xdoc :=
  mkXdoc (filter (fun kv => rid_mem (fst kv) (doc_refs d)) (x_regions d)) (x_divs d).

(* DFXPWriter.write: regions created, body written, unused regions removed *)
Definition write_doc_clean (g : option layout) (s : list dlang) : xdoc := cleanup_regions (write_doc g s).
Definition dfxp_roundtrip_clean (g : option layout) (s : list dlang) : result (list rlang) := read_doc (write_doc_clean g s).
