(* Event-level view of the pop-on part of SCCReader (C06): what _translate_command does on End-Of-Caption /
   Erase-Displayed-Memory, the final flush and the tail of read(), expressed with the very stash operations of
   model/SccStash.v. One caption per load (a load whose rows are not adjacent yields several captions with identical
   times; they are stored by one extend and share every later correction). Definitions only. *)
From Coq Require Import List ZArith QArith Bool.
From PV Require Import lib.Sx lib.Str lib.Result model.SccStash.
Import ListNotations.

Inductive pev : Type :=
| PShow (t : Q)        (* 942f with a non-empty buffer, get_time() = t *)
| PHide (t : Q).       (* 942c, or 942f with an empty buffer, get_time() = t *)

Definition dummy_nodes : list cnode := [CText [120%Z] (14%Z, 0%Z)].
Definition cue (s e : Q) : precap := mkPre s e dummy_nodes (Some (14%Z, 0%Z)).

(* state: the stash and the pop_ons_queue (start of the displayed cue) *)
Definition pstep (st : stash * option Q) (e : pev) : stash * option Q :=
  let '(s, q) := st in
  match e with
  | PShow t =>
      let s := match q with Some s0 => stash_extend s [cue s0 t] | None => s end in
      (s, Some t)
  | PHide t =>
      match q with Some s0 => (stash_extend s [cue s0 t], None) | None => (s, None) end
  end.

Definition prun (evs : list pev) : stash :=
  let '(s, q) := fold_left pstep evs (stash0, None) in
  match q with Some s0 => stash_extend s [cue s0 0] | None => s end.

Definition spans_of (r : read_result) : result (list (Q * Q)) :=
  match r with
  | ROk caps => Ok (map (fun c => (pc_start c, pc_end c)) caps)
  | RLen _ => Err ELineLength
  | RErr e => Err e
  end.

Definition popon_read (evs : list pev) : result (list (Q * Q)) := spans_of (finish_read (prun evs)).
