(* C12 (round 4): tts:textAlign carried by <p> / <span> and by styles - LayoutInfoScraper._find_attribute for
   'tts:textAlign' (scrape_positioning_info passes the element itself when it is a <p> or a <span>), on top of
   model/DfxpAlign.v.
     _find_attribute_on_element_or_styles(e): the element's own attribute; if it is None, the style sources of the element
        in order (_get_style_sources: nested <style> children with their reference chains, then the referenced style with
        its chain): `value = get(style); if value: break` - the first truthy (non-empty) value, else the LAST one looked at;
     _find_attribute(e): that on the element; if None, on every parent outwards, `if value: break`; if still None, on the
        region (own attribute, then the region's style sources).
   A source = (own attribute value, values of its style sources in order); values are attribute strings, None = absent.
   The writer produces: tts:textAlign on <p> from the caption style's 'text-align', on <span> from the style node's content,
   and style="cls" referencing <style xml:id="cls" tts:textAlign=..> for a caption style class.  Definitions only. *)
From Coq Require Import List ZArith QArith Bool.
From PV Require Import lib.Sx lib.Str lib.Result model.Geometry model.Positioning model.DfxpAlign.
Import ListNotations.
Open Scope Z_scope.

Definition truthy_str (o : option str) : bool := match o with Some (_ :: _) => true | _ => false end.

(* for style in sources: value = get(style); if value: break   (value before the loop: None) *)
Fixpoint styles_value (vals : list (option str)) (cur : option str) : option str :=
  match vals with
  | [] => cur
  | v :: t => if truthy_str v then v else styles_value t v
  end.

Record asource := mkSrc { src_own : option str; src_styles : list (option str) }.

Definition on_element_or_styles (s : asource) : option str :=
  match src_own s with
  | Some v => Some v
  | None => styles_value (src_styles s) None
  end.

(* for parent in element.parents: value = ...(parent); if value: break   (value before the loop: None) *)
Fixpoint parents_value (ps : list asource) (cur : option str) : option str :=
  match ps with
  | [] => cur
  | p :: t => let v := on_element_or_styles p in if truthy_str v then v else parents_value t v
  end.

(* element = None: the element is not a <p> / <span> (div, or positioning read from the region only) *)
Definition find_text_align (element : option asource) (parents : list asource) (region : asource) : option str :=
  let v := match element with
           | Some e => match on_element_or_styles e with
                       | Some x => Some x
                       | None => parents_value parents None
                       end
           | None => None
           end in
  match v with
  | Some x => Some x
  | None => on_element_or_styles region
  end.

(* the alignment scrape_positioning_info gives the element: text align by the lookup above, display align from the region *)
Definition element_alignment (element : option asource) (parents : list asource) (region_ta region_da : asource) : option alignment :=
  read_alignment (find_text_align element parents region_ta) (on_element_or_styles region_da).
