(* Model of pycaption/scc/__init__.py:_SccTimeTranslator (C06). Definitions only.
   Times are exact rationals (the code computes in binary64; the model is the exact expression).
   The timecode of a line is the string the reader captured with `[0-9:;]*`, so its alphabet is digits, ':' and ';'.

     get_time():   _translate_time(self._time[:-2] + str(int(self._time[-2:]) + self._frames), self.offset)
     _translate_time(stamp, offset):
         if not re.match(r"\d{2}:\d{2}:\d{2}[:;]\d{1,2}", stamp): raise CaptionReadTimingError
         rate = 1.0 if ";" in stamp else 1001.0 / 1000.0
         f = stamp.replace(";", ":").split(":")
         secs = int(f[0]) * 3600 + int(f[1]) * 60 + int(f[2]) + int(f[3]) / 30.0
         us = secs * rate * 1000 * 1000 - offset;   return 0 if us < 0 else us                        *)
From Coq Require Import List ZArith QArith Bool.
From PV Require Import lib.Sx lib.Str lib.Result.
Import ListNotations.
Open Scope Z_scope.

Definition c_colon := 58.
Definition c_semi := 59.

(* python s[-2:] and s[:-2] *)
Definition last2 (s : str) : str := skipn (length s - 2) s.
Definition but_last2 (s : str) : str := firstn (length s - 2) s.

(* re.match(r"\d{2}:\d{2}:\d{2}[:;]\d{1,2}", s): a prefix match (ASCII digits: the alphabet is [0-9:;]) *)
Definition tc_prefix_ok (s : str) : bool :=
  match s with
  | a :: b :: c1 :: d :: e :: c2 :: f :: g :: c3 :: h :: _ =>
      is_digit a && is_digit b && (c1 =? c_colon) && is_digit d && is_digit e && (c2 =? c_colon)
      && is_digit f && is_digit g && ((c3 =? c_colon) || (c3 =? c_semi)) && is_digit h
  | _ => false
  end.

Definition has_semi (s : str) : bool := existsb (Z.eqb c_semi) s.

Definition us_per_s : Q := inject_Z 1000000.
Definition rate (drop : bool) : Q := if drop then 1%Q else (1001 # 1000)%Q.
Definition floor0 (q : Q) : Q := if Qle_bool 0 q then q else 0%Q.

(* exact value of  (h*3600 + m*60 + s + ff/30.0) * rate * 1000 * 1000 - offset, floored at 0 *)
Definition time_formula (h m s ff : Z) (drop : bool) (offset_us : Q) : Q :=
  floor0 (Qred ((inject_Z (h * 3600 + m * 60 + s) + inject_Z ff / inject_Z 30) * rate drop * us_per_s - offset_us)).

Definition translate_time (stamp : str) (offset_us : Q) : result Q :=
  if negb (tc_prefix_ok stamp) then Err ETiming else
  let fields := split_ch c_colon (map (fun c => if c =? c_semi then c_colon else c) stamp) in
  match fields with
  | a :: b :: c :: d :: _ =>
      match int_of_digits a, int_of_digits b, int_of_digits c, int_of_digits d with
      | Some h, Some m, Some s, Some ff => Ok (time_formula h m s ff (has_semi stamp) offset_us)
      | _, _, _, _ => Err ValueError
      end
  | _ => Err IndexError
  end.

Definition get_time (time : str) (frames : Z) (offset_us : Q) : result Q :=
  match int_of_digits (last2 time) with
  | None => Err ValueError
  | Some ff => translate_time (but_last2 time ++ dec_z (ff + frames)) offset_us
  end.
