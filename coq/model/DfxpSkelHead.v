(* C07, wave 7: the <styling> section of the tree as DFXPWriter.write builds it - the attribute dictionaries of the
   <style> elements (input of the renderer DfxpSkel.dfxp_document), from the style table of the caption set.
   _recreate_styling_tag: attrs = {'xml:id': id}; attrs.update(_recreate_style(content, dfxp)); the element is appended
   iff it got an attribute besides xml:id; `written` = ids of the <style> elements so far (what dfxp.find sees).
   Definitions only. *)
From Coq Require Import List ZArith Bool.
From PV Require Import lib.Sx lib.Str model.DfxpXml model.DfxpRegion model.DfxpDoc model.DfxpSkel.
Import ListNotations.
Open Scope Z_scope.

Definition xml_id : str := lit "xml:id".
Definition style_elem_step (acc : list str * list (list (str * str))) (st : str * list (str * str))
  : list str * list (list (str * str)) :=
  let '(written, elems) := acc in
  let attrs := recreate_style (snd st) written in
  match snd st, attrs with
  | [], _ => acc
  | _, [] => acc
  | _, _ => (written ++ [fst st], elems ++ [(xml_id, fst st) :: attrs])
  end.
(* DFXP_DEFAULT_STYLE = {'color': 'white', 'font-family': 'monospace', 'font-size': '1c'} *)
Definition default_style_content : list (str * str) :=
  [(lit "color", lit "white"); (lit "font-family", lit "monospace"); (lit "font-size", lit "1c")].
Definition style_elems (styles : list (str * list (str * str))) : list (list (str * str)) :=
  match styles with
  | [] => [(xml_id, default_style_id) :: recreate_style default_style_content []]
  | _ => snd (fold_left style_elem_step styles ([], []))
  end.

(* reading the tree: ids and style= references of a list of attribute dictionaries *)
Definition elem_ids (elems : list (list (str * str))) : list str :=
  flat_map (fun a => match lookup xml_id a with Some v => [v] | None => [] end) elems.
Definition elem_style_refs (elems : list (list (str * str))) : list str :=
  flat_map (fun a => match lookup (lit "style") a with Some v => [v] | None => [] end) elems.
