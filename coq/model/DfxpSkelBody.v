(* C07, round 4: the <layout> section and the <body> of the tree as DFXPWriter.write builds them - the attribute
   dictionaries (insertion order) of every <region>, <div>, <p> and of every <span> that _recreate_span writes into the
   <p> string - from the caption set the writer traverses.
   The caption set is the traversal model's `dset` (model/DfxpDoc.v) DECORATED with what the id / reference model does
   not look at: the language code of a div, begin / end of a caption, the positioning attributes
   (_convert_layout_to_attributes: tts:origin, tts:extent, tts:padding, tts:textAlign, tts:displayAlign) that
   write_inline_positioning adds to div / p / span, and the same attributes on a <region> element. `erase` forgets the
   decoration.
     region:  new_region['xml:id'] = id; attrs.update(layout attributes); cleanup_regions keeps the assigned ones
     div:     div['xml:lang'] = lang; tag['region'] = id; tag.attrs.update(attribs)
     p:       new_tag("p", begin=, end=); p['style'] = 'p' if such a style was written;
              p.attrs.update(_recreate_style(caption_style)); tag['region'] = id; tag.attrs.update(attribs)
     span:    dict(_recreate_style(node.content)); if node.layout_info: ['region'] = id; update(attribs)
              (DfxpDoc.span_attributes); for every style-start node
   Definitions only. *)
From Coq Require Import List ZArith Bool.
From PV Require Import lib.Sx lib.Str model.DfxpXml model.DfxpRegion model.DfxpDoc model.DfxpSkel model.DfxpSkelHead.
Import ListNotations.
Open Scope Z_scope.

Definition style_key : str := lit "style".
Definition region_key : str := lit "region".

Record xnode := mkXnode { xn_node : dnode; xn_inline : list (str * str) }.
Record xcap := mkXcap { xc_layout : lay; xc_style : option (list (str * str)); xc_nodes : list xnode;
                        xc_begin : str; xc_end : str; xc_inline : list (str * str) }.
Record xlang := mkXlang { xl_layout : lay; xl_caps : list xcap; xl_code : str; xl_inline : list (str * str) }.
Record xset := mkXset { xs_layout : lay; xs_styles : list (str * list (str * str)); xs_langs : list xlang }.

Definition erase_cap (c : xcap) : dcap := mkDcap (xc_layout c) (xc_style c) (map xn_node (xc_nodes c)).
Definition erase_lang (l : xlang) : dlang := mkDlang (xl_layout l) (map erase_cap (xl_caps l)).
Definition erase (x : xset) : dset := mkDset (xs_layout x) (xs_styles x) (map erase_lang (xs_langs x)).

(* ---- <layout>: one <region> per id that survives cleanup_regions; `extra` = the layout attributes of that region ---- *)
Definition region_elems (extra : Z -> list (str * str)) (d : dset) : list (list (str * str)) :=
  map (fun id => (xml_id, region_id_str id) :: extra id) (defined (to_rset d)).

(* ---- <body> ------------------------------------------------------------------------------------------------------- *)
Definition divtag_attrs (code r : str) (inline : list (str * str)) : list (str * str) :=
  dict_update (dict_put region_key r [(lit "xml:lang", code)]) inline.

Definition cap_content (c : xcap) : list (str * str) :=
  match xc_style c with Some s => s | None => [(lit "class", default_style_id)] end.
Definition ptag_attrs (written : list str) (c : xcap) (r : str) : list (str * str) :=
  dict_update
    (dict_put region_key r
       (dict_update ([(lit "begin", xc_begin c); (lit "end", xc_end c)]
                     ++ (if existsb (str_eqb (lit "p")) written then [(style_key, lit "p")] else []))
                    (recreate_style (cap_content c) written)))
    (xc_inline c).

Definition span_dict (written : list str) (n : xnode) (r : str) : list (str * str) :=
  span_attributes (recreate_style (dn_content (xn_node n)) written)
                  (if truthy (rn_layout (dn_r (xn_node n))) then Some r else None) (xn_inline n).

(* an element of the body with its attribute dictionary: div > p > span (the spans of a <p> in document order) *)
Definition sk_p := (list (str * str) * list (list (str * str)))%type.
Definition sk_div := (list (str * str) * list sk_p)%type.

Definition body_tree (written : list str) (x : xset) : list sk_div :=
  let m := region_map (to_rset (erase x)) in
  let rid := fun l => region_id_str (region_of m l) in
  map (fun l =>
         (divtag_attrs (xl_code l) (rid (pick None None (xl_layout l) (xs_layout x))) (xl_inline l),
          map (fun c =>
                 (ptag_attrs written c (rid (pick None (xc_layout c) (xl_layout l) (xs_layout x))),
                  flat_map (fun n => if rn_span (dn_r (xn_node n))
                                     then [span_dict written n
                                             (rid (pick (rn_layout (dn_r (xn_node n))) (xc_layout c) (xl_layout l) (xs_layout x)))]
                                     else [])
                           (xc_nodes c)))
              (xl_caps l)))
      (xs_langs x).

(* ---- reading the tree: the value of attribute k on every element of the body, in document order ------------------ *)
Definition attr_ref (k : str) (a : list (str * str)) : list str :=
  match lookup k a with Some v => [v] | None => [] end.
Definition body_refs (k : str) (b : list sk_div) : list str :=
  flat_map (fun dv => attr_ref k (fst dv)
                      ++ flat_map (fun p => attr_ref k (fst p) ++ flat_map (attr_ref k) (snd p)) (snd dv)) b.

(* the whole tree as far as ids and references go: <style> and <region> dictionaries of the head, the body *)
Record reftree := mkReftree { t_styles : list (list (str * str)); t_regions : list (list (str * str)); t_body : list sk_div }.
Definition tree_of (extra : Z -> list (str * str)) (x : xset) : reftree :=
  let st := style_elems (xs_styles x) in
  mkReftree st (region_elems extra (erase x)) (body_tree (elem_ids st) x).

(* ids defined, references made - read from the dictionaries of the tree only *)
Definition tree_style_ids (t : reftree) : list str := elem_ids (t_styles t).
Definition tree_region_ids (t : reftree) : list str := elem_ids (t_regions t).
Definition tree_ids (t : reftree) : list str := tree_style_ids t ++ tree_region_ids t.
Definition tree_style_refs (t : reftree) : list str :=
  elem_style_refs (t_styles t) ++ elem_style_refs (t_regions t) ++ body_refs style_key (t_body t).
Definition tree_region_refs (t : reftree) : list str :=
  flat_map (attr_ref region_key) (t_styles t) ++ flat_map (attr_ref region_key) (t_regions t) ++ body_refs region_key (t_body t).

(* the decoration carries no id and no reference *)
Definition noref (a : list (str * str)) : Prop :=
  ~ In style_key (map fst a) /\ ~ In region_key (map fst a) /\ ~ In xml_id (map fst a).
Definition deco_ok (extra : Z -> list (str * str)) (x : xset) : Prop :=
  (forall id, noref (extra id)) /\
  Forall (fun l => noref (xl_inline l) /\
                   Forall (fun c => noref (xc_inline c) /\ Forall (fun n => noref (xn_inline n)) (xc_nodes c)) (xl_caps l))
         (xs_langs x).
