(* Models of the readers' text paths (C04, C11). Definitions only.  Mirrors, at the repaired tree
   (a `fixed : bool` parameter keeps the pinned behaviour available for the _refuted theorems):
     WebVTTReader._decode, VOICE_SPAN_PATTERN / OTHER_SPAN_PATTERN as hand-written matchers   -> vtt_decode
     SAMIParser.handle_starttag/endtag/entityref/charref/data, end of feed                     -> sami_stage1
     the text-node regex ^(?:[\n\r]+\s* )?(.+) of DFXPReader._convert_tag_to_node and
       SAMIReader._translate_tag, with the repaired continuation lines                         -> text_node
     DFXPReader._convert_tag_to_node/_convert_span_to_nodes/_convert_style                     -> dfxp_nodes
     SAMIReader._translate_tag/_translate_span/_translate_attrs/_translate_style               -> sami_nodes
     SRTReader.read (text lines of one block), MicroDVDReader.read (text of one line)          -> srt_text_nodes, mdvd_text_nodes
   Trees are the xnode type of spec/SpecTextXml.v (a data type only). *)
From Coq Require Import List ZArith Bool.
From PV Require Import lib.Sx lib.Str lib.Result model.TextNodes model.GenText spec.SpecTextXml.
Import ListNotations.
Open Scope Z_scope.

Fixpoint take_to (q : Z) (s : str) : str :=
  match s with [] => [] | c :: t => if c =? q then [] else c :: take_to q t end.
Fixpoint drop_to (q : Z) (s : str) : option str :=
  match s with [] => None | c :: t => if c =? q then Some t else drop_to q t end.

(* ======================= WebVTT ================================================================ *)
(* \w and \d on ASCII (non-ASCII letters/digits in class names and timestamps are outside the generators) *)
Definition is_word (c : Z) : bool :=
  is_digit c || ((65 <=? c) && (c <=? 90)) || ((97 <=? c) && (c <=? 122)) || (c =? 95).

(* (\.\w+)*  -> what follows the maximal sequence of class suffixes *)
Fixpoint voice_classes (fuel : nat) (s : str) : str :=
  match fuel with
  | O => s
  | S f =>
    match s with
    | 46 :: c :: t => if is_word c then voice_classes f (drop_while is_word (c :: t)) else s
    | _ => s
    end
  end.

(* VOICE_SPAN_PATTERN = <v(\.\w+)* ([^>]* )> , s = what follows "<v" -> (annotation, rest after '>') *)
Definition voice_match (s : str) : option (str * str) :=
  match voice_classes (length s) s with
  | 32 :: r => match drop_to 62 r with Some rest => Some (take_to 62 r, rest) | None => None end
  | _ => None
  end.

(* VOICE_SPAN_PATTERN.sub("\\2: ", s) *)
Fixpoint voice_sub_aux (fuel : nat) (s : str) : str :=
  match fuel with
  | O => s
  | S f =>
    match s with
    | [] => []
    | c :: t =>
        let default := c :: voice_sub_aux f t in
        if c =? 60 then
          match t with
          | d :: t' =>
              if d =? 118 then
                match voice_match t' with
                | Some (ann, rest) => ann ++ lit ": " ++ voice_sub_aux f rest
                | None => default
                end
              else default
          | [] => default
          end
        else default
    end
  end.
Definition voice_sub (s : str) : str := voice_sub_aux (S (length s)) s.

Definition two_digits (s : str) : option str :=
  match s with a :: b :: t => if is_digit a && is_digit b then Some t else None | _ => None end.
Definition three_digits (s : str) : option str :=
  match s with a :: b :: c :: t => if is_digit a && is_digit b && is_digit c then Some t else None | _ => None end.

(* (\d+):(\d{2})(:\d{2})?\.(\d{3}) -> rest *)
Definition ts_match (s : str) : option str :=
  match take_while is_digit s, drop_while is_digit s with
  | _ :: _, 58 :: r =>
      match two_digits r with
      | Some r1 =>
          let r4 := match r1 with
                    | 58 :: r2 => match two_digits r2 with
                                  | Some (46 :: r3) => 46 :: r3
                                  | _ => r1
                                  end
                    | _ => r1
                    end in
          match r4 with 46 :: r5 => three_digits r5 | _ => None end
      | None => None
      end
  | _, _ => None
  end.

(* ([cibuv]|ruby|rt|lang|timestamp) -> rest after the name *)
Definition other_name (s : str) : option str :=
  match s with
  | c :: t =>
      if (c =? 99) || (c =? 105) || (c =? 98) || (c =? 117) || (c =? 118) then Some t
      else if is_prefix (lit "ruby") s then Some (skipn 4 s)
      else if is_prefix (lit "rt") s then Some (skipn 2 s)
      else if is_prefix (lit "lang") s then Some (skipn 4 s)
      else ts_match s
  | [] => None
  end.

(* pinned:   .*?>             (lazy, '.' does not match a line feed)
   repaired: ([ \t.][^>]* )?>  (the name must end at a space, a tab, a dot or the closing bracket) *)
Fixpoint drop_to_gt_nonl (s : str) : option str :=
  match s with [] => None | c :: t => if c =? 62 then Some t else if c =? 10 then None else drop_to_gt_nonl t end.
Definition other_suffix (fixed : bool) (r : str) : option str :=
  if fixed then
    match r with
    | [] => None
    | c :: t => if c =? 62 then Some t
                else if (c =? 32) || (c =? 9) || (c =? 46) then drop_to 62 t else None
    end
  else drop_to_gt_nonl r.

(* the optional '/' after '<' *)
Definition strip_slash (b : str) : str := match b with c :: t => if c =? 47 then t else b | [] => [] end.

(* OTHER_SPAN_PATTERN.sub("", s) *)
Fixpoint other_sub_aux (fixed : bool) (fuel : nat) (s : str) : str :=
  match fuel with
  | O => s
  | S f =>
    match s with
    | [] => []
    | c :: t =>
        if c =? 60 then
          match (match other_name (strip_slash t) with Some r => other_suffix fixed r | None => None end) with
          | Some rest => other_sub_aux fixed f rest
          | None => c :: other_sub_aux fixed f t
          end
        else c :: other_sub_aux fixed f t
    end
  end.
Definition other_sub (fixed : bool) (s : str) : str := other_sub_aux fixed (S (length s)) s.

(* the replace chain, ampersand last *)
Definition vtt_entities (s : str) : str :=
  replace (lit "&amp;") [38]
    (replace (lit "&nbsp;") [160]
      (replace (lit "&rlm;") [8207]
        (replace (lit "&lrm;") [8206]
          (replace (lit "&gt;") [62]
            (replace (lit "&lt;") [60] s))))).

Definition vtt_decode (fixed : bool) (s : str) : str :=
  vtt_entities (other_sub fixed (voice_sub (strip s))).

(* the text lines of one cue -> nodes *)
Fixpoint intersperse_break (l : list node) : list node :=
  match l with [] => [] | [x] => [x] | x :: t => x :: NBreak :: intersperse_break t end.
Definition vtt_cue_nodes (fixed : bool) (lines : list str) : list node :=
  intersperse_break (map (fun l => NText (vtt_decode fixed l)) lines).

(* WebVTTReader._parse: the line loop.  State: nodes of the cue being collected (reversed), found_timing, captions
   (reversed).  Timing lines are recognised by the arrow only (their parsing is C01's business). *)
Definition has_arrow_b (l : str) : bool := is_infix (lit "-->") l.
Definition vtt_line_step (fixed : bool) (st : list node * bool * list (list node)) (line : str)
  : list node * bool * list (list node) :=
  let '(nodes, found, caps) := st in
  if has_arrow_b line then (nodes, true, caps)
  else match line with
       | [] => if found && (match nodes with [] => false | _ => true end)
               then ([], false, rev nodes :: caps) else st
       | _ => if found
              then ((NText (vtt_decode fixed line)) :: (match nodes with [] => [] | _ => NBreak :: nodes end), found, caps)
              else st
       end.
Definition vtt_parse (fixed : bool) (lines : list str) : list (list node) :=
  let '(nodes, _, caps) := fold_left (vtt_line_step fixed) lines ([], false, []) in
  rev (match nodes with [] => caps | _ => rev nodes :: caps end).

(* ======================= SAMI, stage 1 (SAMIParser) ============================================== *)
Inductive hev : Type :=
| EvStart (tag : str) (attrs : list (str * str))
| EvEnd (tag : str)
| EvEntity (name : str)
| EvCharref (name : str)
| EvData (d : str).

(* self.sami, self.queue (head = most recently appended), self.last_element *)
Record sstate := mkS { s_out : str; s_queue : list str; s_last : str }.

Definition mem_str (x : str) (l : list str) : bool := existsb (str_eqb x) l.

(* while tag in self.queue: closer = self.queue.pop(); self.sami += "</closer>" *)
Fixpoint close_while (fuel : nat) (tag : str) (q : list str) (out : str) : list str * str :=
  match fuel with
  | O => (q, out)
  | S f =>
    if mem_str tag q then
      match q with
      | c :: q' => close_while f tag q' (out ++ lit "</" ++ c ++ lit ">")
      | [] => (q, out)
      end
    else (q, out)
  end.

Fixpoint assoc_str (k : str) (l : list (str * Z)) : option Z :=
  match l with [] => None | (k', v) :: t => if str_eqb k k' then Some v else assoc_str k t end.

Definition esc_char (c : Z) : str :=
  if c =? 38 then lit "&amp;" else if c =? 62 then lit "&gt;" else if c =? 60 then lit "&lt;" else [c].

Definition hex_digit (c : Z) : option Z :=
  if is_digit c then Some (c - 48)
  else if (97 <=? c) && (c <=? 102) then Some (c - 87)
  else if (65 <=? c) && (c <=? 70) then Some (c - 55) else None.
Fixpoint parse_base (b : Z) (s : str) (acc : Z) : option Z :=
  match s with
  | [] => Some acc
  | c :: t => match hex_digit c with
              | Some d => if d <? b then parse_base b t (acc * b + d) else None
              | None => None
              end
  end.
(* int(name) / int(name[1:], 16) for the names html.parser hands over (digits, or x/X + hex digits);
   chr() raises ValueError beyond U+10FFFF *)
Definition charref_value (fixed : bool) (name : str) : result Z :=
  match name with
  | [] => Err IndexError
  | c :: t =>
      let hex := if fixed then (c =? 120) || (c =? 88) else (c =? 120) in
      match (if hex then (match t with [] => None | _ => parse_base 16 t 0 end) else parse_base 10 name 0) with
      | Some v => if v <=? 1114111 then Ok v else Err ValueError
      | None => Err ValueError
      end
  end.

Definition sami_step (fixed : bool) (st : sstate) (e : hev) : result sstate :=
  match e with
  | EvStart tag0 attrs =>
      let tag := if str_eqb tag0 (lit "div") then lit "span" else tag0 in
      if str_eqb tag (lit "br") then Ok (mkS (s_out st ++ lit "<br/>") (s_queue st) tag0)
      else
        let (q, out) := close_while (length (s_queue st)) tag (s_queue st) (s_out st) in
        let attr_text := concat (map (fun kv => lit " " ++ lower (fst kv) ++ lit "=""" ++ snd kv ++ lit """") attrs) in
        Ok (mkS (out ++ lit "<" ++ tag ++ attr_text ++ lit ">") (tag :: q) tag0)
  | EvEnd tag0 =>
      let tag := if str_eqb tag0 (lit "div") then lit "span" else tag0 in
      if (str_eqb tag (lit "p") || str_eqb tag (lit "sync")) && str_eqb tag (s_last st) then Ok st
      else let (q, out) := close_while (length (s_queue st)) tag (s_queue st) (s_out st) in
           Ok (mkS out q (s_last st))
  | EvEntity name =>
      let keep := str_eqb name (lit "gt") || str_eqb name (lit "lt") || (fixed && str_eqb name (lit "amp")) in
      let piece := if keep then lit "&" ++ name ++ lit ";"
                   else match assoc_str name sami_name2codepoint with
                        | Some v => [v]
                        | None => lit "&" ++ name
                        end in
      Ok (mkS (s_out st ++ piece) (s_queue st) [])
  | EvCharref name =>
      match charref_value fixed name with
      | Ok v => Ok (mkS (s_out st ++ (if fixed then esc_char v else [v])) (s_queue st) (s_last st))
      | Err e => Err e
      end
  | EvData d => Ok (mkS (s_out st ++ d) (s_queue st) [])
  end.

Fixpoint sami_run (fixed : bool) (st : sstate) (evs : list hev) : result sstate :=
  match evs with
  | [] => Ok st
  | e :: t => match sami_step fixed st e with Ok st' => sami_run fixed st' t | Err x => Err x end
  end.

(* closing of what remains in the queue at the end of feed *)
Fixpoint close_all (q : list str) (out : str) : str :=
  match q with [] => out | c :: q' => close_all q' (out ++ lit "</" ++ c ++ lit ">") end.

(* the events of the inline content of one paragraph -> the re-serialised markup of that content *)
Definition sami_stage1 (fixed : bool) (evs : list hev) : result str :=
  match sami_run fixed (mkS [] [] []) evs with
  | Ok st => Ok (close_all (s_queue st) (s_out st))
  | Err e => Err e
  end.

(* ======================= the text-node regex ======================================================= *)
Definition is_nl_cr (c : Z) : bool := (c =? 10) || (c =? 13).
Definition not_lf (c : Z) : bool := negb (c =? 10).

(* ^(?:[\n\r]+\s* )?(.+)  : (start of group 1, group 1).  With backtracking the match starts at the LAST
   position p <= (length of the leading [\n\r]+\s* run) that holds a character other than LF:
   take the first (run length + 1) characters, drop the line feeds at their end, p is the last one left. *)
Definition is_lf (c : Z) : bool := c =? 10.
Definition text_first (s : str) : option (nat * str) :=
  let n1 := length (take_while is_nl_cr s) in
  let w := match n1 with O => O | _ => (n1 + length (take_while is_space (skipn n1 s)))%nat end in
  match rstrip_by is_lf (firstn (S w) s) with
  | [] => None
  | c => let p := (length c - 1)%nat in Some (p, take_while not_lf (skipn p s))
  end.

Fixpoint split_by_aux (f : Z -> bool) (s cur : str) : list str :=
  match s with
  | [] => [rev cur]
  | c :: t => if f c then rev cur :: split_by_aux f t [] else split_by_aux f t (c :: cur)
  end.
Definition split_by (f : Z -> bool) (s : str) : list str := split_by_aux f s [].

Definition nonblank_b (l : str) : bool := negb (forallb is_space l).

(* repaired: every further non-blank source line is appended as ' ' + line.lstrip()
   (re.split("[\n\r]+", rest) and a split at every single LF/CR differ only in empty pieces, which are skipped) *)
Definition text_node (fixed : bool) (s : str) : option str :=
  match text_first s with
  | None => None
  | Some (p, first) =>
      if fixed then
        let rest := skipn (p + length first) s in
        Some (first ++ concat (map (fun l => 32 :: lstrip l) (filter nonblank_b (split_by is_nl_cr rest))))
      else Some first
  end.

(* ======================= trees -> nodes ================================================================ *)
Fixpoint attr_get (k : str) (a : list (str * str)) : option str :=
  match a with [] => None | (k', v) :: t => if str_eqb (lower k') k then Some v else attr_get k t end.

Definition opt_is (o : option str) (v : str) : bool := match o with Some x => str_eqb x v | None => false end.

(* DFXPReader._convert_style: the keys the text properties look at *)
Definition dfxp_style (a : list (str * str)) : style :=
  mkStyle (opt_is (attr_get (lit "tts:fontstyle") a) (lit "italic"))
          (opt_is (attr_get (lit "tts:fontweight") a) (lit "bold"))
          (match attr_get (lit "tts:textdecoration") a with
           | Some v => mem_str (lit "underline") (split_ch 32 (strip v))
           | None => false
           end)
          (attr_get (lit "tts:color") a).

Fixpoint dfxp_nodes (fixed : bool) (x : xnode) : list node :=
  match x with
  | XText s => match text_node fixed s with Some t => [NText t] | None => [] end
  | XElem n a kids =>
      if str_eqb n (lit "br") then [NBreak]
      else if str_eqb n (lit "span") then
        let st := dfxp_style a in
        [NStyle true st] ++ flat_map (dfxp_nodes fixed) kids ++ [NStyle false st]
      else flat_map (dfxp_nodes fixed) kids
  end.

(* SAMIReader._translate_attrs/_translate_style: None = empty dict *)
Definition css_decl (d : str) : option (str * str) :=
  match split_ch 58 d with [k; v] => Some (k, v) | _ => None end.

Definition sami_span_args (a : list (str * str)) : option style :=
  let has_class := match attr_get (lit "class") a, attr_get (lit "id") a with None, None => false | _, _ => true end in
  let decls := match attr_get (lit "style") a with
               | Some v => flat_map (fun d => match css_decl d with Some kv => [kv] | None => [] end) (split_ch 59 v)
               | None => []
               end in
  let is_ := fun k v => existsb (fun kv => str_eqb (fst kv) k && str_eqb (strip (snd kv)) v) decls in
  let has := fun k => existsb (fun kv => str_eqb (fst kv) k) decls in
  let i := is_ (lit "font-style") (lit "italic") in
  let b := is_ (lit "font-weight") (lit "bold") in
  let u := is_ (lit "text-decoration") (lit "underline") in
  let color := match filter (fun kv => str_eqb (fst kv) (lit "color")) decls with
               | [] => None
               | l => Some (strip (snd (last l ([], []))))
               end in
  let other := has (lit "font-family") || has (lit "font-size") || has (lit "lang") in
  if has_class || i || b || u || other || (match color with Some _ => true | None => false end)
  then Some (mkStyle i b u color) else None.

Fixpoint sami_nodes (fixed : bool) (x : xnode) : list node :=
  match x with
  | XText s => match text_node fixed s with Some t => [NText t] | None => [] end
  | XElem n a kids =>
      if str_eqb n (lit "br") then [NBreak]
      else if str_eqb n (lit "i") then
        [NStyle true (mkStyle true false false None)] ++ flat_map (sami_nodes fixed) kids ++
        [NStyle false (mkStyle true false false None)]
      else if str_eqb n (lit "b") then
        [NStyle true (mkStyle false true false None)] ++ flat_map (sami_nodes fixed) kids ++
        [NStyle false (mkStyle false true false None)]
      else if str_eqb n (lit "u") then
        [NStyle true (mkStyle false false true None)] ++ flat_map (sami_nodes fixed) kids ++
        [NStyle false (mkStyle false false true None)]
      else if str_eqb n (lit "span") then
        match sami_span_args a with
        | Some st => [NStyle true st] ++ flat_map (sami_nodes fixed) kids ++ [NStyle false st]
        | None => flat_map (sami_nodes fixed) kids
        end
      else flat_map (sami_nodes fixed) kids
  end.

(* ======================= SRT / MicroDVD ================================================================== *)
(* for line in lines[start+2:end-1]: if not nodes or line != '': TEXT line, BREAK ; then the last BREAK is removed *)
Fixpoint srt_text_nodes_aux (lines : list str) (have : bool) : list node :=
  match lines with
  | [] => []
  | l :: t => if negb have || negb (match l with [] => true | _ => false end)
              then NText l :: NBreak :: srt_text_nodes_aux t true
              else srt_text_nodes_aux t have
  end.
Definition srt_text_nodes (lines : list str) : list node := removelast (srt_text_nodes_aux lines false).

(* for line in txt.split('|'): if line != '': TEXT line, BREAK ; last BREAK removed *)
Definition mdvd_text_nodes (txt : str) : list node :=
  removelast (flat_map (fun l => match l with [] => [] | _ => [NText l; NBreak] end) (split_ch 124 txt)).
