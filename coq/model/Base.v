(* Model of pycaption/base.py: CaptionSet.adjust_caption_timing, merge_concurrent_captions,
   merge (C19), at VALUE level: a caption is (start, end, node values). Nodes are opaque values (Z);
   every line break - one created by the code itself (CaptionNode.create_break()) or one that was
   already among the input nodes - is the distinguished value brk = -1 (design/C19.md, decision 3).
   Times are exact rationals (Python int or float values, read exactly).
   Object identity (one Caption object listed under two languages or twice in one list) is modelled
   in model/BaseObj.v, which is proved equal to this value model for every alias structure. *)
From Coq Require Import List ZArith QArith Bool.
From PV Require Import lib.Sx lib.Result.
Import ListNotations.

Definition brk : Z := (-1)%Z.

Record caption := mkCap { c_start : Q; c_end : Q; c_nodes : list Z }.

(* ---- adjust_caption_timing ------------------------------------------------ *)
(* adjusted = set()
   for lang in self.get_languages():
       out_captions = CaptionList()
       for caption in self.get_captions(lang):
           if id(caption) not in adjusted:          # repaired tree (fix 4016b86): once per OBJECT
               adjusted.add(id(caption))
               caption.start = caption.start * rate_skew + offset
               caption.end = caption.end * rate_skew + offset
           if caption.start >= 0: out_captions.append(caption)
       self.set_captions(lang, out_captions)
   On values (no object occurs twice) the `adjusted` set is invisible and the loop is the fold below;
   BaseObj.adjust_objs is the same loop on a heap of objects with the `adjusted` set.        *)
Definition retime (skew off : Q) (c : caption) : caption :=
  mkCap (Qred (c_start c * skew + off)) (Qred (c_end c * skew + off)) (c_nodes c).

Definition adjust_lang (skew off : Q) (caps : list caption) : list caption :=
  fold_left (fun out c => let c' := retime skew off c in
                          if Qle_bool 0 (c_start c') then out ++ [c'] else out) caps [].

Definition adjust (skew off : Q) (langs : list (list caption)) : list (list caption) :=
  map (adjust_lang skew off) langs.

(* ---- merge ------------------------------------------------------------------ *)
(* new_nodes = []
   for caption in captions:
       if new_nodes: new_nodes.append(create_break())
       for node in caption.nodes: new_nodes.append(node)
   Caption(captions[0].start, captions[0].end, new_nodes, ...)                   *)
Definition merge_nodes (caps : list caption) : list Z :=
  fold_left (fun acc c => (match acc with [] => acc | _ => acc ++ [brk] end) ++ c_nodes c) caps [].

(* Caption(...) refuses an empty node list with CaptionReadError("Node list cannot be empty"), the BASE class of
   the documented reader errors: wire code 109 ("other exception"). Only reachable when every caption of a run
   had its node list emptied after construction - outside the property's domain (nodes_nonempty). *)
Definition ENodeListEmpty : err := ECrash 9.

Definition merge_caps (caps : list caption) : result caption :=
  match caps with
  | [] => Err IndexError             (* captions[0]; unreachable from merge_lang (BaseFacts.merge_lang_total) *)
  | c0 :: _ =>
      match merge_nodes caps with
      | [] => Err ENodeListEmpty
      | ns => Ok (mkCap (c_start c0) (c_end c0) ns)
      end
  end.

Definition same_span (a b : caption) : bool :=
  Qeq_bool (c_start a) (c_start b) && Qeq_bool (c_end a) (c_end b).

(* the loop of merge_concurrent_captions; state = (last_caption, concurrent, merged) *)
Fixpoint merge_loop (caps : list caption) (last : option caption)
         (conc merged : list caption) : result (list caption * list caption) :=
  match caps with
  | [] => Ok (conc, merged)
  | c :: t =>
      match last with
      | Some l =>
          if same_span c l then merge_loop t (Some c) (conc ++ [c]) merged
          else do m <- merge_caps conc; merge_loop t (Some c) [c] (merged ++ [m])
      | None => merge_loop t (Some c) [c] merged
      end
  end.

Definition merge_lang (caps : list caption) : result (list caption) :=
  do cm <- merge_loop caps None [] [];
  let (conc, merged) := cm in
  do merged' <- (match conc with
                 | [] => Ok merged
                 | _ => do m <- merge_caps conc; Ok (merged ++ [m])
                 end);
  match merged' with
  | [] => Ok caps               (* `if merged_captions:` - nothing to set *)
  | _ => Ok merged'
  end.

Definition merge_concurrent (langs : list (list caption)) : result (list (list caption)) :=
  res_map merge_lang langs.
