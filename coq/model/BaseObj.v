(* Object-level model of CaptionSet.adjust_caption_timing (C19): Caption OBJECTS live in a heap, a language is a
   list of object references, and the same object may be listed under several languages or several times in one
   list (sets built through the API; no pycaption reader produces such sets).  Definitions only.

   adjusted = set()
   for lang in self.get_languages():
       out_captions = CaptionList()
       for caption in self.get_captions(lang):
           if id(caption) not in adjusted:
               adjusted.add(id(caption))
               caption.start = caption.start * rate_skew + offset       # in place, on the object
               caption.end = caption.end * rate_skew + offset
           if caption.start >= 0: out_captions.append(caption)
       self.set_captions(lang, out_captions)

   merge_concurrent_captions never writes to a Caption object (it builds new ones), so its value model
   (Base.merge_lang) is exact under aliasing as well. *)
From Coq Require Import List ZArith QArith Bool Arith.
From PV Require Import lib.Sx lib.Result model.Base.
Import ListNotations.

Definition heap := list caption.                       (* object k = k-th entry *)
Definition null_cap : caption := mkCap 0 0 [].
Definition deref (h : heap) (k : nat) : caption := nth k h null_cap.

Fixpoint upd (h : heap) (k : nat) (c : caption) : heap :=
  match h, k with
  | [], _ => []
  | _ :: t, O => c :: t
  | x :: t, S k' => x :: upd t k' c
  end.

Definition mem_nat (k : nat) (l : list nat) : bool := existsb (Nat.eqb k) l.

(* state of the loops: heap, `adjusted`, out_captions (references) *)
Definition obj_state : Type := (heap * list nat * list nat)%type.

(* once = true : the repaired loop (guarded by `adjusted`); once = false : the pinned loop (no guard) *)
Definition adjust_obj_step (once : bool) (skew off : Q) (st : obj_state) (k : nat) : obj_state :=
  let '(h, adj, out) := st in
  let '(h1, adj1) := if once && mem_nat k adj then (h, adj)
                     else (upd h k (retime skew off (deref h k)), k :: adj) in
  if Qle_bool 0 (c_start (deref h1 k)) then (h1, adj1, out ++ [k]) else (h1, adj1, out).

Definition adjust_obj_lang (once : bool) (skew off : Q) (st : heap * list nat) (ids : list nat)
  : (heap * list nat) * list nat :=
  let '(h, adj, out) := fold_left (adjust_obj_step once skew off) ids (fst st, snd st, []) in ((h, adj), out).

Fixpoint adjust_obj_langs (once : bool) (skew off : Q) (st : heap * list nat) (langs : list (list nat))
  : (heap * list nat) * list (list nat) :=
  match langs with
  | [] => (st, [])
  | ids :: t =>
      let (st1, out) := adjust_obj_lang once skew off st ids in
      let (st2, outs) := adjust_obj_langs once skew off st1 t in
      (st2, out :: outs)
  end.

(* what an observer sees afterwards: per language the captions (by value) its new list refers to *)
Definition adjust_objs_gen (once : bool) (skew off : Q) (h : heap) (langs : list (list nat)) : list (list caption) :=
  let '((h', _), outs) := adjust_obj_langs once skew off (h, []) langs in
  map (map (deref h')) outs.

Definition adjust_objs := adjust_objs_gen true.
(* the loop as pinned (before fix 4016b86): an object listed under two languages is retimed twice *)
Definition adjust_objs_prefix := adjust_objs_gen false.

Definition refs_ok (h : heap) (langs : list (list nat)) : bool :=
  forallb (forallb (fun k => Nat.ltb k (length h))) langs.
