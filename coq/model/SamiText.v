(* C01, round 4: SAMI documents AS TEXT.  What SAMIReader.read asks of the text, from <BODY> on, for the sublanguage the
   generators emit: SAMIParser (html.parser events -> re-serialised string: tag and attribute names lower-cased, every
   attribute value re-quoted, the resolved language appended to every <p> as lang=, an open <p> / <sync> closed when the
   next one opens, entity and character references) followed by BeautifulSoup(lxml) and the walker's queries
   (find_all('p', lang), p.parent.get('start'), p.get_text().strip()).  The composite is modelled directly:
     tokens  : start tags <name attr*> with attr = ws* name [ws* = ws* ("v" | 'v' | unquoted)], end tags, text with
               references decoded (amp lt gt quot apos nbsp, decimal / hexadecimal);
     machine : <sync> opens a sync (closing the open <p>), <p> opens a paragraph of the language its FIRST
               language-naming attribute gives (lang= -> first two characters; class= a stylesheet class with a lang;
               else the default language), text goes to the open paragraph, </p> and </sync> close; other tags are
               transparent (<br>, <span>, <i>, <body>, ...).
   The stylesheet (cssutils) is outside: it is given as the table class -> lang.  Anything else (comments, <style>
   content, valueless attributes ...) -> None.  Result: the <sync> list of model/TimeTree.v and the document's languages
   in order of first appearance, then sami_read_tree.  Definitions only. *)
From Coq Require Import List ZArith Bool.
From PV Require Import lib.Sx lib.Str lib.Result.
From PV Require Import model.Langs model.TimeRead model.TimeTree model.XmlRead.
Import ListNotations.
Open Scope Z_scope.

Inductive stok := SOpen (name : str) (a : attrs) | SClose (name : str) | SText (s : str).

(* ---- references ------------------------------------------------------------------------------------------ *)
Definition sref_char (name : str) : option Z :=
  if str_eqb name (lit "nbsp") then Some 160 else ref_char name.

Fixpoint sunescape (s : str) (ref : option str) : str :=
  match s with
  | [] => match ref with None => [] | Some r => 38 :: rev r end
  | c :: t =>
      match ref with
      | None => if c =? 38 then sunescape t (Some []) else c :: sunescape t None
      | Some r =>
          if c =? 59 then
            match sref_char (rev r) with
            | Some v => v :: sunescape t None
            | None => 38 :: rev r ++ 59 :: sunescape t None
            end
          else sunescape t (Some (c :: r))
      end
  end.

(* ---- attributes: quoted or unquoted values ----------------------------------------------------------------- *)
(* an unquoted value: [^>\s]*  *)
Definition unq_c (c : Z) : bool := negb (h_ws c || (c =? 62)).

Definition sparse_attr (s1 : str) : option (str * str * str) :=
  match take_while attr_name_c s1 with
  | [] => None
  | name =>
      match drop_while h_ws (drop_while attr_name_c s1) with
      | e :: r1 =>
          if e =? 61 then
            match drop_while h_ws r1 with
            | q :: r2 =>
                if (q =? 34) || (q =? 39) then
                  match drop_to q r2 with
                  | Some r3 => Some (lower name, sunescape (take_to q r2) None, r3)
                  | None => None
                  end
                else if unq_c q then
                  Some (lower name, sunescape (take_while unq_c (q :: r2)) None, drop_while unq_c (q :: r2))
                else None
            | [] => None
            end
          else None
      | [] => None
      end
  end.

Fixpoint sparse_attrs (fuel : nat) (s : str) (acc : attrs) : option (attrs * str) :=
  match fuel with
  | O => None
  | S f =>
    match drop_while h_ws s with
    | [] => None
    | c :: r =>
        if c =? 62 then Some (rev acc, r)
        else if c =? 47 then match r with d :: r' => if d =? 62 then Some (rev acc, r') else None | [] => None end
        else match sparse_attr (c :: r) with
             | Some (n, v, r3) => sparse_attrs f r3 ((n, v) :: acc)
             | None => None
             end
    end
  end.

(* ---- tokens --------------------------------------------------------------------------------------------------- *)
Fixpoint stoks (fuel : nat) (s : str) : option (list stok) :=
  match fuel with
  | O => None
  | S f =>
    match s with
    | [] => Some []
    | c :: t =>
        if c =? 60 then
          match t with
          | [] => None
          | d :: t' =>
              if d =? 47 then
                match drop_while h_ws (drop_while tag_name_c t') with
                | e :: r => if e =? 62 then
                              match stoks f r with
                              | Some l => Some (SClose (lower (take_while tag_name_c t')) :: l)
                              | None => None
                              end
                            else None
                | [] => None
                end
              else if is_letter d then
                match sparse_attrs (S (length t)) (drop_while tag_name_c t) [] with
                | Some (a, r) =>
                    match stoks f r with
                    | Some l => Some (SOpen (lower (take_while tag_name_c t)) a :: l)
                    | None => None
                    end
                | None => None
                end
              else None
          end
        else
          match stoks f (drop_while not_lt s) with
          | Some l => Some (SText (sunescape (take_while not_lt s) None) :: l)
          | None => None
          end
    end
  end.

(* ---- SAMIParser._find_lang ---------------------------------------------------------------------------------- *)
Fixpoint assoc_str (k : str) (d : list (str * str)) : option str :=
  match d with [] => None | (k', v) :: t => if str_eqb k' k then Some v else assoc_str k t end.

(* styles: stylesheet class (lower case) -> its lang property *)
Fixpoint find_lang (styles : list (str * str)) (a : attrs) : option str :=
  match a with
  | [] => None
  | (n, v) :: t =>
      if str_eqb n (lit "lang") then Some (firstn 2 v)
      else if str_eqb n (lit "class") then
        match assoc_str (lower v) styles with Some l => Some l | None => find_lang styles t end
      else find_lang styles t
  end.

(* ---- the machine ---------------------------------------------------------------------------------------------- *)
Record sst := mkSst { st_syncs : list xsync; st_cur : option (option str * list (str * bool));
                      st_p : option (str * str); st_langs : list str }.

(* the open paragraph ends: it is filed under the open <sync> (under no start at all outside a <sync>) *)
Definition close_p (st : sst) : sst :=
  match st_p st with
  | None => st
  | Some (l, txt) =>
      let p := (l, visible txt) in
      match st_cur st with
      | Some (start, ps) => mkSst (st_syncs st) (Some (start, ps ++ [p])) None (st_langs st)
      | None => mkSst (st_syncs st ++ [(None, [p])]) None None (st_langs st)
      end
  end.
Definition close_sync (st : sst) : sst :=
  let st := close_p st in
  match st_cur st with
  | Some sy => mkSst (st_syncs st ++ [sy]) None None (st_langs st)
  | None => st
  end.

Definition sstep (default : str) (styles : list (str * str)) (st : sst) (tk : stok) : sst :=
  match tk with
  | SOpen n a =>
      if str_eqb n (lit "sync") then
        let st := close_sync st in mkSst (st_syncs st) (Some (attr_get (lit "start") a, [])) None (st_langs st)
      else if str_eqb n (lit "p") then
        let st := close_p st in
        let l := match find_lang styles a with Some l => l | None => default end in
        mkSst (st_syncs st) (st_cur st) (Some (l, []))
              (if existsb (str_eqb l) (st_langs st) then st_langs st else st_langs st ++ [l])
      else st
  | SClose n =>
      if str_eqb n (lit "sync") then close_sync st
      else if str_eqb n (lit "p") then close_p st
      else st
  | SText s =>
      match st_p st with
      | Some (l, txt) => mkSst (st_syncs st) (st_cur st) (Some (l, txt ++ s)) (st_langs st)
      | None => st
      end
  end.

Definition sami_machine (default : str) (styles : list (str * str)) (toks : list stok) : list str * list xsync :=
  let st := close_sync (fold_left (sstep default styles) toks (mkSst [] None None [])) in
  (st_langs st, st_syncs st).

(* SAMIReader.read on the text from <BODY> on, given the stylesheet's class -> lang table *)
Definition sami_read_string (default : str) (styles : list (str * str)) (s : str) : result (list (str * list (Z * Z))) :=
  match stoks (S (length s)) s with
  | None => Err EOutside
  | Some toks => let m := sami_machine default styles toks in sami_read_tree (fst m) (snd m)
  end.
