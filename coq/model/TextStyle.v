(* C11: the span / tag markup the writers emit, as an instrumented reading of the writer models of
   model/TextWrite.v: the same step functions, returning in addition the list of markup events they write
   (true = a start tag, false = an end tag).  proofs/TextStyleFacts.v shows that erasing the events gives back
   the models of TextWrite.v exactly.  Definitions only. *)
From Coq Require Import List ZArith Bool.
From PV Require Import lib.Sx lib.Str model.TextNodes model.TextWrite spec.SpecTextStyle.
Import ListNotations.
Open Scope Z_scope.

(* DFXPWriter._recreate_span / LegacyDFXPWriter._recreate_span *)
Definition span_step_tr (attrs : style -> str) (line : str) (open : bool) (start : bool) (st : style)
  : (str * bool) * list bool :=
  if start then
    match attrs st with
    | [] => ((line, open), [])
    | a => (((if open then close_span line else line) ++ lit "<span" ++ a ++ lit ">", true),
            (if open then [false] else []) ++ [true])
    end
  else if open then ((close_span line, false), [false]) else ((line, open), []).

Definition dfxp_step_tr (extra : str) (acc : (str * bool) * list bool) (n : node) : (str * bool) * list bool :=
  let '((line, open), tr) := acc in
  match n with
  | NText s => ((line ++ xml_escape s, open), tr)
  | NBreak => ((rstrip line ++ br_markup, open), tr)
  | NStyle start st =>
      let '(r, ev) := span_step_tr (fun st => dfxp_style_attrs st ++ extra) line open start st in (r, tr ++ ev)
  end.
Definition dfxp_run_tr (extra : str) (open : bool) (ns : list node) : (str * bool) * list bool :=
  fold_left (dfxp_step_tr extra) ns (([], open), []).

(* SAMIWriter._recreate_line_style / _recreate_span *)
Definition sami_step_tr (acc : (str * bool) * list bool) (n : node) : (str * bool) * list bool :=
  let '((line, open), tr) := acc in
  match n with
  | NText s => ((line ++ xml_escape s ++ lit " ", open), tr)
  | NBreak => ((rstrip line ++ br_markup, open), tr)
  | NStyle true st =>
      let line1 := if open then close_span_sp line else line in
      let tr1 := if open then tr ++ [false] else tr in
      match sami_css st with
      | [] => ((line1, open), tr1)
      | css => ((line1 ++ lit "<span style=""" ++ css ++ lit """>", true), tr1 ++ [true])
      end
  | NStyle false _ => if open then ((close_span_sp line, false), tr ++ [false]) else ((line, open), tr)
  end.
Definition sami_run_tr (open : bool) (ns : list node) : (str * bool) * list bool :=
  fold_left sami_step_tr ns (([], open), []).

(* depth of span nesting along a trace; None = an end tag without a start tag *)
Fixpoint trace_depth (tr : list bool) (d : nat) : option nat :=
  match tr with
  | [] => Some d
  | true :: t => trace_depth t (S d)
  | false :: t => match d with O => None | S d' => trace_depth t d' end
  end.

(* WebVTT: the tags a style node writes (kinds 0 i, 1 b, 2 u) *)
Definition vtt_open_evs (st : style) : list tag_ev :=
  (if st_i st then [(true, 0)] else []) ++ (if st_u st then [(true, 2)] else []) ++ (if st_b st then [(true, 1)] else []).
Definition vtt_close_evs (st : style) : list tag_ev :=
  (if st_b st then [(false, 1)] else []) ++ (if st_u st then [(false, 2)] else []) ++ (if st_i st then [(false, 0)] else []).
Definition vtt_node_evs (n : node) : list tag_ev :=
  match n with NStyle true st => vtt_open_evs st | NStyle false st => vtt_close_evs st | _ => [] end.
Definition vtt_tag_evs (ns : list node) : list tag_ev := flat_map vtt_node_evs ns.

Definition render_tag (e : tag_ev) : str :=
  let (start, k) := e in
  lit "<" ++ (if start then [] else lit "/") ++ (if k =? 0 then lit "i" else if k =? 1 then lit "b" else lit "u") ++ lit ">".
