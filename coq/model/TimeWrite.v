(* C02 - executable model of the time-writing code: base.py Caption._format_timestamp
   (datetime.timedelta model: round half even to a whole microsecond, then fields),
   webvtt.py _timestamp, microdvd.py _microtoframes, sami.py sync rule (_recreate_p_tag /
   _recreate_blank_tag with last_time, after the fix: commits), srt.py merge of equal spans.
   Times are exact rationals (Python int or float values read exactly). Definitions only. *)
From Coq Require Import List ZArith QArith Qround Bool.
From PV Require Import lib.Sx lib.Str lib.Result model.Base.
Import ListNotations.
Open Scope Z_scope.

(* datetime.timedelta(microseconds=x): an int is kept, a float is rounded half-even *)
Definition rhe (q : Q) : Z :=
  let f := Qfloor q in
  let twice := Qfloor (q * 2) in
  if twice =? 2 * f then f                                   (* fraction < 1/2 *)
  else if Qeq_bool (q * 2) (inject_Z twice)                  (* fraction = 1/2 *)
       then (if Z.even f then f else f + 1)
       else f + 1.

(* timedelta fields: .seconds is the second of the day, .microseconds the rest *)
Definition td_seconds (us : Z) : Z := (us / 1000000) mod 86400.
Definition td_micro (us : Z) : Z := us mod 1000000.

Definition fmt2 (n : Z) : str := zpad 2 (dec_nonneg n).
Definition fmt3 (n : Z) : str := zpad 3 (dec_nonneg n).

(* hours, rem = divmod(duration.seconds, 3600); minutes, seconds = divmod(rem, 60)
   f"{hours:02d}:{minutes:02d}:{seconds:02d}{sep}{milliseconds:.3s}"          *)
Definition format_ts (sep : Z) (t : Q) : str :=
  let us := rhe t in
  let secs := td_seconds us in
  let h := secs / 3600 in
  let rem := secs mod 3600 in
  fmt2 h ++ 58 :: fmt2 (rem / 60) ++ 58 :: fmt2 (rem mod 60) ++ sep :: firstn 3 (fmt3 (td_micro us / 1000)).

(* SRT: f'{start[:12]} --> {end[:12]}' *)
Definition srt_ts (t : Q) : str := firstn 12 (format_ts 44 t).
Definition dfxp_ts (t : Q) : str := format_ts 46 t.

(* WebVTTWriter._timestamp: mm, ss = divmod(td.seconds, 60); hh, mm = divmod(mm, 60);
   hours only when non-zero *)
Definition vtt_ts (t : Q) : str :=
  let us := rhe t in
  let secs := td_seconds us in
  let mm0 := secs / 60 in
  let s := fmt2 (mm0 mod 60) ++ 58 :: fmt2 (secs mod 60) ++ 46 :: fmt3 (td_micro us / 1000) in
  if mm0 / 60 =? 0 then s else fmt2 (mm0 / 60) ++ 58 :: s.

(* int(x): truncation toward zero *)
Definition qtrunc (q : Q) : Z := if Qle_bool 0 q then Qfloor q else Qceiling q.

(* MicroDVDWriter._microtoframes: int(micro * 25.0 / 10**6) *)
Definition mdvd_frames (t : Q) : Z := qtrunc (t * 25 / 1000000).
Definition mdvd_token (t : Q) : str := dec_z (mdvd_frames t).

(* SAMI: int(caption.start // 1000) *)
Definition sami_ms (t : Q) : Z := Qfloor (t / 1000).
Definition sami_token (ms : Z) : str := dec_z ms.

(* the syncs of one language in the order the writer creates them *)
Inductive sev := SCue (ms : Z) (idx : nat) | SBlank (ms : Z).

(* time = start // 1000
   if self.last_time is not None and time != self.last_time: blank sync at last_time
   self.last_time = end // 1000 ; sync at time with the paragraph                       *)
Fixpoint sami_events (caps : list (Q * Q)) (last : option Z) (i : nat) : list sev :=
  match caps with
  | [] => []
  | (s, e) :: t =>
      let time := sami_ms s in
      (match last with
       | Some l => if negb (time =? l) then [SBlank l] else []
       | None => []
       end) ++ SCue time i :: sami_events t (Some (sami_ms e)) (S i)
  end.
Definition sami_write (caps : list (Q * Q)) : list sev := sami_events caps None 0.

(* SRTWriter._recreate_lang: merge a caption into the previous cue when (start, end) are equal;
   rmerged = merged_captions, most recent first *)
Definition srt_step (rmerged : list caption) (c : caption) : list caption :=
  match rmerged with
  | m :: ms => if same_span c m
               then mkCap (c_start c) (c_end c) (c_nodes m ++ brk :: c_nodes c) :: ms
               else c :: rmerged
  | [] => [c]
  end.
Definition srt_merge (caps : list caption) : list caption :=
  match caps with
  | [] => []
  | c0 :: t => rev (fold_left srt_step t [c0])
  end.

Definition span_of (c : caption) : Q * Q := (c_start c, c_end c).

(* ---- pre-fix variants, kept on record (not used by the oracle) ---------------------------- *)
(* before `fix: SAMI writer wrote start="1000.0" ...`: time = caption.start // 1000 is a float for a
   float time and is printed as such *)
Definition sami_token_unfixed (t : Q) : str :=
  if Qeq_bool t (inject_Z (Qfloor t)) && Pos.eqb (Qden t) 1   (* a Python int *)
  then dec_z (sami_ms t) else dec_z (sami_ms t) ++ lit ".0".

(* before `fix: SAMI writer omitted the blank sync after a cue ending in millisecond 0`:
   `if self.last_time and time != self.last_time` *)
Fixpoint sami_events_unfixed (caps : list (Q * Q)) (last : option Z) (i : nat) : list sev :=
  match caps with
  | [] => []
  | (s, e) :: t =>
      let time := sami_ms s in
      (match last with
       | Some l => if negb (l =? 0) && negb (time =? l) then [SBlank l] else []
       | None => []
       end) ++ SCue time i :: sami_events_unfixed t (Some (sami_ms e)) (S i)
  end.

(* ---- cue structure of the DFXP / MicroDVD / WebVTT writers at caption-list level ----------------- *)
(* DFXPWriter.write: for caption in captions: div.append(_recreate_p_tag(caption)) - begin, end *)
Definition dfxp_tokens (caps : list caption) : list (str * str) :=
  map (fun c => (dfxp_ts (c_start c), dfxp_ts (c_end c))) caps.
(* MicroDVDWriter._recreate_lang: one {start}{end} line per caption *)
Definition mdvd_tokens (caps : list caption) : list (str * str) :=
  map (fun c => (mdvd_token (c_start c), mdvd_token (c_end c))) caps.

(* WebVTTWriter._group_cues_by_layout on the node kinds that matter for grouping:
   TEXT with its layout (None or an opaque truthy layout), STYLE (does it emit a tag), BREAK *)
Inductive vnode := VText (layout : option Z) | VStyle (emits : bool) | VBreak.

Definition opt_z_eqb (a b : option Z) : bool :=
  match a, b with Some x, Some y => x =? y | None, None => true | _, _ => false end.

(* state: closed groups, is s non-empty, current_layout *)
Definition vtt_group_step (st : nat * bool * option Z) (n : vnode) : nat * bool * option Z :=
  let '(g, ne, cur) := st in
  match n with
  | VText l =>
      (* if s and current_layout and node.layout_info != current_layout: close the group *)
      let push := ne && match cur with Some c => negb (opt_z_eqb l (Some c)) | None => false end in
      ((if push then S g else g), true, l)
  | VStyle e => (g, ne || e, cur)
  | VBreak => (g, true, cur)
  end.

Definition vtt_group_count (nodes : list vnode) : nat :=
  match nodes with
  | [] => O
  | _ => let '(g, ne, _) := fold_left vtt_group_step nodes (O, false, None) in if ne then S g else g
  end.

(* _convert_caption: one timing line per layout group, all with the caption's timespan *)
Definition vtt_cap_tokens (c : caption) (nodes : list vnode) : list (str * str) :=
  repeat (vtt_ts (c_start c), vtt_ts (c_end c)) (vtt_group_count nodes).
Definition vtt_tokens (caps : list (caption * list vnode)) : list (str * str) :=
  concat (map (fun cn => vtt_cap_tokens (fst cn) (snd cn)) caps).
