(* C20 (wave 7, round 4): DFXP own output from the text nodes.  The document DFXPWriter.write prints for one language is
   the time builders' string-level model model/DfxpWriteDoc.v (used read-only; tied to the real writer character by
   character by C02's request 207 and here by request 2003 fmt 0).  A caption is given to it as its text lines: the
   contents of its TEXT nodes (the model's domain: TEXT nodes separated by BREAK nodes, no style, no layout, times below
   24 h).  Definitions only. *)
From Coq Require Import List ZArith Bool.
From PV Require Import lib.Sx lib.Str lib.Result model.OwnWrite model.DfxpWriteDoc.
Import ListNotations.
Open Scope Z_scope.

Definition text_lines (c : ocap) : list str :=
  flat_map (fun n => match n with OText s => [s] | _ => [] end) (oc_nodes c).
Definition dfxp_wcap (c : ocap) : wcap := (oc_start c, oc_end c, text_lines c).
Definition dfxp_write_nodes (lang : str) (caps : list ocap) : str := dfxp_write_doc lang (map dfxp_wcap caps).
