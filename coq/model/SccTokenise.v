(* Text-level front end of pycaption's SCC reader (pycaption/scc/__init__.py, SCCReader.read and
   _translate_line): from the characters of an SCC file to the parsed lines `list sline` on which
   model/SccDecoder.v (`read`) starts.  Definitions only; the facts are in proofs/SccTokeniseFacts.v.

     lines = content.splitlines()
     for line in lines[1:]:                               # header line skipped, whatever it says
         if line.strip() == "": continue                  # blank lines ignored
         parts = re.compile(G1 G2 G3).findall(line.lower())   # three groups: G1 = [0-9:;]* , G2 = [\s\t]* ,
                                                              # G3 = (.)*  (written apart: no comment end here)
         timecode  = parts[0][0]                          # longest prefix of [0-9:;]
         word_list = parts[0][2].split(" ")               # the rest after the whitespace run
         for idx, word in enumerate(word_list):
             word = word.strip()
             if len(word) == 4:                           # only 4-character tokens are code words
                 next_command = word_list[idx + 1] if idx + 1 < len(word_list) else None
                 self._translate_word(word, next_command)

   MODELLED (all through lib/Str.v, whose definitions follow CPython):
     - str.splitlines(): the complete CPython set of line boundaries, \n \r \r\n \v \f \x1c \x1d \x1e \x85
       U+2028 U+2029 (Str.splitlines), nothing left out;
     - lines[1:];
     - line.strip() == "" with the complete str.isspace() set (Str.is_space); \s of the regular expression
       is the same set (sre uses Py_UNICODE_ISSPACE for str patterns), and \t is in it;
     - the regular expression: all three groups are greedy and can match the empty string, "." only
       excludes \n, which cannot occur in an element of splitlines(); so the match at position 0 always
       exists, needs no backtracking, and is (longest [0-9:;] prefix, longest whitespace run, the rest);
     - split(" ") at every single U+0020 (consecutive blanks give empty tokens), strip() of each token,
       len(word) == 4.
   LEFT OUT / SIMPLIFIED:
     - str.lower() is modelled on ASCII letters only (Str.lower).  The full Unicode lower() also changes
       non-ASCII letters (and can change the length, e.g. U+0130); such characters can only occur inside
       tokens that are not hexadecimal, which mean nothing either way, but a length change could turn a
       non-4-character token into a 4-character one (one more frame counted).  Inputs are ASCII.
     - a code word is an integer here, the hexadecimal value of the 4 characters.  A 4-character token
       that is not made of [0-9a-f] is not a key of any table of the reader, it only consumes a frame;
       it is mapped to 0 ("0000", which means nothing as well).  The Python harness uses int(w, 16),
       which also accepts "0x1f", "+1ab", "1_ab" and non-ASCII digits: these are non-keys for the real
       reader, and 0 here.
     - next_command: the real code hands _translate_word the next RAW token word_list[idx + 1] (not
       stripped, of any length), the model's `translate_words` hands it the next KEPT word.  They differ
       only when the token following a code word is not itself a 4-character code word (an empty token
       from a double blank, a token with a tab glued to it, a 3-character token ...).  `tokens_regular`
       below excludes this: under it every raw token is a code word (apart from a trailing blank one,
       for which the real code's lookahead and the model's None both mean "no punctuation follows"),
       so the raw next token is the next kept word (SccTokeniseFacts.regular_tokens_kept). *)
From Coq Require Import List ZArith Bool.
From PV Require Import lib.Sx lib.Str model.SccDecoder.
Import ListNotations.
Open Scope Z_scope.

(* ---- reading -------------------------------------------------------------------------------- *)

(* [0-9:;] *)
Definition is_tc_char (c : Z) : bool := is_digit c || (c =? 58) || (c =? 59).

(* value of a lower-case hexadecimal digit *)
Definition hex_val (c : Z) : option Z :=
  if is_digit c then Some (c - 48)
  else if (97 <=? c) && (c <=? 102) then Some (c - 87)
  else None.

(* the code word of a kept (4-character, lower-cased) token; 0 when it is not hexadecimal *)
Definition word_of_token (w : str) : Z :=
  match w with
  | [a; b; c; d] =>
      match hex_val a, hex_val b, hex_val c, hex_val d with
      | Some x3, Some x2, Some x1, Some x0 => ((x3 * 16 + x2) * 16 + x1) * 16 + x0
      | _, _, _, _ => 0
      end
  | _ => 0
  end.

Definition is_blank (line : str) : bool := match strip line with [] => true | _ => false end.

(* parts[0][0] and parts[0][2] of the regular expression, on the lower-cased line *)
Definition line_timecode (line : str) : str := take_while is_tc_char (lower line).
Definition line_rest (line : str) : str := drop_while is_space (drop_while is_tc_char (lower line)).

(* word_list, and the stripped tokens *)
Definition raw_tokens (line : str) : list str := split_ch c_sp (line_rest line).
Definition tokens (line : str) : list str := map strip (raw_tokens line).

Definition is_word_token (w : str) : bool := Nat.eqb (length w) 4.

Definition line_words (line : str) : list Z := map word_of_token (filter is_word_token (tokens line)).

(* _translate_line up to the call of _translate_word: None for a line that is ignored *)
Definition tokenise_line (line : str) : option sline :=
  if is_blank line then None else Some (line_timecode line, line_words line).

Definition tokenise_lines (lines : list str) : list sline :=
  flat_map (fun l => match tokenise_line l with Some x => [x] | None => [] end) lines.

(* SCCReader.read up to the parsed lines *)
Definition tokenise (content : str) : list sline := tokenise_lines (tl (splitlines content)).

(* next_command (see above): every raw token is a code word as it stands (4 characters, nothing to
   strip), apart from a last one that is empty or whitespace only (falsy, or two characters that are no
   punctuation bytes: the same as None for interpret_command, whose only use of next_command is
   `next_command and next_command[:2] in punctuation`) *)
Definition is_empty (s : str) : bool := match s with [] => true | _ => false end.
Fixpoint regular_tokens (ts : list str) : bool :=
  match ts with
  | [] => true
  | [t] => (is_word_token t && str_eqb (strip t) t) || is_empty (strip t)
  | t :: r => is_word_token t && str_eqb (strip t) t && regular_tokens r
  end.
Definition tokens_regular (line : str) : bool := regular_tokens (raw_tokens line).

(* ---- writing -------------------------------------------------------------------------------- *)

Definition scc_header : str := lit "Scenarist_SCC V1.0".

Definition hex_digit (up : bool) (d : Z) : Z :=
  if d <? 10 then 48 + d else (if up then 55 else 87) + d.

(* "%04x" / "%04X" of 0 <= w < 65536 *)
Definition hex4 (up : bool) (w : Z) : str :=
  [hex_digit up (w / 4096); hex_digit up ((w / 256) mod 16); hex_digit up ((w / 16) mod 16);
   hex_digit up (w mod 16)].

(* timecode, TAB, the words joined by single blanks *)
Definition render_line (up : bool) (l : sline) : str :=
  fst l ++ [c_tab] ++ join [c_sp] (map (hex4 up) (snd l)).

(* harness/sccgen.py `doc` (and SCCWriter's layout):
     HEADER + "\n\n" + "".join(tc + "\t" + " ".join(ws) + "\n\n" for tc, ws in lines)
   with the case of the hexadecimal digits and the line end as parameters *)
Definition render_gen (up : bool) (eol : str) (ls : list sline) : str :=
  scc_header ++ eol ++ eol ++ concat (map (fun l => render_line up l ++ eol ++ eol) ls).

Definition eol_lf : str := [c_nl].
Definition eol_crlf : str := [c_cr; c_nl].
Definition eol_cr : str := [c_cr].

Definition render : list sline -> str := render_gen false eol_lf.        (* the canonical text *)
Definition render_upper : list sline -> str := render_gen true eol_lf.   (* 94AE instead of 94ae *)
Definition render_crlf : list sline -> str := render_gen false eol_crlf. (* DOS line ends *)
Definition render_upper_crlf : list sline -> str := render_gen true eol_crlf.
Definition render_cr : list sline -> str := render_gen false eol_cr.     (* old Mac line ends *)

(* what `render` is expected to give back *)
Definition wf_sline (l : sline) : Prop :=
  fst l <> [] /\ forallb is_tc_char (fst l) = true /\ Forall (fun w => 0 <= w < 65536) (snd l).
