(* Writers' use of the geometry (C13, C12): which layouts of a caption set each writer transforms
   (DFXPWriter.write, SAMIWriter.write), and WebVTTWriter._convert_positioning / _group_cues_by_layout.
   A caption set is reduced to its layouts: set level, language level, caption level, node level. *)
From Coq Require Import List ZArith QArith Bool.
From PV Require Import lib.Sx lib.Str lib.Result model.Geometry.
Import ListNotations.
Open Scope Z_scope.

Record wcfg := mkCfg { w_rel : bool; w_fit : bool; w_w : option Q; w_h : option Q }.

(* node kinds: 1 TEXT, 2 STYLE whose content yields tags/attributes (italics, bold, underline), 3 BREAK,
   4 STYLE with empty content; every node carries a layout_info *)
Record nnode := mkNode { n_kind : Z; n_layout : option layout }.
Record ncap := mkNcap { nc_layout : option layout; nc_nodes : list nnode }.
Record nlang := mkNlang { nl_layout : option layout; nl_caps : list ncap }.
Record nset := mkNset { ns_layout : option layout; ns_langs : list nlang }.

Definition raf (c : wcfg) (o : option layout) : result (option layout) :=
  match o with
  | None => Ok None
  | Some l => do r <- relativize_and_fit (w_rel c) (w_fit c) (w_w c) (w_h c) l; Ok (Some r)
  end.

Definition raf_node (c : wcfg) (n : nnode) : result nnode :=
  do l <- raf c (n_layout n); Ok (mkNode (n_kind n) l).

Definition raf_cap (c : wcfg) (cp : ncap) : result ncap :=
  do l <- raf c (nc_layout cp); do ns <- res_map (raf_node c) (nc_nodes cp); Ok (mkNcap l ns).

(* DFXPWriter.write after `fix: DFXPWriter left a language-level layout in px (or other absolute units) unrelativized`:
   the language-level layout is relativized (not fitted: the pinned test_empty_cue fixes the unfitted <div> region),
   captions and nodes are relativized and fitted; the set-level layout never becomes a region and is left alone -
   except with write_inline_positioning (dfxp_transform_inline below), where it reaches the document as inline attributes *)
Definition rel_only (c : wcfg) (o : option layout) : result (option layout) :=
  match o with
  | Some l => if layout_truthy l && w_rel c then do r <- layout_as_pct l (w_w c) (w_h c); Ok (Some r) else Ok o
  | None => Ok None
  end.

Definition dfxp_lang (c : wcfg) (lg : nlang) : result nlang :=
  do l <- rel_only c (nl_layout lg); do cs <- res_map (raf_cap c) (nl_caps lg); Ok (mkNlang l cs).
Definition dfxp_transform (c : wcfg) (s : nset) : result nset :=
  do ls <- res_map (dfxp_lang c) (ns_langs s); Ok (mkNset (ns_layout s) ls).

(* with write_inline_positioning=True (after `fix: DFXPWriter(write_inline_positioning=True) wrote the absolute lengths of
   the set-level layout inline`): the set-level layout is relativized first *)
Definition dfxp_transform_inline (c : wcfg) (s : nset) : result nset :=
  do g <- rel_only c (ns_layout s);
  do ls <- res_map (dfxp_lang c) (ns_langs s); Ok (mkNset g ls).

(* the unrepaired code (kept for the _refuted theorem): language-level layouts untouched *)
Definition dfxp_lang_prefix (c : wcfg) (lg : nlang) : result nlang :=
  do cs <- res_map (raf_cap c) (nl_caps lg); Ok (mkNlang (nl_layout lg) cs).
Definition dfxp_transform_prefix (c : wcfg) (s : nset) : result nset :=
  do ls <- res_map (dfxp_lang_prefix c) (ns_langs s); Ok (mkNset (ns_layout s) ls).

(* SAMIWriter.write: all four levels through _relativize_and_fit_to_screen, in document order *)
Definition sami_lang (c : wcfg) (lg : nlang) : result nlang :=
  do l <- raf c (nl_layout lg); do cs <- res_map (raf_cap c) (nl_caps lg); Ok (mkNlang l cs).
Definition sami_transform (c : wcfg) (s : nset) : result nset :=
  do g <- raf c (ns_layout s); do ls <- res_map (sami_lang c) (ns_langs s); Ok (mkNset g ls).

(* ---- WebVTT ------------------------------------------------------------------------------------ *)
Definition size_sub (a b : size) : result size :=
  if unit_eqb (s_unit a) (s_unit b) then Ok (mkSize (Qred (s_val a - s_val b)%Q) (s_unit a)) else Err ValueError.

(* Layout.is_relative *)
Definition size_is_relative (a : size) : bool := unit_eqb (s_unit a) PCT.
Definition layout_is_relative (l : layout) : bool :=
  match l_origin l with Some p => size_is_relative (p_x p) && size_is_relative (p_y p) | None => true end
  && match l_extent l with Some e => size_is_relative (st_h e) && size_is_relative (st_v e) | None => true end
  && match l_padding l with
     | Some p => size_is_relative (pd_before p) && size_is_relative (pd_after p)
                 && size_is_relative (pd_start p) && size_is_relative (pd_end p)
     | None => true end.

(* cue settings: align omitted = None *)
Record vtt_settings := mkVs { vs_align : option halign; vs_position : option size; vs_line : option size;
                              vs_size : option size }.
Inductive vtt_out := VNone | VRaw (s : str) | VSet (s : vtt_settings).

(* WEBVTT_VERSION_OF.get(horizontal, DEFAULT_ALIGN) with DEFAULT_ALIGN = "start"; " align:x" unless x = "center" *)
Definition vtt_align (a : option alignment) : option halign :=
  match a with
  | Some al => match al_h al with
               | Some HCenter => None
               | Some h => Some h
               | None => Some HStart
               end
  | None => Some HStart
  end.

Definition opt_bind {A B} (o : option A) (f : A -> result B) : result (option B) :=
  match o with Some a => do b <- f a; Ok (Some b) | None => Ok None end.

(* the arithmetic on the (relativized, fitted) layout *)
Definition vtt_arith (l2 : layout) : result vtt_out :=
  let left := option_map p_x (l_origin l2) in
  let top := option_map p_y (l_origin l2) in
  let width := option_map st_h (l_extent l2) in
  match l_padding l2 with
  | None => Ok (VSet (mkVs (vtt_align (l_alignment l2)) left top width))
  | Some p =>
      (* if padding.start and left_offset: left += start; if cue_width: cue_width -= start *)
      do lw <- match left with
               | Some x => do x' <- size_add x (pd_start p);
                           do w' <- opt_bind width (fun wd => size_sub wd (pd_start p));
                           Ok (Some x', w')
               | None => Ok (None, width)
               end;
      (* if padding.end and cue_width: cue_width -= end *)
      do w2 <- opt_bind (snd lw) (fun wd => size_sub wd (pd_end p));
      (* if padding.before and top_offset: top += before *)
      do t2 <- opt_bind top (fun y => size_add y (pd_before p));
      Ok (VSet (mkVs (vtt_align (l_alignment l2)) (fst lw) t2 w2))
  end.

Definition vtt_convert_positioning (c : wcfg) (lo : option layout) : result vtt_out :=
  match lo with
  | None => Ok VNone
  | Some l =>
    if negb (layout_truthy l) then Ok VNone else
    match l_webvtt l with
    | Some (ch :: raw) => Ok (VRaw (ch :: raw))
    | _ =>
      if negb (w_rel c) && negb (layout_is_relative l) then Ok VNone else
      do l1 <- (if w_rel c then layout_as_pct l (w_w c) (w_h c) else Ok l);
      do l2 <- (if w_fit c then layout_fit l1 else Ok l1);
      vtt_arith l2
    end
  end.

(* _group_cues_by_layout: a TEXT node whose layout differs from the current one starts a new cue; so does (since the
   fix "a span opens in the cue of its own layout group") a STYLE START node that carries a layout different from the
   current one: the group is flushed, the span's layout becomes the current one and its tag opens the next cue.
   Returns the layout of each group, in order (the texts are C03/C11's business).
   State: (s is non-empty, current_layout).
     TEXT : `if s and current_layout and node.layout_info != current_layout` -> flush; s += text; current = node's
     STYLE: `if node.start and s and current_layout and node.layout_info and node.layout_info != current_layout`
            -> flush, current = node's; then s += tags (if the style has italics / bold / underline)
     BREAK: s += newline
   Node kinds: 1 TEXT, 3 BREAK, STYLE: 2 start with tags, 4 start without tags ({} content), 5 end with tags,
   6 (and anything else) end without tags. *)
Definition opt_layout_truthy (o : option layout) : bool :=
  match o with Some l => layout_truthy l | None => false end.
Definition opt_layout_eqb (a b : option layout) : bool :=
  match a, b with
  | Some x, Some y => layout_eqb x y
  | None, None => true
  | _, _ => false
  end.

Definition style_start (k : Z) : bool := (k =? 2) || (k =? 4).
Definition style_tags (k : Z) : bool := (k =? 2) || (k =? 5).

Fixpoint vtt_groups_aux (nodes : list nnode) (has_s : bool) (cur : option layout) : list (option layout) :=
  match nodes with
  | [] => if has_s then [cur] else []
  | n :: t =>
      if n_kind n =? 1 then
        if has_s && opt_layout_truthy cur && negb (opt_layout_eqb (n_layout n) cur)
        then cur :: vtt_groups_aux t true (n_layout n)
        else vtt_groups_aux t true (n_layout n)
      else if n_kind n =? 3 then vtt_groups_aux t true cur      (* a break always appends to s *)
      else
        if style_start (n_kind n) && has_s && opt_layout_truthy cur && opt_layout_truthy (n_layout n)
           && negb (opt_layout_eqb (n_layout n) cur)
        then cur :: vtt_groups_aux t (style_tags (n_kind n)) (n_layout n)   (* s = "" and then the opening tags *)
        else vtt_groups_aux t (has_s || style_tags (n_kind n)) cur          (* tags (if any) are appended to s *)
  end.
Definition vtt_groups (nodes : list nnode) : list (option layout) := vtt_groups_aux nodes false None.

(* _convert_caption: per group `layout or caption.layout_info or global_layout`, then _convert_positioning *)
Definition first_truthy (a b c : option layout) : option layout :=
  if opt_layout_truthy a then a else if opt_layout_truthy b then b else c.

Definition vtt_caption (c : wcfg) (global : option layout) (cp : ncap) : result (list vtt_out) :=
  res_map (fun g => vtt_convert_positioning c (first_truthy g (nc_layout cp) global)) (vtt_groups (nc_nodes cp)).

(* WebVTTWriter.write: the captions of the written language (the first one, or lang=); global_layout is that language's *)
Definition vtt_language (c : wcfg) (lg : nlang) : result (list (list vtt_out)) :=
  res_map (vtt_caption c (nl_layout lg)) (nl_caps lg).

(* ---- DFXP write side: RegionCreator (C12) --------------------------------------------------------------- *)
(* a <region> is created for a layout that has any of origin / extent / padding / alignment *)
Definition has_region (l : layout) : bool :=
  match l_origin l, l_extent l, l_padding l, l_alignment l with
  | None, None, None, None => false
  | _, _, _, _ => true
  end.

Definition dfxp_default_region : layout := mkLayout None None None (Some (mkAlign (Some HStart) (Some VBottom))) None.

(* _OrderedSet: membership is list.__contains__, i.e. Layout.__eq__ *)
Definition oset_mem (l : layout) (s : list layout) : bool := existsb (fun k => layout_eqb k l) s.
Definition oset_add (s : list layout) (l : layout) : list layout := if oset_mem l s then s else s ++ [l].
Fixpoint oset_discard (l : layout) (s : list layout) : list layout :=
  match s with
  | [] => []
  | k :: t => if layout_eqb k l then t else k :: oset_discard l t
  end.

(* _collect_unique_regions: language, caption and node layouts in document order; None and the default region dropped *)
Definition collect_regions (ls : list (option layout)) : list layout :=
  oset_discard dfxp_default_region
    (fold_left (fun s o => match o with Some l => oset_add s l | None => s end) ls []).

Inductive region_id := RDefault | RId (n : Z).

(* _create_unique_regions with _get_new_id: ids r0, r1, .. in order, only for layouts that get a region *)
Fixpoint number_regions (s : list layout) (seed : Z) : list (layout * region_id) :=
  match s with
  | [] => []
  | l :: t => if has_region l then (l, RId seed) :: number_regions t (seed + 1) else number_regions t seed
  end.

Definition region_map (ls : list (option layout)) : list (layout * region_id) :=
  number_regions (collect_regions ls) 0 ++ [(dfxp_default_region, RDefault)].

(* dict.get(layout): the entry whose key == layout (hash/eq coherent by C18); absent -> the default region id *)
Definition region_lookup (m : list (layout * region_id)) (o : option layout) : region_id :=
  match o with
  | None => RDefault
  | Some l => match List.find (fun kv => layout_eqb (fst kv) l) m with
              | Some kv => snd kv
              | None => RDefault
              end
  end.

(* get_positioning_info: node, else caption, else language, else set level (Python truthiness of Layout) *)
Definition dfxp_choice (set_l lang_l cap_l node_l : option layout) : option layout :=
  let a := if opt_layout_truthy node_l then node_l else cap_l in
  let b := if opt_layout_truthy a then a else lang_l in
  if opt_layout_truthy b then b else set_l.

(* ---- DFXP attributes: _convert_layout_to_attributes / to_xml_attribute, and the reader's resolution ------- *)
Definition point_attr (p : point) : str := size_str (p_x p) ++ 32 :: size_str (p_y p).
Definition stretch_attr (p : stretch) : str := size_str (st_h p) ++ 32 :: size_str (st_v p).
(* Padding.to_xml_attribute: before end after start *)
Definition padding_attr (p : padding) : str :=
  size_str (pd_before p) ++ 32 :: size_str (pd_end p) ++ 32 :: size_str (pd_after p) ++ 32 :: size_str (pd_start p).

(* _create_external_alignment writes only the components that are set; absent alignment -> the default region's *)
Definition align_attrs (a : option alignment) : option halign * option valign :=
  match a with
  | Some al => (al_h al, al_v al)
  | None => (Some HStart, Some VBottom)
  end.

Record region_attrs := mkRA { ra_origin : option str; ra_extent : option str; ra_padding : option str;
                              ra_text_align : option halign; ra_display_align : option valign }.
Definition layout_attrs (l : layout) : region_attrs :=
  mkRA (option_map point_attr (l_origin l)) (option_map stretch_attr (l_extent l)) (option_map padding_attr (l_padding l))
       (fst (align_attrs (l_alignment l))) (snd (align_attrs (l_alignment l))).

(* LayoutInfoScraper.scrape_positioning_info on a region with these attributes (no styles, no tt extent, no
   tts:textAlign on the element): absent alignment components take the defaults start / after *)
Definition point_of_attr (s : str) : result point := do xy <- two_sizes s; Ok (mkPoint (fst xy) (snd xy)).
Definition stretch_of_attr (s : str) : result stretch := do xy <- two_sizes s; Ok (mkStretch (fst xy) (snd xy)).
Definition read_region (a : region_attrs) : result layout :=
  do o <- opt_res point_of_attr (ra_origin a);
  do e <- opt_res stretch_of_attr (ra_extent a);
  do p <- opt_res padding_from_attr (ra_padding a);
  Ok (mkLayout o e p
        (Some (mkAlign (Some (match ra_text_align a with Some h => h | None => HStart end))
                       (Some (match ra_display_align a with Some v => v | None => VBottom end))))
        None).
