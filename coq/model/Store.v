(* Store.v - the fragment of the Python heap that C09 / C10 talk about (definitions only).

   A store is a bump-allocated list of mutable objects; a location is an index.  An object is a kind tag plus an
   ordered list of (key, value) cells: a Python dict (insertion ordered), a list (keys VNone), or a class instance
   (keys = small field numbers).  Values are scalars or locations.  Everything the properties can observe is a
   function  store -> tree  that forgets locations (`snap`).

   deepcopy is Python's: memoised (sharing inside the copied graph is preserved, cycles are fine), every copied
   object is freshly allocated.  It is fuel-indexed (fuel bounds the nesting depth); running out of fuel or meeting
   a dangling location yields None - the theorems hold for every fuel and every store. *)
From Coq Require Import List ZArith Bool Arith.
From PV Require Import lib.Sx lib.Str.
Import ListNotations.
Open Scope Z_scope.

Definition loc := nat.

Inductive val : Type :=
| VInt (z : Z)
| VStr (s : str)
| VNone
| VLoc (l : loc).

Record obj := mkObj { o_kind : Z; o_items : list (val * val) }.

Definition store := list obj.

(* object kinds *)
Definition KDict := 0.
Definition KList := 1.
Definition KSet := 2.       (* CaptionSet  : 1 _captions (dict lang -> CaptionList), 2 _styles (dict), 3 layout_info *)
Definition KCapList := 3.   (* CaptionList : cell (VInt 1) = layout_info, then one (VNone, caption) cell per caption *)
Definition KCaption := 4.   (* Caption     : 1 start, 2 end, 3 nodes (list), 4 style (dict), 5 layout_info *)
Definition KNode := 5.      (* CaptionNode : 1 type_, 2 content, 3 start, 4 layout_info, 5 position *)
Definition KLayout := 6.    (* Layout      : 1 code (256 * value digest + flags), 2 webvtt_positioning *)
Definition KDefault := 100. (* only in construction trees: "argument omitted -> the function's default object" *)

Definition get (st : store) (l : loc) : option obj := nth_error st l.

Fixpoint upd (st : store) (l : loc) (o : obj) : store :=
  match st, l with
  | [], _ => []
  | _ :: t, O => o :: t
  | x :: t, S n => x :: upd t n o
  end.

Definition alloc (st : store) (o : obj) : store * loc := (st ++ [o], length st).

Definition val_eqb (a b : val) : bool :=
  match a, b with
  | VInt x, VInt y => x =? y
  | VStr x, VStr y => str_eqb x y
  | VNone, VNone => true
  | VLoc x, VLoc y => Nat.eqb x y
  | _, _ => false
  end.

Fixpoint assoc (k : val) (l : list (val * val)) : option val :=
  match l with
  | [] => None
  | (k', v) :: t => if val_eqb k k' then Some v else assoc k t
  end.

(* d[k] = v : an existing key keeps its position *)
Fixpoint assoc_set (k v : val) (l : list (val * val)) : list (val * val) :=
  match l with
  | [] => [(k, v)]
  | (k', v') :: t => if val_eqb k k' then (k', v) :: t else (k', v') :: assoc_set k v t
  end.

Fixpoint assoc_del (k : val) (l : list (val * val)) : list (val * val) :=
  match l with
  | [] => []
  | (k', v') :: t => if val_eqb k k' then t else (k', v') :: assoc_del k t
  end.

Definition items_of (st : store) (v : val) : list (val * val) :=
  match v with
  | VLoc l => match get st l with Some o => o_items o | None => [] end
  | _ => []
  end.

Definition kind_of (st : store) (v : val) : Z :=
  match v with
  | VLoc l => match get st l with Some o => o_kind o | None => -1 end
  | _ => -1
  end.

(* attribute / item read; a missing object or key reads as VNone (the models only read slots that exist) *)
Definition field (st : store) (v : val) (k : val) : val :=
  match assoc k (items_of st v) with Some x => x | None => VNone end.

(* attribute / item write on the object a value points to; writing through a non-location is a no-op *)
Definition set_items (st : store) (v : val) (its : list (val * val)) : store :=
  match v with
  | VLoc l => match get st l with Some o => upd st l (mkObj (o_kind o) its) | None => st end
  | _ => st
  end.

Definition set_field (st : store) (v : val) (k x : val) : store :=
  set_items st v (assoc_set k x (items_of st v)).

Definition del_field (st : store) (v : val) (k : val) : store :=
  set_items st v (assoc_del k (items_of st v)).

Definition append_item (st : store) (v : val) (x : val) : store :=
  set_items st v (items_of st v ++ [(VNone, x)]).

Definition new_obj (st : store) (k : Z) (its : list (val * val)) : store * val :=
  let (st', l) := alloc st (mkObj k its) in (st', VLoc l).

(* ---- identity-insensitive snapshots ------------------------------------------------------------------------ *)
Inductive tree : Type :=
| TInt (z : Z)
| TStr (s : str)
| TNone
| TNode (k : Z) (items : list (tree * tree))
| TCut.                     (* fuel exhausted or dangling location *)

Fixpoint snap (fuel : nat) (st : store) (v : val) : tree :=
  match v with
  | VInt z => TInt z
  | VStr s => TStr s
  | VNone => TNone
  | VLoc l =>
      match fuel with
      | O => TCut
      | S f =>
          match get st l with
          | None => TCut
          | Some o => TNode (o_kind o) (map (fun kv => (snap f st (fst kv), snap f st (snd kv))) (o_items o))
          end
      end
  end.

(* ---- construction from a tree (what a reader / the API user allocates): all objects fresh -------------------- *)
(* dflt which : the value bound when an argument is omitted (KDefault marker); it is supplied by the caller:
   the pre-existing shared dict before the base.py fix, a freshly allocated dict after it. *)
Fixpoint build (dflt : store -> Z -> store * val) (t : tree) (st : store) : store * val :=
  match t with
  | TInt z => (st, VInt z)
  | TStr s => (st, VStr s)
  | TNone => (st, VNone)
  | TCut => (st, VNone)
  | TNode k items =>
      if k =? KDefault then
        dflt st (match items with (_, TInt w) :: _ => w | _ => 0 end)
      else
        let '(st1, its) :=
          (fix go (l : list (tree * tree)) (st : store) : store * list (val * val) :=
             match l with
             | [] => (st, [])
             | (a, b) :: r =>
                 let '(st1, a') := build dflt a st in
                 let '(st2, b') := build dflt b st1 in
                 let '(st3, r') := go r st2 in
                 (st3, (a', b') :: r')
             end) items st in
        new_obj st1 k its
  end.

(* ---- deepcopy ------------------------------------------------------------------------------------------------ *)
Definition memo := list (loc * loc).

Fixpoint mlookup (l : loc) (m : memo) : option loc :=
  match m with
  | [] => None
  | (a, b) :: t => if Nat.eqb l a then Some b else mlookup l t
  end.

Definition dcres (A : Type) := option (store * memo * A).

Fixpoint dc_items (rec : store -> memo -> val -> dcres val) (its : list (val * val)) (st : store) (m : memo)
  : dcres (list (val * val)) :=
  match its with
  | [] => Some (st, m, [])
  | (k, x) :: t =>
      match rec st m k with
      | None => None
      | Some (st1, m1, k') =>
          match rec st1 m1 x with
          | None => None
          | Some (st2, m2, x') =>
              match dc_items rec t st2 m2 with
              | None => None
              | Some (st3, m3, t') => Some (st3, m3, (k', x') :: t')
              end
          end
      end
  end.

Fixpoint dcv (fuel : nat) (st : store) (m : memo) (v : val) {struct fuel} : dcres val :=
  match v with
  | VLoc l =>
      match mlookup l m with
      | Some l' => Some (st, m, VLoc l')
      | None =>
          match fuel with
          | O => None
          | S f =>
              match get st l with
              | None => None
              | Some o =>
                  let l' := length st in
                  (* the copy is registered in the memo before its content is copied (as copy.deepcopy does) *)
                  match dc_items (dcv f) (o_items o) (st ++ [mkObj (o_kind o) []]) ((l, l') :: m) with
                  | None => None
                  | Some (st2, m2, its') => Some (upd st2 l' (mkObj (o_kind o) its'), m2, VLoc l')
                  end
              end
          end
      end
  | _ => Some (st, m, v)
  end.

Definition deepcopy (fuel : nat) (st : store) (v : val) : option (store * val) :=
  match dcv fuel st [] v with
  | Some (st', _, v') => Some (st', v')
  | None => None
  end.

(* ---- reachability (for the aliasing observer of the model) ---------------------------------------------------- *)
Fixpoint mem_loc (l : loc) (ls : list loc) : bool :=
  match ls with [] => false | x :: t => Nat.eqb l x || mem_loc l t end.

(* depth-first collection of the locations reachable from v; fuel bounds the depth *)
Fixpoint reach (fuel : nat) (st : store) (v : val) (acc : list loc) {struct fuel} : list loc :=
  match v with
  | VLoc l =>
      if mem_loc l acc then acc else
      match fuel with
      | O => l :: acc
      | S f =>
          fold_left (fun a kv => reach f st (snd kv) (reach f st (fst kv) a)) (items_of st v) (l :: acc)
      end
  | _ => acc
  end.

Definition shares (fuel : nat) (st : store) (a b : val) : bool :=
  let ra := reach fuel st a [] in
  existsb (fun l => mem_loc l ra) (reach fuel st b []).

Definition kinds_shared (fuel : nat) (st : store) (a b : val) : list Z :=
  let ra := reach fuel st a [] in
  map (fun l => kind_of st (VLoc l)) (filter (fun l => mem_loc l ra) (reach fuel st b [])).
