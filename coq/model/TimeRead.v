(* C01 - executable model of the time-reading code of the five text readers
   (srt.py, webvtt.py, dfxp/base.py, sami.py, microdvd.py), after the fix: commits
   (DFXP fraction scaled by its length; DFXP offsets / frames and MicroDVD frames in exact
   arithmetic).  Definitions only.
   Python int() / \d / isdigit are modelled on ASCII digit strings (no sign, blanks,
   underscores, non-ASCII digits): outside that the model answers ValueError. *)
From Coq Require Import List ZArith Bool.
From PV Require Import lib.Sx lib.Str lib.Result.
Import ListNotations.
Open Scope Z_scope.

(* utils.split_lines: re.split('\r\n|\r|\n', content), a final empty piece dropped - the document readers split at
   LF, CR LF and CR only (U+2028, U+0085, VT, FF ... are ordinary text).  Same shape as str.splitlines. *)
Definition is_lf_cr (c : Z) : bool := (c =? 10) || (c =? 13).
Fixpoint split_lines_aux (s : str) (cur : str) (started : bool) : list str :=
  match s with
  | [] => if started then [rev cur] else []
  | c :: t =>
      if is_lf_cr c then
        rev cur :: (if c =? 13
                    then match t with
                         | 10 :: t' => split_lines_aux t' [] false
                         | _ => split_lines_aux t [] false
                         end
                    else split_lines_aux t [] false)
      else split_lines_aux t (c :: cur) true
  end.
Definition split_lines (s : str) : list str := split_lines_aux s [] false.

Definition py_int (s : str) : result Z :=
  match int_of_digits s with Some z => Ok z | None => Err ValueError end.

Definition nth_str (l : list str) (n : nat) : result str :=
  match nth_error l n with Some x => Ok x | None => Err IndexError end.

Definition has_ch (c : Z) (s : str) : bool := existsb (Z.eqb c) s.

Definition OtherError : err := ECrash 9.

(* one caption as the readers return it: start, end (microseconds), text lines *)
Definition rcap : Type := (Z * Z * list str)%type.

Definition no_captions_if_empty (r : result (list rcap)) : result (list rcap) :=
  match r with Ok [] => Err ENoCaptions | _ => r end.

(* ============================== SRT ========================================== *)
(* def _srttomicro(self, stamp):
       timesplit = stamp.split(':')
       if ',' not in timesplit[2]: timesplit[2] += ',000'
       secsplit = timesplit[2].split(',')
       return int(timesplit[0])*3600000000 + int(timesplit[1])*60000000
              + int(secsplit[0])*1000000 + int(secsplit[1])*1000                       *)
Definition srt_to_micro (stamp : str) : result Z :=
  let ts := split_ch 58 stamp in
  do t2 <- nth_str ts 2;
  let t2' := if has_ch 44 t2 then t2 else t2 ++ lit ",000" in
  let ss := split_ch 44 t2' in
  do t0 <- nth_str ts 0;
  do h <- py_int t0;
  do t1 <- nth_str ts 1;
  do m <- py_int t1;
  do s0 <- nth_str ss 0;
  do s <- py_int s0;
  do s1 <- nth_str ss 1;
  do f <- py_int s1;
  Ok (h * 3600000000 + m * 60000000 + s * 1000000 + f * 1000).

Definition is_blank (l : str) : bool := match strip l with [] => true | _ => false end.

(* _find_text_line, relative to the suffix that starts at start_line: returns
   (returned end_line) - start_line; on exhaustion Python returns len(lines)+1 *)
Fixpoint ftl (rest : list str) (found : bool) (k : nat) : nat :=
  match rest with
  | [] => S k
  | l :: t => if is_blank l then ftl t true (S k)
              else if found then k
              else ftl t false (S k)
  end.

(* for line in lines[start+2:end-1]: if not nodes or line != '': append text, break *)
Fixpoint srt_keep (ls : list str) (have : bool) : list str :=
  match ls with
  | [] => []
  | l :: t => if negb have || negb (str_eqb l []) then l :: srt_keep t true else srt_keep t have
  end.

Definition strip3 (s : str) : str := strip_by (fun c => (c =? 32) || (c =? 13) || (c =? 10)) s.

Definition slice (a b : nat) {A} (l : list A) : list A := skipn a (firstn b l).

Fixpoint srt_loop (fuel : nat) (rest : list str) (acc : list rcap) : result (list rcap) :=
  match fuel with
  | O => match rest with [] => Ok acc | _ => Err EOutOfFuel end
  | S f =>
    match rest with
    | [] => Ok acc
    | l0 :: _ =>
        if negb (isdigit l0) then Ok acc else
        let e := ftl rest false 0 in
        do tl <- nth_str rest 1;
        let timing := split (lit "-->") tl in
        do a <- nth_str timing 0;
        do st <- srt_to_micro (strip3 a);
        do b <- nth_str timing 1;
        do en <- srt_to_micro (strip3 b);
        let txt := srt_keep (slice 2 (e - 1) rest) false in
        srt_loop f (skipn e rest) (match txt with [] => acc | _ => acc ++ [(st, en, txt)] end)
    end
  end.

Definition srt_read (content : str) : result (list rcap) :=
  let lines := split_lines content in
  no_captions_if_empty (srt_loop (S (length lines)) lines []).

(* ============================== WebVTT ======================================= *)
Definition not_space (c : Z) : bool := negb (is_space c).

(* TIMING_LINE_PATTERN = ^(\S+)\s+-->\s+(\S+)(?:\s+(.*?))?\s*$  -> groups 1 and 2.
   Maximal munch is the only way the pattern can match: after a maximal \S+ comes
   whitespace or the end, after a maximal \s+ a non-space; the optional tail always matches. *)
Definition starts_space (s : str) : bool := match s with c :: _ => is_space c | [] => false end.

Definition vtt_timing_line (line : str) : option (str * str) :=
  let g1 := take_while not_space line in
  let r1 := drop_while not_space line in
  let r2 := drop_while is_space r1 in
  let r3 := skipn 3 r2 in
  let r4 := drop_while is_space r3 in
  let g2 := take_while not_space r4 in
  match g1, g2 with
  | _ :: _, _ :: _ =>
      if starts_space r1 && is_prefix (lit "-->") r2 && starts_space r3
      then Some (g1, g2) else None
  | _, _ => None
  end.

(* microseconds(h, m, s, f) *)
Definition vtt_micro (h m s f : Z) : Z := (h * 3600 + m * 60 + s) * 1000000 + f * 1000.

(* TIMESTAMP_PATTERN = ^(\d+):(\d{2})(:\d{2})?\.(\d{3})   (prefix match, unanchored end) *)
Definition vtt_timestamp (ts : str) : result Z :=
  let d1 := take_while is_digit ts in
  match d1, drop_while is_digit ts with
  | _ :: _, 58 :: a :: b :: r2 =>
      if is_digit a && is_digit b then
        match r2 with
        | 58 :: c :: d :: r3 =>
            if is_digit c && is_digit d then
              match r3 with
              | 46 :: e :: f :: g :: _ =>
                  if is_digit e && is_digit f && is_digit g then
                    do h <- py_int d1; do m <- py_int [a; b]; do s <- py_int [c; d];
                    do ms <- py_int [e; f; g]; Ok (vtt_micro h m s ms)
                  else Err ESyntax
              | _ => Err ESyntax
              end
            else Err ESyntax
        | 46 :: e :: f :: g :: _ =>
            if is_digit e && is_digit f && is_digit g then
              do m <- py_int d1; do s <- py_int [a; b];
              do ms <- py_int [e; f; g]; Ok (vtt_micro 0 m s ms)
            else Err ESyntax
        | _ => Err ESyntax
        end
      else Err ESyntax
  | _, _ => Err ESyntax
  end.

(* _parse_timing_line; shift in microseconds; strict = not ignore_timing_errors *)
Definition vtt_parse_timing (strict : bool) (shift : Z) (line : str) (last_start : Z) : result (Z * Z) :=
  match vtt_timing_line line with
  | None => Err ESyntax
  | Some (g1, g2) =>
      do st <- vtt_timestamp g1;
      do en <- vtt_timestamp g2;
      let st := st + shift in
      let en := en + shift in
      if strict && ((en <? st) || (st <? last_start)) then Err OtherError
      else Ok (st, en)
  end.

Record vtt_state := mkVS {
  vs_caps : list rcap; vs_start : Z; vs_end : Z; vs_nodes : list str; vs_found : bool }.

Definition last_start (caps : list rcap) : Z :=
  match rev caps with (s, _, _) :: _ => s | [] => 0 end.

Definition vtt_step (strict : bool) (shift : Z) (st : vtt_state) (line : str) : result vtt_state :=
  if is_infix (lit "-->") line then
    do se <- vtt_parse_timing strict shift line (last_start (vs_caps st));
    Ok (mkVS (vs_caps st) (fst se) (snd se) (vs_nodes st) true)
  else if str_eqb line [] then
    match vs_found st, vs_nodes st with
    | true, _ :: _ =>
        Ok (mkVS (vs_caps st ++ [(vs_start st, vs_end st, vs_nodes st)]) (vs_start st) (vs_end st) [] false)
    | _, _ => Ok st
    end
  else if vs_found st then
    Ok (mkVS (vs_caps st) (vs_start st) (vs_end st) (vs_nodes st ++ [line]) true)
  else Ok st.

Fixpoint vtt_loop (strict : bool) (shift : Z) (lines : list str) (st : vtt_state) : result vtt_state :=
  match lines with
  | [] => Ok st
  | l :: t => do st' <- vtt_step strict shift st l; vtt_loop strict shift t st'
  end.

Definition vtt_read (strict : bool) (shift_ms : Z) (content : str) : result (list rcap) :=
  no_captions_if_empty
    (do st <- vtt_loop strict (shift_ms * 1000) (split_lines content) (mkVS [] 0 0 [] false);
     Ok (match vs_nodes st with
         | [] => vs_caps st
         | _ => vs_caps st ++ [(vs_start st, vs_end st, vs_nodes st)]
         end)).

(* ============================== DFXP ========================================= *)
(* TIME_EXPRESSION_PATTERN = ^(CLOCK|OFFSET)$
   CLOCK  = \d+:\d{2}:\d{2}(:\d{2}|\.\d+)?     OFFSET = \d+(\.\d+)?(h|m|s|ms|f|t)           *)
Definition all_digits (s : str) : bool := forallb is_digit s.

Definition pow10 (n : nat) : Z := 10 ^ Z.of_nat n.

Definition dfxp_clock (s : str) : option (result Z) :=
  let d1 := take_while is_digit s in
  match d1, drop_while is_digit s with
  | _ :: _, 58 :: a :: b :: 58 :: c :: d :: tail =>
      if is_digit a && is_digit b && is_digit c && is_digit d then
        let base := do h <- py_int d1; do m <- py_int [a; b]; do sec <- py_int [c; d];
                    Ok (h * 3600000000 + m * 60000000 + sec * 1000000) in
        match tail with
        | [] => Some base
        | 58 :: e :: f :: [] =>
            if is_digit e && is_digit f
            then Some (do t <- base; do ff <- py_int [e; f]; Ok (t + ff * 1000000 / 30))
            else None
        | 46 :: fr =>
            match fr with
            | [] => None
            | _ => if all_digits fr
                   then Some (do t <- base; do n <- py_int fr; Ok (t + n * 1000000 / pow10 (length fr)))
                   else None
            end
        | _ => None
        end
      else None
  | _, _ => None
  end.

(* the optional fraction group and what follows it *)
Definition split_frac (r1 : str) : option str * str :=
  match r1 with
  | 46 :: r2 => match take_while is_digit r2 with
                | [] => (None, r1)           (* the fraction group does not match: metric must start here *)
                | f => (Some f, drop_while is_digit r2)
                end
  | _ => (None, r1)
  end.

(* (h|m|s|ms|f|t)$ : microseconds per unit as unit/div; None inside = the tick metric *)
Definition metric_conv (metric : str) : option (option (Z * Z)) :=
  if str_eqb metric (lit "h") then Some (Some (3600000000, 1))
  else if str_eqb metric (lit "m") then Some (Some (60000000, 1))
  else if str_eqb metric (lit "s") then Some (Some (1000000, 1))
  else if str_eqb metric (lit "ms") then Some (Some (1000, 1))
  else if str_eqb metric (lit "f") then Some (Some (1000000, 30))
  else if str_eqb metric (lit "t") then Some None
  else None.

(* value = Fraction(time_count) = (ip*10^k + fp) / 10^k ; int(value * unit) *)
Definition dfxp_offset (s : str) : option (result Z) :=
  let d1 := take_while is_digit s in
  let '(fr, metric) := split_frac (drop_while is_digit s) in
  match d1 with
  | [] => None
  | _ =>
    let value : result (Z * Z) :=      (* numerator, denominator *)
      do ip <- py_int d1;
      match fr with
      | None => Ok (ip, 1)
      | Some f => do fp <- py_int f; Ok (ip * pow10 (length f) + fp, pow10 (length f))
      end in
    match metric_conv metric with
    | None => None
    | Some None => Some (do v <- value; Err ENotImplemented)
    | Some (Some (unit, div)) => Some (do v <- value; Ok (fst v * unit / (snd v * div)))
    end
  end.

Definition dfxp_time_strict (s : str) : result Z :=
  match dfxp_clock s with
  | Some r => r
  | None => match dfxp_offset s with Some r => r | None => Err ETiming end
  end.

(* `$` also matches just before one final newline *)
Definition chop_final_newline (s : str) : str :=
  match rev s with 10 :: r => rev r | _ => s end.

Definition dfxp_time (s : str) : result Z :=
  match dfxp_time_strict s with
  | Err ETiming => dfxp_time_strict (chop_final_newline s)
  | r => r
  end.

(* _find_and_convert_times on the begin / end / dur attributes of a <p> *)
Definition truthy (o : option str) : option str :=
  match o with Some (c :: s) => Some (c :: s) | _ => None end.

Definition dfxp_p_times (b e d : option str) : result (Z * Z) :=
  match truthy b with
  | None => Err ETiming
  | Some b =>
      match truthy e, truthy d with
      | None, None => Err ETiming
      | Some e, _ => do st <- dfxp_time b; do en <- dfxp_time e; Ok (st, en)
      | None, Some d => do st <- dfxp_time b; do du <- dfxp_time d; Ok (st, st + du)
      end
  end.

(* a <div>: the <p> elements with visible text, in order *)
Definition dfxp_div_times (ps : list (option str * option str * option str)) : result (list (Z * Z)) :=
  res_map (fun p => let '(b, e, d) := p in dfxp_p_times b e d) ps.

(* ---- decimal literals as float() and Fraction() read them ------------------------------------
   [blanks] [+|-] ( digits [ '.' digits* ] | '.' digits ) [ (e|E) [+|-] digits ] [blanks]   -> (numerator, denominator)
   exact value (underscores between digits, inf and nan are not modelled) *)
Definition dec_literal (s0 : str) : option (Z * Z) :=
  let s := strip s0 in
  let '(neg, s1) := match s with 43 :: r => (false, r) | 45 :: r => (true, r) | _ => (false, s) end in
  let ip := take_while is_digit s1 in
  let r1 := drop_while is_digit s1 in
  let '(fp, r2) := match r1 with
                   | 46 :: r => (take_while is_digit r, drop_while is_digit r)
                   | _ => ([], r1)
                   end in
  match ip ++ fp with
  | [] => None
  | m =>
    let ex : option Z :=
      match r2 with
      | [] => Some 0
      | e :: r3 =>
          if (e =? 101) || (e =? 69) then
            let '(eneg, r4) := match r3 with 43 :: r => (false, r) | 45 :: r => (true, r) | _ => (false, r3) end in
            match int_of_digits r4 with Some x => Some (if eneg then - x else x) | None => None end
          else None
      end in
    match digits_val_acc m 0, ex with
    | Some mant, Some x =>
        let mant := if neg then - mant else mant in
        let e10 := x - Z.of_nat (length fp) in
        Some (if 0 <=? e10 then (mant * 10 ^ e10, 1) else (mant, 10 ^ (- e10)))
    | _, _ => None
    end
  end.

(* ============================== SAMI ========================================= *)
(* milliseconds = int(float(start_str)): digit strings, else any decimal literal, truncated toward zero
   (exact decimal value; binary64 rounding of float() is not modelled: exact below 2^53) *)
Definition sami_start (o : option str) : result Z :=
  match truthy o with
  | None => Err ETiming
  | Some s =>
      match py_int s with
      | Ok z => Ok z
      | Err _ => match dec_literal s with
                 | Some (n, d) => Ok (Z.quot n d)
                 | None => Err ValueError
                 end
      end
  end.

(* for i in reversed(range(len(captions))):
       if captions[i].end != 0: break
       if captions[i].start != start: captions[i].end = start
   rcaps = captions, most recent first *)
Fixpoint backfill (start : Z) (rcaps : list (Z * Z)) : list (Z * Z) :=
  match rcaps with
  | [] => []
  | (s, e) :: t =>
      if negb (e =? 0) then rcaps
      else (if negb (s =? start) then (s, start) else (s, e)) :: backfill start t
  end.

(* ps = the <p> elements selected for the language: (sync start in ms, has visible text) *)
Fixpoint sami_loop (ps : list (Z * bool)) (rcaps : list (Z * Z)) (ms_last : Z) : list (Z * Z) * Z :=
  match ps with
  | [] => (rcaps, ms_last)
  | (ms, txt) :: rest =>
      let start := ms * 1000 in
      let rc := backfill start rcaps in
      sami_loop rest (if txt then (start, 0) :: rc else rc) ms
  end.

Definition sami_translate (ps : list (Z * bool)) : list (Z * Z) :=
  let '(rc, ms) := sami_loop ps [] 0 in
  rev (match rc with
       | (s, e) :: t => if e =? 0 then (s, (ms + 4000) * 1000) :: t else rc
       | [] => []
       end).

(* from the strings: the first bad start raises *)
Definition sami_translate_str (ps : list (option str * bool)) : result (list (Z * Z)) :=
  do l <- res_map (fun p => do ms <- sami_start (fst p); Ok (ms, snd p)) ps;
  Ok (sami_translate l).

(* ============================== MicroDVD ===================================== *)
(* re.match of the line pattern  {(\d+)}{(\d+)}(. * )  (prefix match) *)
Definition mdvd_line (line : str) : option (str * str * str) :=
  match line with
  | 123 :: r =>
      match take_while is_digit r, drop_while is_digit r with
      | (_ :: _) as d1, 125 :: 123 :: r2 =>
          match take_while is_digit r2, drop_while is_digit r2 with
          | (_ :: _) as d2, 125 :: txt => Some (d1, d2, txt)
          | _, _ => None
          end
      | _, _ => None
      end
  | _ => None
  end.

(* float(txt); Fraction(txt.strip()): first the plain literals  digits [ '.' digits ] : (num, den) *)
Definition mdvd_fps_plain (txt : str) : result (Z * Z) :=
  let t := strip txt in
  let d1 := take_while is_digit t in
  match d1, drop_while is_digit t with
  | _ :: _, [] => do n <- py_int d1; Ok (n, 1)
  | _ :: _, [46] => do n <- py_int d1; Ok (n, 1)
  | _ :: _, 46 :: f =>
      if all_digits f then do n <- py_int d1; do fp <- py_int f;
                           Ok (n * pow10 (length f) + fp, pow10 (length f))
      else Err ETiming
  | _, _ => Err ETiming
  end.

(* ... then every other decimal literal (sign, leading '.', exponent, surrounding blanks) *)
Definition mdvd_fps (txt : str) : result (Z * Z) :=
  match mdvd_fps_plain txt with
  | Ok v => Ok v
  | Err _ => match dec_literal txt with
             | Some (n, d) => if n <? 0 then Err ETiming (* negative rates: not modelled *) else Ok (n, d)
             | None => Err ETiming
             end
  end.

(* int(framenum * 10**6 / Fraction(fps)) *)
Definition frames_to_micro (n : Z) (fps : Z * Z) : result Z :=
  if fst fps =? 0 then Err OtherError          (* ZeroDivisionError *)
  else Ok (n * 1000000 * snd fps / fst fps).

Definition mdvd_keep (txt : str) : list str :=
  filter (fun l => negb (str_eqb l [])) (split_ch 124 txt).

Fixpoint mdvd_loop (lines : list str) (fps : Z * Z) (acc : list rcap) : result (list rcap) :=
  match lines with
  | [] => Ok acc
  | l :: t =>
      match l with
      | [] => mdvd_loop t fps acc
      | _ =>
        match mdvd_line l with
        | None => Err ESyntax
        | Some (a, b, txt) =>
            if str_eqb a (lit "0") && str_eqb b (lit "0") then
              do f <- mdvd_fps txt; mdvd_loop t f acc
            else
              do na <- py_int a; do st <- frames_to_micro na fps;
              do nb <- py_int b; do en <- frames_to_micro nb fps;
              match mdvd_keep txt with
              | [] => mdvd_loop t fps acc
              | ls => mdvd_loop t fps (acc ++ [(st, en, ls)])
              end
        end
      end
  end.

Definition mdvd_read (content : str) : result (list rcap) :=
  no_captions_if_empty (mdvd_loop (split_lines content) (25, 1) []).

(* ---- pre-fix variant, kept on record (not used by the oracle) ------------------------------ *)
(* before `fix: DFXP clock-time fraction with more than 3 digits was scaled as milliseconds`:
   int(sub_frames.ljust(3, '0')) * 1000 *)
Definition dfxp_fraction_unfixed (fr : str) : result Z :=
  do n <- py_int (ljust 3 48 fr); Ok (n * 1000).
