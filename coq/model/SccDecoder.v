(* Model of the SCC (CEA-608) decoder of pycaption (C05 C06 C15 C16). Definitions only.
     pycaption/scc/__init__.py            SCCReader (_translate_word, _handle_double_command, _translate_command,
                                          _translate_characters/_special_char/_extended_char, _roll_up, _pop_on,
                                          _flush_implicit_buffers, read)
     pycaption/scc/state_machines.py      DefaultProvidingPositionTracker
     pycaption/scc/specialized_collections.py   InstructionNodeCreator, _format_italics (7 passes), CaptionCreator
   A stream is a list of lines (timecode string, code words); a code word 'abcd' is the integer 0xabcd.
   The line splitting (regex, split(" "), len == 4) is done by the harness on the text it generated itself.
   `simulate_roll_up` is False (the default). Python-level crashes are recorded in r_err. *)
From Coq Require Import List ZArith QArith Bool.
From PV Require Import lib.Sx lib.Str lib.Result model.GenScc model.SccLen model.SccTime model.SccStash.
Import ListNotations.
Open Scope Z_scope.

(* ---- table lookups ------------------------------------------------------------------------ *)
Definition memz (w : Z) (l : list Z) : bool := existsb (Z.eqb w) l.
Fixpoint assocz {A} (w : Z) (l : list (Z * A)) : option A :=
  match l with
  | [] => None
  | (k, v) :: t => if k =? w then Some v else assocz w t
  end.

Definition hi (w : Z) : Z := w / 256.
Definition lo (w : Z) : Z := w mod 256.

Definition is_command (w : Z) : bool := memz w scc_commands.
Definition pac_pos (w : Z) : option pos := assocz w scc_pac.
Definition is_pac (w : Z) : bool := match pac_pos w with Some _ => true | None => false end.
Definition special_of (w : Z) : option str := assocz w scc_special_chars.
Definition extended_of (w : Z) : option str := assocz w scc_extended_chars.
Definition char_of (b : Z) : option str := assocz b scc_characters.
Definition tab_of (w : Z) : option Z := assocz w scc_tab_offsets.
Definition is_cue_start (w : Z) : bool := memz w scc_cue_starting_commands.

Definition w_rcl := 37920.  (* 9420 *)   Definition w_bs := 38049.   (* 94a1 *)
Definition w_ru2 := 37925.  (* 9425 *)   Definition w_ru3 := 37926.  (* 9426 *)
Definition w_ru4 := 38055.  (* 94a7 *)   Definition w_rdc := 37929.  (* 9429 *)
Definition w_edm := 37932.  (* 942c *)   Definition w_cr := 38061.   (* 94ad *)
Definition w_enm := 38062.  (* 94ae *)   Definition w_eoc := 37935.  (* 942f *)

(* ---- position tracker --------------------------------------------------------------------- *)
(* tk_pos = [] stands for the initial `_positions = [None]`; tk_break = Some c stands for
   `_break_required = True, _last_column = c` *)
Record tracker : Type := mkTk { tk_pos : list pos; tk_break : option Z; tk_repos : bool; tk_default : pos }.
Definition tracker0 : tracker := mkTk [] None false (14, 0).

Definition pos_eqb (a b : pos) : bool := (fst a =? fst b) && (snd a =? snd b).

(* DefaultProvidingPositionTracker.update_positioning(positioning) *)
Definition tracker_update (t : tracker) (p : pos) : tracker :=
  let t := mkTk (tk_pos t) (tk_break t) (tk_repos t) p in
  match last (map Some (tk_pos t)) None with
  | None => mkTk [p] (tk_break t) (tk_repos t) (tk_default t)
  | Some (row, col0) =>
      let col := match tk_break t with Some lc => lc | None => col0 end in
      let '(new_row, new_col) := p in
      let is_tab := (new_row =? row) && (col + 1 <=? new_col) && (new_col <=? col + 3) in
      if new_row =? row + 1 then
        mkTk (tk_pos t ++ [(new_row, col)]) (Some new_col) (tk_repos t) (tk_default t)
      else if (match tk_break t with Some _ => true | None => false end) && is_tab then t
      else if pos_eqb p (row, col0) then t
      else mkTk [p] (tk_break t) (if is_tab then tk_repos t else true) (tk_default t)
  end.

Definition current_position (t : tracker) : pos :=
  match tk_pos t with p :: _ => p | [] => tk_default t end.
Definition break_required (t : tracker) : bool := match tk_break t with Some _ => true | None => false end.
Definition ack_break (t : tracker) : tracker := mkTk (tk_pos t) None (tk_repos t) (tk_default t).
Definition ack_repos (t : tracker) : tracker := mkTk (tk_pos t) (tk_break t) false (tk_default t).
(* _PositioningTracker.reset(): forget the rows addressed so far, keep the default position (fix #22) *)
Definition tracker_reset (t : tracker) : tracker := mkTk [] None false (tk_default t).

(* ---- instruction nodes and the node creator ------------------------------------------------- *)
Inductive ikind : Type := IText | IBreak | IItalOn | IItalOff | IRepos.
Record inode : Type := mkI { i_kind : ikind; i_text : str; i_pos : pos }.   (* text None and "" coincide *)

Definition is_text (n : inode) : bool := match i_kind n with IText => true | _ => false end.
Definition is_break (n : inode) : bool := match i_kind n with IBreak => true | _ => false end.
Definition is_on (n : inode) : bool := match i_kind n with IItalOn => true | _ => false end.
Definition is_off (n : inode) : bool := match i_kind n with IItalOff => true | _ => false end.
Definition is_repos (n : inode) : bool := match i_kind n with IRepos => true | _ => false end.
Definition nonempty (s : str) : bool := match s with [] => false | _ => true end.

Inductive istyle : Type := SNone | SOn | SOff.
Record creator : Type := mkCr { cr_nodes : list inode; cr_style : istyle }.
Definition creator0 : creator := mkCr [] SNone.

Definition cr_is_empty (c : creator) : bool := negb (existsb (fun n => nonempty (i_text n)) (cr_nodes c)).

Fixpoint map_last {A} (f : A -> A) (l : list A) : list A :=
  match l with
  | [] => []
  | [x] => [f x]
  | x :: t => x :: map_last f t
  end.
Definition add_text (s : str) (n : inode) : inode := mkI (i_kind n) (i_text n ++ s) (i_pos n).

(* InstructionNodeCreator.add_chars( *chars ), s = "".join(chars) *)
Definition add_chars (t : tracker) (c : creator) (s : str) : tracker * creator :=
  let cur := current_position t in
  let reuse := match last (map Some (cr_nodes c)) None with
               | Some n => is_text n && negb (tk_repos t)
               | None => false
               end in
  let nodes1 := if reuse then cr_nodes c else cr_nodes c ++ [mkI IText [] cur] in
  let '(t', nodes2) :=
    if break_required t then (ack_repos (ack_break t), nodes1 ++ [mkI IBreak [] cur; mkI IText [] cur])
    else if tk_repos t then (ack_repos t, nodes1 ++ [mkI IRepos [] cur; mkI IText [] cur])
    else (t, nodes1) in
  (t', mkCr (map_last (add_text s) nodes2) (cr_style c)).

(* apply f to the text of the last text node with non-empty text (get_previous_text_node) *)
Fixpoint upd_prev_text_rev (f : str -> str) (r : list inode) : list inode :=
  match r with
  | [] => []
  | n :: t => if is_text n && nonempty (i_text n) then mkI (i_kind n) (f (i_text n)) (i_pos n) :: t
              else n :: upd_prev_text_rev f t
  end.
Definition upd_prev_text (f : str -> str) (l : list inode) : list inode := rev (upd_prev_text_rev f (rev l)).

(* the text of that node, and whether an explicit break occurs at or after it *)
Fixpoint prev_text_rev (r : list inode) (break_seen : bool) : option (str * bool) :=
  match r with
  | [] => None
  | n :: t => if is_text n && nonempty (i_text n) then Some (i_text n, break_seen)
              else prev_text_rev t (break_seen || is_break n)
  end.
Definition prev_text (l : list inode) : option (str * bool) := prev_text_rev (rev l) false.

Definition last_char (s : str) : Z := last s 0.
Definition drop_last (s : str) : str := removelast s.

Definition is_extended_value (c : Z) : bool := existsb (fun kv => str_eqb (snd kv) [c]) scc_extended_chars.

(* handle_backspace(word) *)
Definition handle_backspace (w : Z) (c : creator) : creator :=
  match prev_text (cr_nodes c) with
  | None => c
  | Some (txt, _) =>
      let is_ext := match extended_of w with Some _ => true | None => false end in
      if (is_ext && negb (is_extended_value (last_char txt))) || (w =? w_bs)
      then mkCr (upd_prev_text drop_last (cr_nodes c)) (cr_style c)
      else c
  end.

(* has_break_before(collection) *)
Fixpoint has_break_before_rev (r : list inode) : bool :=
  match r with
  | [] => false
  | n :: t => if is_text n then false else if is_break n then true else has_break_before_rev t
  end.
Definition has_break_before (l : list inode) : bool := has_break_before_rev (rev l).

(* _update_positioning(command) *)
Definition update_positioning (t : tracker) (c : creator) (w : Z) : tracker :=
  match tab_of w with
  | Some off =>
      let p := (fst (tk_default t), snd (tk_default t) + off) in
      if has_break_before (cr_nodes c) then t else tracker_update t p
  | None =>
      match pac_pos w with
      | Some p =>
          (* the first preamble address code of an empty memory resets the tracker (second part of fix #22) *)
          tracker_update (match cr_nodes c with [] => tracker_reset t | _ => t end) p
      | None => t
      end
  end.

Definition is_punct_hi (b : Z) : bool := (b =? 174) || (b =? 161) || (b =? 191) || (b =? 44).   (* ae a1 bf 2c *)

(* interpret_command(command, next_command); the error is the IndexError of text[-1] on an empty text node *)
Definition interpret_command (t : tracker) (c : creator) (w : Z) (next : option Z)
  : tracker * creator * option err :=
  let t := update_positioning t c w in
  let c := if w =? w_bs then handle_backspace w_bs c else c in
  let '(c, e) :=
    if memz w scc_background_color_codes then
      match last (map Some (cr_nodes c)) None with
      | Some n =>
          if is_text n then
            match i_text n with
            | [] => (c, Some IndexError)
            | txt => if is_space (last_char txt)
                     then (mkCr (map_last (fun n => mkI (i_kind n) (drop_last (i_text n)) (i_pos n)) (cr_nodes c))
                                (cr_style c), None)
                     else (c, None)
            end
          else (c, None)
      | None => (c, None)
      end
    else (c, None) in
  let '(t, c) :=
    if memz w scc_style_setting_commands then
      let cur := current_position t in
      if memz w scc_italics_commands then
        match cr_style c with
        | SOn => (t, c)
        | _ =>
            let '(t1, nodes1) := if break_required t then (ack_break t, cr_nodes c ++ [mkI IBreak [] cur])
                                 else (t, cr_nodes c) in
            (t1, mkCr (nodes1 ++ [mkI IItalOn [] cur]) SOn)
        end
      else
        match cr_style c with
        | SOn =>
            let nodes1 := cr_nodes c ++ [mkI IItalOff [] cur] in
            if break_required t then (ack_break t, mkCr (nodes1 ++ [mkI IBreak [] cur]) SOff)
            else (t, mkCr nodes1 SOff)
        | _ => (t, c)
        end
    else (t, c) in
  let next_is_punct := match next with Some nw => is_punct_hi (hi nw) | None => false end in
  let '(t, c) :=
    match prev_text (cr_nodes c) with
    | Some (txt, brk) =>
        if memz w scc_mid_row_codes && negb brk && negb (is_space (last_char txt))
           && negb (match tab_of w with Some _ => true | None => false end) && negb next_is_punct
        then match cr_style c with
             | SOff => add_chars t c [32]
             | _ => (t, mkCr (upd_prev_text (fun s => s ++ [32]) (cr_nodes c)) (cr_style c))
             end
        else (t, c)
    | None => (t, c)
    end in
  (t, c, e).

(* ---- _format_italics: the seven passes ------------------------------------------------------ *)
Fixpoint skip_initial_off (l : list inode) (can_add : bool) : list inode :=
  match l with
  | [] => []
  | n :: t => if is_on n then n :: skip_initial_off t true
              else if is_off n then (if can_add then n :: skip_initial_off t can_add else skip_initial_off t can_add)
              else n :: skip_initial_off t can_add
  end.

Definition skip_empty_text (l : list inode) : list inode :=
  filter (fun n => negb (is_text n && negb (nonempty (i_text n)))) l.

Fixpoint skip_redundant (l : list inode) (state : option bool) : list inode :=
  match l with
  | [] => []
  | n :: t =>
      if is_on n || is_off n then
        match state with
        | None => if is_on n then n :: skip_redundant t (Some true) else skip_redundant t (Some false)
        | Some st => if Bool.eqb (is_on n) st then skip_redundant t state
                     else n :: skip_redundant t (Some (is_on n))
        end
      else n :: skip_redundant t state
  end.

(* on_pos = position of the last italics-on node while italics are on *)
Fixpoint close_before_repos (l : list inode) (on_pos : option pos) : list inode :=
  match l with
  | [] => []
  | n :: t =>
      if is_on n then n :: close_before_repos t (Some (i_pos n))
      else if is_off n then n :: close_before_repos t None
      else if is_repos n then
        match on_pos with
        | Some p => mkI IItalOff [] p :: n :: mkI IItalOn [] (i_pos n) :: close_before_repos t on_pos
        | None => n :: close_before_repos t None
        end
      else n :: close_before_repos t on_pos
  end.

Fixpoint final_on_pos (l : list inode) (on_pos : option pos) : option pos :=
  match l with
  | [] => on_pos
  | n :: t => if is_on n then final_on_pos t (Some (i_pos n))
              else if is_off n then final_on_pos t None
              else final_on_pos t on_pos
  end.
Definition ensure_final_closes (l : list inode) : list inode :=
  match final_on_pos l None with Some p => l ++ [mkI IItalOff [] p] | None => l end.

Fixpoint remove_on_off (l : list inode) (pending : option inode) : list inode :=
  match l with
  | [] => []
  | n :: t =>
      if is_on n then remove_on_off t (Some n)
      else if is_off n then
        match pending with
        | Some _ => remove_on_off t None
        | None => n :: remove_on_off t None
        end
      else match pending with
           | Some p => p :: n :: remove_on_off t None
           | None => n :: remove_on_off t None
           end
  end.

Fixpoint remove_off_on (l : list inode) (pending : option inode) : list inode :=
  match l with
  | [] => match pending with Some p => [p] | None => [] end
  | n :: t =>
      if is_off n then remove_off_on t (Some n)
      else if is_on n then
        match pending with
        | Some _ => remove_off_on t None
        | None => n :: remove_off_on t None
        end
      else match pending with
           | Some p => p :: n :: remove_off_on t None
           | None => n :: remove_off_on t None
           end
  end.

Definition rstrip_node (n : inode) : inode := mkI (i_kind n) (rstrip (i_text n)) (i_pos n).

(* _remove_spaces_at_end_of_the_line: the text node in front of a BREAK, of a REPOSITION or of the end of the list loses
   its trailing whitespace, also when italics nodes stand in between (each text node looks at the next node that is not
   an italics node) *)
Fixpoint next_plain_is_sep (l : list inode) : bool :=
  match l with
  | [] => true
  | m :: t => if is_on m || is_off m then next_plain_is_sep t else is_break m || is_repos m
  end.
Fixpoint strip_line_ends (l : list inode) : list inode :=
  match l with
  | [] => []
  | n :: t => (if is_text n && next_plain_is_sep t then rstrip_node n else n) :: strip_line_ends t
  end.

Definition format_italics (l : list inode) : list inode :=
  let l := skip_initial_off l false in
  let l := skip_empty_text l in
  let l := skip_redundant l None in
  let l := close_before_repos l None in
  let l := ensure_final_closes l in
  let l := remove_off_on (remove_on_off l None) None in
  strip_line_ends l.

(* ---- CaptionCreator.create_and_store ---------------------------------------------------------- *)
Definition add_node (c : precap) (n : cnode) : precap := mkPre (pc_start c) (pc_end c) (pc_nodes c ++ [n]) (pc_layout c).

(* state: (finished captions, current caption) *)
Fixpoint build_captions (l : list inode) (start e : Q) (done : list precap) (cur : precap) : list precap :=
  match l with
  | [] => done ++ [cur]
  | n :: t =>
      match i_kind n with
      | IText =>
          if nonempty (i_text n)
          then build_captions t start e done
                 (mkPre (pc_start cur) (pc_end cur) (pc_nodes cur ++ [CText (i_text n) (i_pos n)]) (Some (i_pos n)))
          else build_captions t start e done cur
      | IRepos => build_captions t start e (done ++ [cur]) (mkPre start e [] None)
      | IBreak => build_captions t start e done (add_node cur (CBreak (i_pos n)))
      | IItalOn => build_captions t start e done (add_node cur (CStyle true (i_pos n)))
      | IItalOff => build_captions t start e done (add_node cur (CStyle false (i_pos n)))
      end
  end.

Definition create_and_store (s : stash) (c : creator) (start e : Q) : stash :=
  if cr_is_empty c then s
  else stash_extend s (build_captions (format_italics (cr_nodes c)) start e [] (mkPre start e [] None)).

(* ---- the reader -------------------------------------------------------------------------------- *)
Inductive mode : Type := MPop | MPaint | MRoll.
Definition mode_eqb (a b : mode) : bool :=
  match a, b with MPop, MPop | MPaint, MPaint | MRoll, MRoll => true | _, _ => false end.

(* last_command: "", a word, or "<pac> <tab offset>" *)
Inductive lastcmd : Type := LNone | LWord (w : Z) | LPacTo (p t : Z).

Record rstate : Type := mkR {
  r_stash : stash; r_tk : tracker; r_last : lastcmd; r_dstart : bool;
  r_pop : creator; r_paint : creator; r_roll : creator; r_active : mode;
  r_queue : option (creator * Q);          (* pop_ons_queue: at most one PopOnCue (buffer, start) *)
  r_time : Q;                               (* self.time *)
  r_tc : str; r_frames : Z; r_offset : Q;   (* the time translator *)
  r_err : option err }.

Definition rstate0 (offset_us : Q) : rstate :=
  mkR stash0 tracker0 LNone false creator0 creator0 creator0 MPop None 0 (lit "00:00:00;00") 0 offset_us None.

Definition buf (s : rstate) : creator :=
  match r_active s with MPop => r_pop s | MPaint => r_paint s | MRoll => r_roll s end.

Definition set_buf (s : rstate) (c : creator) : rstate :=
  match r_active s with
  | MPop => mkR (r_stash s) (r_tk s) (r_last s) (r_dstart s) c (r_paint s) (r_roll s) (r_active s) (r_queue s)
                (r_time s) (r_tc s) (r_frames s) (r_offset s) (r_err s)
  | MPaint => mkR (r_stash s) (r_tk s) (r_last s) (r_dstart s) (r_pop s) c (r_roll s) (r_active s) (r_queue s)
                  (r_time s) (r_tc s) (r_frames s) (r_offset s) (r_err s)
  | MRoll => mkR (r_stash s) (r_tk s) (r_last s) (r_dstart s) (r_pop s) (r_paint s) c (r_active s) (r_queue s)
                 (r_time s) (r_tc s) (r_frames s) (r_offset s) (r_err s)
  end.
Definition set_stash (s : rstate) (x : stash) : rstate :=
  mkR x (r_tk s) (r_last s) (r_dstart s) (r_pop s) (r_paint s) (r_roll s) (r_active s) (r_queue s)
      (r_time s) (r_tc s) (r_frames s) (r_offset s) (r_err s).
Definition set_tk (s : rstate) (x : tracker) : rstate :=
  mkR (r_stash s) x (r_last s) (r_dstart s) (r_pop s) (r_paint s) (r_roll s) (r_active s) (r_queue s)
      (r_time s) (r_tc s) (r_frames s) (r_offset s) (r_err s).
Definition set_dbl (s : rstate) (l : lastcmd) (d : bool) : rstate :=
  mkR (r_stash s) (r_tk s) l d (r_pop s) (r_paint s) (r_roll s) (r_active s) (r_queue s)
      (r_time s) (r_tc s) (r_frames s) (r_offset s) (r_err s).
Definition set_active (s : rstate) (m : mode) : rstate :=
  mkR (r_stash s) (r_tk s) (r_last s) (r_dstart s) (r_pop s) (r_paint s) (r_roll s) m (r_queue s)
      (r_time s) (r_tc s) (r_frames s) (r_offset s) (r_err s).
Definition set_queue (s : rstate) (q : option (creator * Q)) : rstate :=
  mkR (r_stash s) (r_tk s) (r_last s) (r_dstart s) (r_pop s) (r_paint s) (r_roll s) (r_active s) q
      (r_time s) (r_tc s) (r_frames s) (r_offset s) (r_err s).
Definition set_time (s : rstate) (t : Q) : rstate :=
  mkR (r_stash s) (r_tk s) (r_last s) (r_dstart s) (r_pop s) (r_paint s) (r_roll s) (r_active s) (r_queue s)
      t (r_tc s) (r_frames s) (r_offset s) (r_err s).
Definition set_clock (s : rstate) (tc : str) (f : Z) : rstate :=
  mkR (r_stash s) (r_tk s) (r_last s) (r_dstart s) (r_pop s) (r_paint s) (r_roll s) (r_active s) (r_queue s)
      (r_time s) tc f (r_offset s) (r_err s).
Definition set_err (s : rstate) (e : err) : rstate :=
  mkR (r_stash s) (r_tk s) (r_last s) (r_dstart s) (r_pop s) (r_paint s) (r_roll s) (r_active s) (r_queue s)
      (r_time s) (r_tc s) (r_frames s) (r_offset s) (Some e).

(* self.time_translator.get_time(), continuing with k on success *)
Definition with_time (s : rstate) (k : Q -> rstate) : rstate :=
  match get_time (r_tc s) (r_frames s) (r_offset s) with
  | Ok t => k t
  | Err e => set_err s e
  end.

Definition store (s : rstate) (c : creator) (start e : Q) : rstate :=
  set_stash s (create_and_store (r_stash s) c start e).

(* _pop_on(end) *)
Definition pop_on (s : rstate) (e : Q) : rstate :=
  match r_queue s with
  | Some (c, start) => store (set_queue s None) c start e
  | None => set_err s IndexError
  end.

(* _roll_up() with simulate_roll_up = False *)
Definition roll_up (s : rstate) : rstate :=
  let s := set_buf (store s (buf s) (r_time s) 0) creator0 in
  with_time s (fun t => set_stash (set_time s t) (correct_last_timing (r_stash s) t)).

(* _flush_implicit_buffers(old_key): called while old_key is still the active key *)
Definition flush_implicit (s : rstate) : rstate :=
  match r_active s with
  | MPop => match r_queue s with Some _ => pop_on s 0 | None => s end
  | MRoll => if cr_is_empty (buf s) then s else roll_up s
  | MPaint => if cr_is_empty (buf s) then s else set_buf (store s (buf s) (r_time s) 0) creator0
  end.

(* buffer_dict.set_active(key) *)
Definition activate (s : rstate) (m : mode) : rstate :=
  if mode_eqb m (r_active s) then s else set_active (flush_implicit s) m.

(* flush a non-empty active buffer as a caption starting at self.time *)
Definition flush_buffer (s : rstate) : rstate :=
  if cr_is_empty (buf s) then s else set_buf (store s (buf s) (r_time s) 0) creator0.

Definition do_interpret (s : rstate) (w : Z) (next : option Z) : rstate :=
  let '(t, c, e) := interpret_command (r_tk s) (buf s) w next in
  let s := set_buf (set_tk s t) c in
  match e with Some x => set_err s x | None => s end.

(* _translate_command *)
Definition translate_command (s : rstate) (w : Z) (next : option Z) : rstate :=
  if w =? w_rcl then activate s MPop
  else if w =? w_rdc then
    let s := flush_buffer (activate s MPaint) in
    if (match r_err s with Some _ => true | None => false end) then s else with_time s (fun t => set_time s t)
  else if (w =? w_ru2) || (w =? w_ru3) || (w =? w_ru4) then
    let s := flush_buffer (activate s MRoll) in
    if (match r_err s with Some _ => true | None => false end) then s else with_time s (fun t => set_time s t)
  else if w =? w_enm then set_tk (set_buf s creator0) (tracker_reset (r_tk s))
  else if w =? w_eoc then
    with_time s (fun t =>
      let s := set_time s t in
      let s := match r_queue s with Some _ => pop_on s t | None => s end in
      if cr_is_empty (buf s) then s
      else set_buf (set_queue s (Some (buf s, t))) creator0)
  else if w =? w_cr then (if cr_is_empty (buf s) then s else roll_up s)
  else if (w =? w_edm) && (match r_queue s with Some _ => true | None => false end) then
    with_time s (fun t => pop_on s t)
  else do_interpret s w next.

Definition add_to_buf (s : rstate) (txt : str) : rstate :=
  let '(t, c) := add_chars (r_tk s) (buf s) txt in set_buf (set_tk s t) c.

(* _handle_double_command: (skip?, state with last_command / double_starter updated) *)
Definition last_is (l : lastcmd) (w : Z) : bool := match l with LWord x => x =? w | _ => false end.
Definition last_contains (l : lastcmd) (w : Z) : bool :=
  match l with LNone => false | LWord x => x =? w | LPacTo p t => (p =? w) || (t =? w) end.

Definition handle_double (s : rstate) (w : Z) : bool * rstate :=
  let isspecial := match special_of w with Some _ => true | None => false end in
  let isext := match extended_of w with Some _ => true | None => false end in
  (* every repeated control code pair counts once (backspace is a command); double_starter is still maintained by the
     code but no longer consulted *)
  let doubled := is_command w || is_pac w || isspecial || isext in
  let ds := if is_cue_start w && negb (last_is (r_last s) w) then false else r_dstart s in
  if doubled && last_is (r_last s) w then
    (true, set_dbl s LNone (if is_cue_start w then true else ds))
  else if is_pac w && last_contains (r_last s) w then (true, set_dbl s LNone ds)
  else match tab_of w with
       | Some _ =>
           match r_last s with
           | LWord p => if is_pac p then (false, set_dbl s (LPacTo p w) ds) else (true, set_dbl s (r_last s) ds)
           | _ => (true, set_dbl s (r_last s) ds)
           end
       | None => (false, set_dbl s (LWord w) ds)
       end.

Definition bump (s : rstate) : rstate := set_clock s (r_tc s) (r_frames s + 1).

(* _translate_word(word, next_command) *)
Definition translate_word (s : rstate) (w : Z) (next : option Z) : rstate :=
  match r_err s with
  | Some _ => s
  | None =>
      let '(skip, s) := handle_double s w in
      if skip then bump s
      else
        let s :=
          if is_command w || is_pac w then translate_command s w next
          else match special_of w with
               | Some txt => add_to_buf s txt
               | None =>
                   match extended_of w with
                   | Some txt => add_to_buf (set_buf s (handle_backspace w (buf s))) txt
                   | None =>
                       match char_of (hi w), char_of (lo w) with
                       | Some a, Some b => add_to_buf s (a ++ b)
                       | _, _ => s
                       end
                   end
               end in
        match r_err s with Some _ => s | None => bump s end
  end.

Fixpoint translate_words (s : rstate) (ws : list Z) : rstate :=
  match ws with
  | [] => s
  | w :: t => translate_words (translate_word s w (match t with n :: _ => Some n | [] => None end)) t
  end.

Definition sline : Type := (str * list Z)%type.

Definition translate_line (s : rstate) (l : sline) : rstate :=
  match r_err s with
  | Some _ => s
  | None => translate_words (set_clock s (fst l) 0) (snd l)
  end.

Definition run_lines (offset_us : Q) (ls : list sline) : rstate :=
  let s := fold_left translate_line ls (rstate0 offset_us) in
  match r_err s with Some _ => s | None => flush_implicit s end.

(* SCCReader().read(content, offset=...) on the parsed lines *)
Definition read (offset_us : Q) (ls : list sline) : read_result :=
  let s := run_lines offset_us ls in
  match r_err s with
  | Some e => RErr e
  | None => finish_read (r_stash s)
  end.
