(* C20, sentence 2, FROM THE TEXT NODES (wave 7): executable models of the three writers that are string builders,
   starting from caption sets (languages -> captions -> nodes), not from emitted pieces.
     SRTWriter.write / _recreate_lang / _recreate_line            pycaption/srt.py
     MicroDVDWriter.write / _microtoframes / _recreate_lang       pycaption/microdvd.py
     WebVTTWriter.write / _timestamp / _convert_caption / _group_cues_by_layout / _encode_illegal_characters
                                                                   pycaption/webvtt.py
     Caption._format_timestamp                                    pycaption/base.py
   Domain of the models (the harness counts what it excludes): start / end are Python ints (microseconds, any sign for
   SRT and WebVTT, non-negative and below 2^50 for MicroDVD, whose frame number goes through a binary64 product);
   for WebVTT no layout on nodes / captions / languages, empty Caption.style, style nodes without 'class(es)'.
   Shortcuts that are not line-by-line copies (tied by execution on every generated set, request 2003):
     * MicroDVD: after re.sub the content has no '\n'; `strip() + '\n'`, `while '\n\n' in ..` (never true) and
       `while '|\n' in ..: replace('|\n', '\n')` (removes the trailing '|'s one at a time) are written as
       rstrip('|') of the stripped content;
     * WebVTT: the two single-character replaces '&' -> '&amp;', '<' -> '&lt;' are one character map.
   Definitions only. *)
From Coq Require Import List ZArith Bool.
From PV Require Import lib.Sx lib.Str lib.Result lib.Dec.
Import ListNotations.
Open Scope Z_scope.

(* a caption node: text, line break, or a style node (start?, italics, underline, bold after resolution) *)
Inductive onode :=
| OText (s : str)
| OBreak
| OStyle (start italics underline bold : bool).

Record ocap := mk_ocap { oc_start : Z; oc_end : Z; oc_nodes : list onode }.

(* Caption.get_text_nodes(): the caption's text - text nodes as they are, a line break as '\n', style nodes as '' *)
Definition node_text (n : onode) : str :=
  match n with OText s => s | OBreak => [10] | OStyle _ _ _ _ => [] end.
Definition cap_text (c : ocap) : str := flat_map node_text (oc_nodes c).

(* timedelta(microseconds=us): .seconds (days split off), .microseconds // 1000 *)
Definition td_seconds (us : Z) : Z := (us mod 86400000000) / 1000000.
Definition td_millis (us : Z) : Z := (us mod 1000000) / 1000.

(* ---------------------------------------------------------------- SRT *)
(* Caption._format_timestamp(us, ',')[:12] = HH:MM:SS,mmm *)
Definition srt_timestamp (us : Z) : str :=
  let s := td_seconds us in
  two (s / 3600) ++ [58] ++ two ((s mod 3600) / 60) ++ [58] ++ two ((s mod 3600) mod 60) ++ [44] ++ three (td_millis us).
Definition srt_timing (c : ocap) : str :=
  srt_timestamp (oc_start c) ++ lit " --> " ++ srt_timestamp (oc_end c).

(* merged_captions: a caption with the timestamps of the last one is appended to it behind a line break *)
Definition same_span (a b : ocap) : bool := (oc_start a =? oc_start b) && (oc_end a =? oc_end b).
Fixpoint srt_merge_from (last : ocap) (l : list ocap) : list ocap :=
  match l with
  | [] => [last]
  | c :: t =>
      if same_span c last
      then srt_merge_from (mk_ocap (oc_start c) (oc_end c) (oc_nodes last ++ OBreak :: oc_nodes c)) t
      else last :: srt_merge_from c t
  end.
Definition srt_merge (l : list ocap) : list ocap :=
  match l with [] => [] | c :: t => srt_merge_from c t end.

(* new_content.strip(); '\n'.join(line for line in new_content.split('\n') if line.strip()) *)
Definition nonblank (l : str) : bool := match strip l with [] => false | _ => true end.
Definition srt_clean (raw : str) : str := join [10] (filter nonblank (split_ch 10 (strip raw))).
Definition srt_cue (c : ocap) : str * str := (srt_timing c, srt_clean (cap_text c)).

(* count \n timing \n content \n\n ... ; srt[:-1] *)
Fixpoint srt_blocks_w (k : Z) (cues : list (str * str)) : str :=
  match cues with
  | [] => []
  | (tl, txt) :: t => dec_z k ++ [10] ++ tl ++ [10] ++ txt ++ [10; 10] ++ srt_blocks_w (k + 1) t
  end.
Definition srt_lang (caps : list ocap) : str :=
  let s := srt_blocks_w 1 (map srt_cue (srt_merge caps)) in firstn (length s - 1) s.
Definition srt_sep : str := lit "MULTI-LANGUAGE SRT" ++ [10].
Definition srt_write (langs : list (list ocap)) : str := join srt_sep (map srt_lang langs).

(* ---------------------------------------------------------------- MicroDVD *)
(* re.sub('\r\n|\r|\n', '|', content) *)
Fixpoint mdvd_sub (s : str) : str :=
  match s with
  | [] => []
  | c :: t =>
      if c =? 13 then
        124 :: match t with
               | c2 :: t2 => if c2 =? 10 then mdvd_sub t2 else mdvd_sub t
               | [] => []
               end
      else if c =? 10 then 124 :: mdvd_sub t
      else c :: mdvd_sub t
  end.
Definition mdvd_node (n : onode) : str :=
  match n with OText s => mdvd_sub s | OBreak => [124] | OStyle _ _ _ _ => [] end.
Definition mdvd_raw (c : ocap) : str := flat_map mdvd_node (oc_nodes c).
Definition is_bar (c : Z) : bool := c =? 124.
Definition mdvd_clean (raw : str) : str := rstrip_by is_bar (strip raw).
(* int(micro * 25.0 / 10**6) for 0 <= micro < 2^50 *)
Definition mdvd_frame (us : Z) : Z := us / 40000.
Definition mdvd_prefix (c : ocap) : str :=
  [123] ++ dec_z (mdvd_frame (oc_start c)) ++ [125; 123] ++ dec_z (mdvd_frame (oc_end c)) ++ [125].
Definition mdvd_cue (c : ocap) : str * str := (mdvd_prefix c, mdvd_clean (mdvd_raw c)).
Definition mdvd_line (c : ocap) : str := fst (mdvd_cue c) ++ snd (mdvd_cue c) ++ [10].
Definition mdvd_lang (caps : list ocap) : str := concat (map mdvd_line caps).
Definition mdvd_write (langs : list (list ocap)) : str := concat (map mdvd_lang langs).

(* ---------------------------------------------------------------- WebVTT *)
Definition vtt_timestamp (us : Z) : str :=
  let s := td_seconds us in
  let hh := (s / 60) / 60 in
  let rest := two ((s / 60) mod 60) ++ [58] ++ two (s mod 60) ++ [46] ++ three (td_millis us) in
  if hh =? 0 then rest else two hh ++ [58] ++ rest.
Definition vtt_timespan (c : ocap) : str := vtt_timestamp (oc_start c) ++ lit " --> " ++ vtt_timestamp (oc_end c).

Definition vtt_esc_ch (c : Z) : str :=
  if c =? 38 then lit "&amp;" else if c =? 60 then lit "&lt;" else [c].
Definition vtt_arrow : str := lit "-->".
Definition vtt_arrow_esc : str := lit "--&gt;".
(* _encode_illegal_characters *)
Definition vtt_encode (s : str) : str := replace vtt_arrow vtt_arrow_esc (flat_map vtt_esc_ch s).
Definition nbsp : str := lit "&nbsp;".

Definition vtt_tags (start i u b : bool) : str :=
  if start
  then (if i then lit "<i>" else []) ++ (if u then lit "<u>" else []) ++ (if b then lit "<b>" else [])
  else (if b then lit "</b>" else []) ++ (if u then lit "</u>" else []) ++ (if i then lit "</i>" else []).

(* the loop of _group_cues_by_layout without layouts: s, the index i = 0 ?, the type of the previous node is TEXT ? *)
Fixpoint vtt_nodes (s : str) (first prev_text : bool) (nodes : list onode) : str :=
  match nodes with
  | [] => s
  | OText t :: r =>
      let e := vtt_encode t in
      vtt_nodes (replace vtt_arrow vtt_arrow_esc (s ++ match e with [] => nbsp | _ => e end)) false true r
  | OStyle st i u b :: r => vtt_nodes (s ++ vtt_tags st i u b) false false r
  | OBreak :: r =>
      vtt_nodes (s ++ (if negb first && negb prev_text then nbsp else []) ++ (if first then nbsp else []) ++ [10])
                false false r
  end.
Definition vtt_cue_text (c : ocap) : str := vtt_nodes [] true false (oc_nodes c).
(* _convert_caption: one layout group, or none when the cue text is empty *)
Definition vtt_caption (c : ocap) : str :=
  match vtt_cue_text c with
  | [] => []
  | s => vtt_timespan c ++ [10] ++ s ++ [10]
  end.
Definition vtt_header : str := lit "WEBVTT" ++ [10; 10].
(* write: only the first language; HEADER alone when every language is empty *)
Definition vtt_write (langs : list (list ocap)) : str :=
  if forallb (fun l => match l with [] => true | _ => false end) langs then vtt_header
  else vtt_header ++ join [10] (map vtt_caption (hd [] langs)).
