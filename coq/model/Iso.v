(* Iso.v - C09 / C10: the eight writers, the six readers and the API edits as STORE TRANSFORMERS, abstracted to their
   copy discipline, their instance state and their error exits (definitions only).

   What is modelled of a writer (pycaption/{srt,webvtt,microdvd,sami}.py, scc/__init__.py, dfxp/base.py, dfxp/extras.py):
     - which part of the input it reads before copying (get_languages / is_empty),
     - its deepcopy (Store.deepcopy: fresh, memoised),
     - every assignment it then performs (always through the pointers of its own copy - there is no guard in the model
       that would keep a write away from an input location; the theorems show the pointers never lead there):
         DFXP   language layout_info := as_percentage_of(..); caption / node layout_info := _relativize_and_fit_to_screen(..)
         SAMI   set / language / caption / node layout_info := ..;  rules.update(margins) in the style blocks
         Legacy merge_concurrent_captions (set_captions with new lists / Caption objects), caption.style.update(region)
         Single deepcopy, merge, every layout_info := default_positioning, style.pop('text-align'); then DFXP
     - the instance state that survives a call: open_span (DFXP / Single / Legacy / SAMI), last_time (SAMI),
       a reference into the copy (WebVTT global_layout, DFXP region_creator),
     - the error exits: RelativizationError / ValueError of the layout transformation (state left as it is then),
     - the output as a function of the snapshot of the writer's own copy: the span open/close token stream produced by
       the open_span state machine (that is where instance state leaks into the text) plus the snapshot itself.
   What is NOT modelled: the text of the output (bytes), bs4, the geometry arithmetic (a layout is a code
   256 * digest + flags; the transformation is decided on the flags).  The tie to the code is the correspondence
   (harness/props/C09.py, C10.py).

   cfg selects the behaviour before / after the three repairs in pycaption (fix2: default-argument dicts,
   fix3: SCCReader state reset, fix15: open_span reset); the footprint theorems hold for every cfg, the determinism / isolation theorems need the repairs, the `_refuted` ones are about the
   other settings. *)
From Coq Require Import List ZArith Bool Arith.
From PV Require Import lib.Sx lib.Str lib.Result model.Store.
Import ListNotations.
Open Scope Z_scope.

Record cfg := mkCfg { fix2 : bool; fix3 : bool; fix15 : bool }.
Definition fixed : cfg := mkCfg true true true.

Definition FUEL : nat := 64%nat.      (* depth of the snapshots the model takes of caption sets *)

(* fuel of the writers' deepcopy: one more than the number of objects in the store - it always suffices on a
   well-formed store (proofs/DeepcopyFacts.v deepcopy_succeeds), so the Err EOutOfFuel exit of `write` is dead code there *)
Definition dc_fuel (st : store) : nat := S (length st).

(* pre-existing locations: 0 = the `style={}` default of Caption.__init__, 1 = the `styles={}` default of
   CaptionSet.__init__ (both function-default objects exist from import time on) *)
Definition store0 : store := [mkObj KDict []; mkObj KDict []].

Definition dflt (c : cfg) (st : store) (which : Z) : store * val :=
  if fix2 c then new_obj st KDict []
  else (st, VLoc (if which =? 0 then 0%nat else 1%nat)).

(* ---- trees: navigation ---------------------------------------------------------------------------------------- *)
Definition tkey_eqb (a b : tree) : bool :=
  match a, b with
  | TInt x, TInt y => x =? y
  | TStr x, TStr y => str_eqb x y
  | TNone, TNone => true
  | _, _ => false
  end.

(* decidable equality on snapshots *)
Fixpoint tree_eqb (a b : tree) : bool :=
  match a, b with
  | TInt x, TInt y => (x =? y)%Z
  | TStr x, TStr y => str_eqb x y
  | TNone, TNone => true
  | TCut, TCut => true
  | TNode k1 l1, TNode k2 l2 =>
      (k1 =? k2)%Z &&
      (fix go (l1 l2 : list (tree * tree)) : bool :=
         match l1, l2 with
         | [], [] => true
         | (a1, b1) :: t1, (a2, b2) :: t2 => tree_eqb a1 a2 && tree_eqb b1 b2 && go t1 t2
         | _, _ => false
         end) l1 l2
  | _, _ => false
  end.

Fixpoint tassoc (k : tree) (l : list (tree * tree)) : option tree :=
  match l with
  | [] => None
  | (k', v) :: t => if tkey_eqb k k' then Some v else tassoc k t
  end.

Definition titems (t : tree) : list (tree * tree) := match t with TNode _ its => its | _ => [] end.
Definition tfield (t : tree) (k : Z) : tree :=
  match tassoc (TInt k) (titems t) with Some x => x | None => TNone end.
Definition thas (t : tree) (k : tree) : bool := match tassoc k (titems t) with Some _ => true | None => false end.
(* the caption cells of a CaptionList / the element cells of a list *)
Definition telems (t : tree) : list tree :=
  map snd (filter (fun kv => match fst kv with TNone => true | _ => false end) (titems t)).

(* ---- layout codes --------------------------------------------------------------------------------------------- *)
Definition flag (bit : Z) (c : Z) : bool := Z.testbit c bit.
Definition fA := 0.   (* some absolute unit *)
Definition fO := 1.   (* origin *)
Definition fE := 2.   (* extent *)
Definition fW := 3.   (* webvtt_positioning *)
Definition fT := 4.   (* truthy *)
Definition fP := 5.   (* padding *)
Definition fL := 6.   (* alignment *)
Definition fX := 7.   (* (model only) the layout is the result of a transformation *)

Definition tcode (lay : tree) : option Z :=
  match lay with
  | TNode _ _ => match tfield lay 1 with TInt c => Some c | _ => None end
  | _ => None
  end.

Record wopts := mkWopts {
  wo_rel : bool;        (* relativize *)
  wo_fit : bool;        (* fit_to_screen *)
  wo_dims : bool;       (* video_width and video_height both given *)
  wo_lang : tree;       (* write(force=..) / write(lang=..): TNone or TStr *)
  wo_pos : option Z;    (* SinglePositioning: code of default_positioning *)
  wo_inline : bool      (* DFXPWriter(write_inline_positioning=True) *)
}.

Definition setbit (c : Z) (bit : Z) (b : bool) : Z := if b then Z.setbit c bit else Z.clearbit c bit.

(* Layout.as_percentage_of builds Layout(origin, extent, padding, alignment): relative units, no webvtt_positioning *)
Definition relativized (c : Z) : Z :=
  let c1 := setbit (setbit (setbit c fA false) fW false) fX true in
  setbit c1 fT (flag fO c || flag fE c || flag fP c || flag fL c).

(* Layout.fit_to_screen with an origin builds Layout(origin, new extent, padding, alignment) *)
Definition fitted (c : Z) : Z := setbit (setbit (setbit (setbit c fE true) fW false) fT true) fX true.

(* BaseWriter._relativize_and_fit_to_screen on a layout code.
   Ok None      the very same object is returned (None, a falsy layout, or nothing to do)
   Ok (Some c') a NEW Layout object
   Err          RelativizationError (absolute unit, no video dimensions) or the ValueError of fit_to_screen *)
Definition tr_code (o : wopts) (c : option Z) : result (option Z) :=
  match c with
  | None => Ok None
  | Some c =>
      if negb (flag fT c) then Ok None
      else if wo_rel o then
        if flag fA c && negb (wo_dims o) then Err ERelativization
        else
          let c1 := relativized c in
          if wo_fit o && flag fT c1 && flag fO c1 then Ok (Some (fitted c1)) else Ok (Some c1)
      else if wo_fit o then
        if flag fO c then
          if flag fE c && flag fA c then Err ValueError else Ok (Some (fitted c))
        else Ok None
      else Ok None
  end.

(* DFXPWriter, language level (fix 8dfe05b): `if lang_layout and self.relativize: set_layout_info(lang,
   lang_layout.as_percentage_of(..))` - relativized only, never fitted; nothing is assigned otherwise *)
Definition tr_code_lang (o : wopts) (c : option Z) : result (option Z) :=
  match c with
  | None => Ok None
  | Some c =>
      if flag fT c && wo_rel o then
        if flag fA c && negb (wo_dims o) then Err ERelativization else Ok (Some (relativized c))
      else Ok None
  end.

(* a layout_info slot of the traversal: (language-level slot of the DFXP writers?, code it holds) *)
Definition scode := (bool * option Z)%type.
Definition tr_scode (o : wopts) (sc : scode) : result (option Z) :=
  if fst sc then tr_code_lang o (snd sc) else tr_code o (snd sc).

(* truthiness of the layout the slot holds AFTER the assignment (what the renderer then sees) *)
Definition truthy_after (o : wopts) (c : option Z) : bool :=
  match c with
  | None => false
  | Some c0 => match tr_code o c with
               | Ok (Some c') => flag fT c'
               | Ok None => flag fT c0
               | Err _ => false
               end
  end.

(* ---- writer instance state ------------------------------------------------------------------------------------ *)
Record winst := mkWinst {
  wi_open : bool;       (* open_span *)
  wi_last : tree;       (* SAMI last_time (TNone, or the end of the last caption) *)
  wi_ref : val          (* a reference kept into the writer's copy (global_layout / region_creator) *)
}.
Definition winst0 : winst := mkWinst false TNone VNone.

(* ---- the open_span state machine (tokens: 1 = "<span ..>", 2 = "</span>", 3 = SAMI blank sync) ------------------ *)
Definition is_true (t : tree) : bool :=
  match t with
  | TStr s => str_eqb s (lit "b:True")
  | TInt z => negb (z =? 0)
  | TNone => false
  | TNode _ its => match its with [] => false | _ => true end
  | TCut => false
  end.

Definition DFXP_KEYS : list str :=
  [lit "s:text-align"; lit "s:italics"; lit "s:font-family"; lit "s:font-size"; lit "s:color"; lit "s:display-align"].

Definition styled_dfxp (content : tree) : bool :=
  existsb (fun k => thas content (TStr k)) DFXP_KEYS.
Definition styled_sami (content : tree) : bool :=
  match titems content with [] => false | _ => true end.

(* kind of markup: 4 DFXP (layout of the node counts), 8 Legacy, 5 SAMI *)
Definition node_tokens (o : wopts) (mk : Z) (pos_truthy : option bool) (open : bool) (n : tree) : bool * list Z :=
  match tfield n 1 with
  | TInt 2 =>
      let content := tfield n 2 in
      if is_true (tfield n 3) then
        if mk =? 5 then
          let pre := if open then [2] else [] in
          if styled_sami content then (true, pre ++ [1]) else (open, pre)
        else
          let lay := match pos_truthy with Some b => b | None => truthy_after o (tcode (tfield n 4)) end in
          let styled := styled_dfxp content || ((mk =? 4) && lay) in
          if styled then (true, (if open then [2] else []) ++ [1]) else (open, [])
      else
        if open then (false, [2]) else (false, [])
  | _ => (open, [])
  end.

Fixpoint nodes_tokens (o : wopts) (mk : Z) (pos : option bool) (open : bool) (ns : list tree) : bool * list Z :=
  match ns with
  | [] => (open, [])
  | n :: t =>
      let (o1, a) := node_tokens o mk pos open n in
      let (o2, b) := nodes_tokens o mk pos o1 t in
      (o2, a ++ b)
  end.

Definition cap_nodes_t (cap : tree) : list tree := telems (tfield cap 3).

Fixpoint caps_tokens (o : wopts) (mk : Z) (pos : option bool) (open : bool) (caps : list tree) : bool * list Z :=
  match caps with
  | [] => (open, [])
  | c :: t =>
      let (o1, a) := nodes_tokens o mk pos open (cap_nodes_t c) in
      let (o2, b) := caps_tokens o mk pos o1 t in
      (o2, a ++ b)
  end.

(* ---- which languages a writer renders -------------------------------------------------------------------------- *)
Definition set_langs_t (t : tree) : list (tree * tree) := titems (tfield t 1).   (* (lang key, CaptionList) *)

Definition lang_in (l : tree) (ls : list (tree * tree)) : bool := existsb (fun kv => tkey_eqb l (fst kv)) ls.

Definition dfxp_langs (o : wopts) (t : tree) : list (tree * tree) :=
  let all := set_langs_t t in
  if lang_in (wo_lang o) all then filter (fun kv => tkey_eqb (wo_lang o) (fst kv)) all else all.

Definition legacy_langs (o : wopts) (t : tree) : list (tree * tree) :=
  let all := set_langs_t t in
  match wo_lang o with
  | TNone => all
  | f => if lang_in f all then filter (fun kv => tkey_eqb f (fst kv)) all
         else match rev all with [] => [] | x :: _ => [x] end
  end.

(* ---- the plan: everything a write decides, as a function of the snapshot of its copy ---------------------------- *)
(* slot actions in traversal order (one per layout_info slot the writer assigns), stopping at the first error *)
Fixpoint plan_slots (o : wopts) (codes : list scode) : list (option Z) * option err :=
  match codes with
  | [] => ([], None)
  | c :: t =>
      match tr_scode o c with
      | Err e => ([], Some e)
      | Ok a => let (r, e) := plan_slots o t in (a :: r, e)
      end
  end.

Definition cap_codes (cap : tree) : list scode :=
  (false, tcode (tfield cap 5)) :: map (fun n => (false, tcode (tfield n 4))) (cap_nodes_t cap).

(* CaptionSet.get_layout_info(lang): `if caption_list: return caption_list.layout_info` - an EMPTY language reads as None *)
Definition lang_code (cl : tree) : option Z :=
  match telems cl with [] => None | _ => tcode (tfield cl 1) end.

(* DFXP: per language the language-level slot (relativized only), then every caption and node *)
Definition dfxp_codes (langs : list (tree * tree)) : list scode :=
  flat_map (fun kv => (true, lang_code (snd kv)) :: flat_map cap_codes (telems (snd kv))) langs.

(* DFXPWriter.write, set level (the inline-positioning repair): `if self.write_inline_positioning and self.relativize and
   caption_set.layout_info: caption_set.layout_info = caption_set.layout_info.as_percentage_of(..)` - before the languages,
   relativized only, nothing assigned otherwise.  c = the code the set-level slot holds at that moment *)
Definition inline_code (o : wopts) (c : option Z) : list scode := if wo_inline o then [(true, c)] else [].

(* SinglePositioning: the DFXP phase sees a copy in which every slot (of a non-empty language) holds default_positioning *)
Definition single_codes (pos : option Z) (langs : list (tree * tree)) : list scode :=
  flat_map (fun kv => (true, match telems (snd kv) with [] => None | _ => pos end)
                      :: map (fun sc => (false, pos)) (flat_map cap_codes (telems (snd kv)))) langs.

Definition sami_codes (t : tree) : list scode :=
  (false, tcode (tfield t 3)) ::
  flat_map (fun kv => (false, lang_code (snd kv)) :: flat_map cap_codes (telems (snd kv))) (set_langs_t t).

(* SAMI renders caption by caption, interleaved with the layout assignments: an error in caption j leaves open_span
   as captions 1..j-1 set it.  ncap_before_err = number of captions fully processed before the error. *)
Fixpoint sami_caps_before (o : wopts) (caps : list tree) : list tree * bool :=
  match caps with
  | [] => ([], false)
  | c :: t =>
      match snd (plan_slots o (cap_codes c)) with
      | Some _ => ([], true)
      | None => let (r, e) := sami_caps_before o t in (c :: r, e)
      end
  end.

Fixpoint sami_langs_before (o : wopts) (langs : list (tree * tree)) : list (list tree) * bool :=
  match langs with
  | [] => ([], false)
  | kv :: t =>
      match tr_code o (lang_code (snd kv)) with
      | Err _ => ([], true)
      | Ok _ =>
          let (cs, e) := sami_caps_before o (telems (snd kv)) in
          if e then ([cs], true)
          else let (r, e2) := sami_langs_before o t in (cs :: r, e2)
      end
  end.

Definition time_ms (t : tree) : tree := match t with TInt z => TInt (z / 1000) | x => x end.

(* SAMI: per language last_time := None; per caption: blank sync when last_time is not None and differs from the start *)
Fixpoint sami_lang_tokens (o : wopts) (open : bool) (last : tree) (caps : list tree) : bool * tree * list Z :=
  match caps with
  | [] => (open, last, [])
  | c :: t =>
      let time := time_ms (tfield c 1) in
      let blank := if negb (tkey_eqb last TNone) && negb (tkey_eqb time last) then [3] else [] in
      let (o1, a) := nodes_tokens o 5 None open (cap_nodes_t c) in
      let '(o2, l2, b) := sami_lang_tokens o o1 (time_ms (tfield c 2)) t in
      (o2, l2, blank ++ a ++ b)
  end.

Fixpoint sami_tokens (o : wopts) (open : bool) (last : tree) (langs : list (list tree)) : bool * tree * list Z :=
  match langs with
  | [] => (open, last, [])
  | caps :: t =>
      let '(o1, l1, a) := sami_lang_tokens o open TNone caps in
      let '(o2, l2, b) := sami_tokens o o1 l1 t in
      (o2, l2, a ++ b)
  end.

Record out := mkOut { out_tokens : list Z; out_tree : tree }.

(* writer kinds *)
Definition W_SRT := 1.  Definition W_VTT := 2.  Definition W_MDVD := 3.  Definition W_DFXP := 4.
Definition W_SAMI := 5. Definition W_SCC := 6.  Definition W_SINGLE := 7. Definition W_LEGACY := 8.

(* Single positioning: every layout slot of the (merged) copy is replaced by default_positioning before DFXP writes *)
Definition pos_truthy (o : wopts) : bool := truthy_after o (wo_pos o).

Record plan := mkPlan {
  p_slots : list (option Z);     (* actions on the layout slots, in traversal order *)
  p_err : option err;
  p_open : bool;                 (* open_span at exit *)
  p_last : tree;                 (* last_time at exit *)
  p_tokens : list Z
}.

(* `open` / `last` = instance state at the moment rendering starts (after the reset at entry, if any) *)
Definition make_plan (k : Z) (o : wopts) (open : bool) (last : tree) (t : tree) : plan :=
  if k =? W_DFXP then
    let langs := dfxp_langs o t in
    let (sl, e) := plan_slots o (inline_code o (tcode (tfield t 3)) ++ dfxp_codes langs) in
    match e with
    | Some _ => mkPlan sl e open last []
    | None =>
        let (o1, toks) := caps_tokens o 4 None open (flat_map (fun kv => telems (snd kv)) langs) in
        mkPlan sl None o1 last toks
    end
  else if k =? W_SINGLE then
    (* the DFXP part sees a copy in which every slot holds default_positioning *)
    let langs := dfxp_langs o t in
    let (sl, e) := plan_slots o (inline_code o (wo_pos o) ++ single_codes (wo_pos o) langs) in
    match e with
    | Some _ => mkPlan sl e open last []
    | None =>
        let (o1, toks) := caps_tokens o 4 (Some (pos_truthy o)) open (flat_map (fun kv => telems (snd kv)) langs) in
        mkPlan sl None o1 last toks
    end
  else if k =? W_LEGACY then
    let langs := legacy_langs o t in
    let (o1, toks) := caps_tokens o 8 None open (flat_map (fun kv => telems (snd kv)) langs) in
    mkPlan [] None o1 last toks
  else if k =? W_SAMI then
    let (sl, e) := plan_slots o (sami_codes t) in
    match tr_code o (tcode (tfield t 3)) with
    | Err _ => mkPlan sl e open last []
    | Ok _ =>
        let (done, _) := sami_langs_before o (set_langs_t t) in
        let '(o1, l1, toks) := sami_tokens o open last done in
        mkPlan sl e o1 l1 (match e with Some _ => [] | None => toks end)
    end
  else mkPlan [] None open last [].

(* ---- heap side: the assignments -------------------------------------------------------------------------------- *)
Definition elems (st : store) (v : val) : list val :=
  map snd (filter (fun kv => match fst kv with VNone => true | _ => false end) (items_of st v)).

Definition set_langs (st : store) (s : val) : list (val * val) := items_of st (field st s (VInt 1)).

Definition vkey_of_tree (t : tree) : val :=
  match t with TInt z => VInt z | TStr s => VStr s | _ => VNone end.

Definition sel_langs (st : store) (s : val) (keys : list tree) : list (val * val) :=
  filter (fun kv => existsb (fun k => val_eqb (vkey_of_tree k) (fst kv)) keys) (set_langs st s).

(* the layout_info slots (object, field number, "reads as None") in the order the writer visits them *)
Definition slot := (val * Z * bool)%type.

Definition cap_slots (st : store) (cap : val) : list slot :=
  (cap, 5, false) :: map (fun n => (n, 4, false)) (elems st (field st cap (VInt 3))).

Definition dfxp_slots (st : store) (langs : list (val * val)) : list slot :=
  flat_map (fun kv => (snd kv, 1, false) :: flat_map (cap_slots st) (elems st (snd kv))) langs.

Definition inline_slot (o : wopts) (s : val) : list slot := if wo_inline o then [(s, 3, false)] else [].

(* set_layout_info(lang, f(get_layout_info(lang))): for an empty language get_layout_info is None, so None is assigned *)
Definition sami_slots (st : store) (s : val) : list slot :=
  (s, 3, false) ::
  flat_map (fun kv => (snd kv, 1, match elems st (snd kv) with [] => true | _ => false end)
                      :: flat_map (cap_slots st) (elems st (snd kv))) (set_langs st s).

(* log entry of one assignment: (kind of the object written, field) - the model's footprint *)
Definition fp := list (Z * Z).

Definition is_none (v : val) : bool := match v with VNone => true | _ => false end.

(* obj.field := <new Layout c'>  or, for None, obj.field := obj.field (the same object: no observable rebinding) *)
Fixpoint apply_slots (st : store) (slots : list slot) (acts : list (option Z)) (log : fp) : store * fp :=
  match slots, acts with
  | (ob, f, as_none) :: ts, a :: ta =>
      match a with
      | Some c' =>
          let (st1, nl) := new_obj st KLayout [(VInt 1, VInt c'); (VInt 2, VNone)] in
          apply_slots (set_field st1 ob (VInt f) nl) ts ta ((kind_of st ob, f) :: log)
      | None =>
          if as_none then
            apply_slots (set_field st ob (VInt f) VNone) ts ta
                        (if is_none (field st ob (VInt f)) then log else (kind_of st ob, f) :: log)
          else apply_slots (set_field st ob (VInt f) (field st ob (VInt f))) ts ta log
      end
  | _, _ => (st, log)
  end.

(* merge_concurrent_captions on the heap: per language, runs of captions with equal (start, end) become ONE new
   Caption (a new object even for a run of one) with a new node list holding the same node objects, breaks between
   them, and the first caption's style dict; the language is rebound to a new list. *)
Definition same_span (st : store) (a b : val) : bool :=
  val_eqb (field st a (VInt 1)) (field st b (VInt 1)) && val_eqb (field st a (VInt 2)) (field st b (VInt 2)).

Fixpoint runs_of (st : store) (caps : list val) : list (val * list val) :=
  match caps with
  | [] => []
  | c :: t =>
      match runs_of st t with
      | (d, ds) :: rest => if same_span st c d then (c, d :: ds) :: rest else (c, []) :: (d, ds) :: rest
      | [] => [(c, [])]
      end
  end.

Definition merge_run (st : store) (r : val * list val) : store * val :=
  let (c, cs) := r in
  let '(st1, nodes) :=
    fold_left (fun (acc : store * list (val * val)) x =>
                 let (s0, ns) := acc in
                 let (s1, br) := new_obj s0 KNode [(VInt 1, VInt 3); (VInt 2, VNone); (VInt 3, VNone);
                                                   (VInt 4, VNone); (VInt 5, VNone)] in
                 (s1, ns ++ (VNone, br) :: items_of s1 (field s1 x (VInt 3))))
              cs (st, items_of st (field st c (VInt 3))) in
  let (st2, nl) := new_obj st1 KList nodes in
  new_obj st2 KCaption [(VInt 1, field st c (VInt 1)); (VInt 2, field st c (VInt 2)); (VInt 3, nl);
                        (VInt 4, field st c (VInt 4)); (VInt 5, VNone)].

Definition merge_lang (st : store) (s : val) (kv : val * val) (log : fp) : store * fp :=
  let caps := elems st (snd kv) in
  match caps with
  | [] => (st, log)                        (* `if merged_captions:` - an empty language is left alone *)
  | _ =>
      let '(st1, merged) :=
        fold_left (fun (acc : store * list (val * val)) r =>
                     let (s0, l) := acc in let (s1, m) := merge_run s0 r in (s1, l ++ [(VNone, m)]))
                  (runs_of st caps) (st, []) in
      let (st2, cl) := new_obj st1 KCapList ((VInt 1, VNone) :: merged) in
      (set_field st2 (field st2 s (VInt 1)) (fst kv) cl, (KDict, 0) :: log)
  end.

Definition merge_all (st : store) (s : val) (log : fp) : store * fp :=
  fold_left (fun (acc : store * fp) kv => merge_lang (fst acc) s kv (snd acc)) (set_langs st s) (st, log).

(* Legacy: caption.style.update({'region': ..}) for every caption of the written languages with a non-empty style *)
Definition legacy_styles (st : store) (langs : list (val * val)) (log : fp) : store * fp :=
  fold_left (fun (acc : store * fp) cap =>
               let (s0, lg) := acc in
               let sty := field s0 cap (VInt 4) in
               match items_of s0 sty with
               | [] => acc
               | _ => (set_field s0 sty (VStr (lit "s:region")) (VStr (lit "s:bottom")), (KDict, 0) :: lg)
               end)
            (flat_map (fun kv => elems st (snd kv)) langs) (st, log).

(* SAMI _recreate_stylesheet: rules.update(margins) on every non-empty style of the copy when the set layout has padding *)
Definition sami_styles (st : store) (s : val) (log : fp) : store * fp :=
  let padded := match field st (field st s (VInt 3)) (VInt 1) with VInt c => flag fP c | _ => false end in
  if padded then
    fold_left (fun (acc : store * fp) kv =>
                 let (s0, lg) := acc in
                 match items_of s0 (snd kv) with
                 | [] => acc
                 | _ =>
                     let s1 := set_field s0 (snd kv) (VStr (lit "s:margin-top")) (VStr (lit "s:m")) in
                     let s2 := set_field s1 (snd kv) (VStr (lit "s:margin-right")) (VStr (lit "s:m")) in
                     let s3 := set_field s2 (snd kv) (VStr (lit "s:margin-bottom")) (VStr (lit "s:m")) in
                     (set_field s3 (snd kv) (VStr (lit "s:margin-left")) (VStr (lit "s:m")), (KDict, 0) :: lg)
                 end)
              (items_of st (field st s (VInt 2))) (st, log)
  else (st, log).

(* Single positioning: after deepcopy + merge, every layout slot := default_positioning, text-align popped.
   The real writer installs its default_positioning OBJECT (instance state, or the module constant) in its private
   copy of the set; the model installs a private Layout with the same code - the copy is discarded after the call
   and Layout objects are never assigned to, so no observation can tell the two apart.
   The log lists only assignments to objects that the deepcopy produced (the merged Caption / CaptionList objects
   are created after it; the observer on the real heap cannot see them either). *)
Definition single_assign (st : store) (s : val) (pc : Z) (log : fp) : store * fp :=
  let (st0, posv) := new_obj st KLayout [(VInt 1, VInt pc); (VInt 2, VNone)] in
  let st1 := set_field st0 s (VInt 3) posv in
  let '(st2, lg2) :=
    fold_left (fun (acc : store * fp) kv =>
                 let (s0, lg) := acc in
                 let s1 := set_field s0 (snd kv) (VInt 1) posv in
                 fold_left (fun (acc2 : store * fp) cap =>
                              let (s2, lg2) := acc2 in
                              let s3 := set_field s2 cap (VInt 5) posv in
                              fold_left (fun (acc3 : store * fp) n =>
                                           (set_field (fst acc3) n (VInt 4) posv, (KNode, 4) :: snd acc3))
                                        (elems s3 (field s3 cap (VInt 3))) (s3, lg2))
                           (elems s1 (snd kv)) (s1, match elems s1 (snd kv) with [] => (KCapList, 1) :: lg | _ => lg end))
              (set_langs st1 s) (st1, (KSet, 3) :: log) in
  fold_left (fun (acc : store * fp) kv =>
               let (s0, lg) := acc in
               match assoc (VStr (lit "s:text-align")) (items_of s0 (snd kv)) with
               | Some _ => (del_field s0 (snd kv) (VStr (lit "s:text-align")), (KDict, 0) :: lg)
               | None => acc
               end)
            (items_of st2 (field st2 s (VInt 2))) (st2, lg2).

Definition is_empty_set (st : store) (s : val) : bool :=
  forallb (fun kv => match elems st (snd kv) with [] => true | _ => false end) (set_langs st s).

Record wres := mkWres {
  wr_store : store;
  wr_inst : winst;
  wr_result : result out;
  wr_fp : fp;              (* assignments performed on the writer's own copies *)
  wr_copies : Z            (* number of deepcopy calls on (a copy of) the input *)
}.

Definition entry_inst (c : cfg) (k : Z) (i : winst) : winst :=
  if fix15 c && ((k =? W_DFXP) || (k =? W_SINGLE) || (k =? W_LEGACY) || (k =? W_SAMI))
  then mkWinst false (wi_last i) (wi_ref i) else i.

Definition keys_of (l : list (tree * tree)) : list tree := map fst l.

Definition write (c : cfg) (k : Z) (o : wopts) (i : winst) (st : store) (s : val) : wres :=
  let i0 := entry_inst c k i in
  if ((k =? W_VTT) || (k =? W_SCC)) && is_empty_set st s then
    (* `if caption_set.is_empty(): return output` before the copy *)
    mkWres st i0 (Ok (mkOut [] (snap FUEL st s))) [] 0
  else
  match deepcopy (dc_fuel st) st s with
  | None => mkWres st i0 (Err EOutOfFuel) [] 0
  | Some (st1, s1) =>
      let t := snap FUEL st1 s1 in
      if (k =? W_SRT) || (k =? W_MDVD) || (k =? W_SCC) then
        mkWres st1 i0 (Ok (mkOut [] t)) [] 1
      else if k =? W_VTT then
        (* self.global_layout = caption_set.get_layout_info(lang) : a reference into the copy *)
        let lang := match wo_lang o with
                    | TNone => match set_langs st1 s1 with kv :: _ => fst kv | [] => VNone end
                    | l => vkey_of_tree l
                    end in
        let cl := field st1 (field st1 s1 (VInt 1)) lang in
        let gl := match elems st1 cl with [] => VNone | _ => field st1 cl (VInt 1) end in
        mkWres st1 (mkWinst (wi_open i0) (wi_last i0) gl) (Ok (mkOut [] t)) [] 1
      else if k =? W_DFXP then
        let p := make_plan k o (wi_open i0) (wi_last i0) t in
        let slots := inline_slot o s1 ++ dfxp_slots st1 (sel_langs st1 s1 (keys_of (dfxp_langs o t))) in
        let (st2, lg) := apply_slots st1 slots (p_slots p) [] in
        match p_err p with
        | Some e => mkWres st2 i0 (Err e) lg 1
        | None => mkWres st2 (mkWinst (p_open p) (wi_last i0) s1) (Ok (mkOut (p_tokens p) t)) lg 1
        end
      else if k =? W_SAMI then
        let p := make_plan k o (wi_open i0) (wi_last i0) t in
        let (st2, lg) := apply_slots st1 (sami_slots st1 s1) (p_slots p) [] in
        match p_err p with
        | Some e => mkWres st2 (mkWinst (p_open p) (p_last p) (wi_ref i0)) (Err e) lg 1
        | None =>
            let (st3, lg3) := sami_styles st2 s1 lg in
            mkWres st3 (mkWinst (p_open p) (p_last p) (wi_ref i0)) (Ok (mkOut (p_tokens p) t)) lg3 1
        end
      else if k =? W_LEGACY then
        let (st2, lg) := merge_all st1 s1 [] in
        (* _force_language(force, langs): langs[-1] on a set without languages *)
        if (match wo_lang o with TNone => false | _ => true end) && (match set_langs_t t with [] => true | _ => false end)
        then mkWres st2 i0 (Err IndexError) lg 1 else
        let p := make_plan k o (wi_open i0) (wi_last i0) t in
        let (st3, lg3) := legacy_styles st2 (sel_langs st2 s1 (keys_of (legacy_langs o t))) lg in
        mkWres st3 (mkWinst (p_open p) (wi_last i0) (wi_ref i0)) (Ok (mkOut (p_tokens p) t)) lg3 1
      else if k =? W_SINGLE then
        let (st2, lg) := merge_all st1 s1 [] in
        let (st3, lg3) := single_assign st2 s1 (match wo_pos o with Some pc => pc | None => 0 end) lg in
        (* DFXPWriter.write on the positioned copy: a second deepcopy, then the DFXP assignments *)
        match deepcopy (dc_fuel st3) st3 s1 with
        | None => mkWres st3 i0 (Err EOutOfFuel) lg3 1
        | Some (st4, s2) =>
            let p := make_plan k o (wi_open i0) (wi_last i0) t in
            let slots := inline_slot o s2 ++ dfxp_slots st4 (sel_langs st4 s2 (keys_of (dfxp_langs o t))) in
            let (st5, lg5) := apply_slots st4 slots (p_slots p) lg3 in
            match p_err p with
            | Some e => mkWres st5 i0 (Err e) lg5 2
            | None => mkWres st5 (mkWinst (p_open p) (wi_last i0) s2) (Ok (mkOut (p_tokens p) t)) lg5 2
            end
        end
      else mkWres st i0 (Err ENotImplemented) [] 0
  end.

(* ---- readers -------------------------------------------------------------------------------------------------- *)
Definition R_SRT := 1.  Definition R_VTT := 2.  Definition R_MDVD := 3.
Definition R_DFXP := 4. Definition R_SAMI := 5. Definition R_SCC := 6.

Record rinst := mkRinst {
  ri_stash : list val;   (* SCC: the PreCaption objects of caption_stash (they share nodes / style / layout with the
                            Caption objects handed out) *)
  ri_last : val          (* DFXP self.nodes / SAMI self.line: the node list of the last caption built *)
}.
Definition rinst0 : rinst := mkRinst [] VNone.

Definition default_marker (w : Z) : tree := TNode KDefault [(TNone, TInt w)].

Definition tset_field (t : tree) (k : Z) (x : tree) : tree :=
  match t with
  | TNode kd its =>
      TNode kd (map (fun kv => if tkey_eqb (fst kv) (TInt k) then (fst kv, x) else kv) its)
  | _ => t
  end.

(* where a reader calls Caption(...) / CaptionSet(...) without style / styles *)
Definition mark_caption (rk : Z) (cap : tree) : tree :=
  if (rk =? R_SRT) || (rk =? R_VTT) || (rk =? R_MDVD) then tset_field cap 4 (default_marker 0) else cap.

Definition map_elems (f : tree -> tree) (t : tree) : tree :=
  match t with
  | TNode k its => TNode k (map (fun kv => match fst kv with TNone => (TNone, f (snd kv)) | _ => kv end) its)
  | _ => t
  end.

Definition mark_defaults (rk : Z) (t : tree) : tree :=
  let caps := match tfield t 1 with
              | TNode kd its => TNode kd (map (fun kv => (fst kv, map_elems (mark_caption rk) (snd kv))) its)
              | x => x
              end in
  let t1 := tset_field t 1 caps in
  if (rk =? R_SRT) || (rk =? R_VTT) || (rk =? R_MDVD) || (rk =? R_SCC)
  then tset_field t1 2 (default_marker 1) else t1.

Definition last_nodes (st : store) (s : val) : val :=
  match rev (flat_map (fun kv => elems st (snd kv)) (set_langs st s)) with
  | c :: _ => field st c (VInt 3)
  | [] => VNone
  end.

(* ---- results of real reads are DAGs: the start and the end node of a <span> carry ONE content dict ----------------------
   (dfxp/base.py _convert_span_to_nodes, sami.py _translate_span: `args` is passed to both create_style calls; SAMI <i>/<b>/<u>
   and the SCC reader build two dict literals instead).  Which end nodes share is part of the RESULT the harness hands to
   the model: in the result tree the content cell of such an end node is the marker TNode KShare [].  The read model
     1. builds the tree with every marker replaced by the content tree of the matching start node (stack discipline),
     2. then makes the end node's content slot point to the start node's dict - guarded by "both dicts have the same
        snapshot at every depth <= FUEL" (always true for a result of a real read: it is one object there). *)
Definition KShare := 101.

Definition is_share (t : tree) : bool := match t with TNode k _ => k =? KShare | _ => false end.
Definition node_is_style (n : tree) : bool := match tfield n 1 with TInt 2 => true | _ => false end.

Fixpoint unshare_nodes (ns : list (tree * tree)) (stack : list tree) : list (tree * tree) :=
  match ns with
  | [] => []
  | (TNone, n) :: r =>
      if node_is_style n then
        if is_true (tfield n 3) then (TNone, n) :: unshare_nodes r (tfield n 2 :: stack)
        else
          let top := match stack with d :: _ => d | [] => TNode KDict [] end in
          (TNone, if is_share (tfield n 2) then tset_field n 2 top else n) :: unshare_nodes r (tl stack)
      else (TNone, n) :: unshare_nodes r stack
  | kv :: r => kv :: unshare_nodes r stack
  end.

Definition unshare_cap (cap : tree) : tree :=
  match tfield cap 3 with
  | TNode k its => tset_field cap 3 (TNode k (unshare_nodes its []))
  | _ => cap
  end.

Definition unshare (t : tree) : tree :=
  match tfield t 1 with
  | TNode kd its => tset_field t 1 (TNode kd (map (fun kv => (fst kv, map_elems unshare_cap (snd kv))) its))
  | _ => t
  end.

Definition has_field (st : store) (v k : val) : bool :=
  match assoc k (items_of st v) with Some _ => true | None => false end.

Definition same_snapshots (st : store) (a b : val) : bool :=
  forallb (fun m => tree_eqb (snap m st a) (snap m st b)) (seq 0 (S FUEL)).

(* heap nodes and (marked) tree nodes of one caption walked in parallel; stack = content dicts of the open starts *)
Fixpoint share_nodes (st : store) (hs : list val) (ts : list tree) (stack : list val) : store :=
  match hs, ts with
  | h :: hr, n :: tr =>
      if node_is_style n then
        if is_true (tfield n 3) then share_nodes st hr tr (field st h (VInt 2) :: stack)
        else
          let st' := match stack with
                     | d :: _ => if is_share (tfield n 2) && has_field st h (VInt 2)
                                    && same_snapshots st d (field st h (VInt 2))
                                 then set_field st h (VInt 2) d else st
                     | [] => st
                     end in
          share_nodes st' hr tr (tl stack)
      else share_nodes st hr tr stack
  | _, _ => st
  end.

Fixpoint share_caps (st : store) (hcs : list val) (tcs : list tree) : store :=
  match hcs, tcs with
  | hc :: hr, tc :: tr =>
      share_caps (share_nodes st (elems st (field st hc (VInt 3))) (telems (tfield tc 3)) []) hr tr
  | _, _ => st
  end.

Fixpoint share_langs (st : store) (hls : list (val * val)) (tls : list (tree * tree)) : store :=
  match hls, tls with
  | hkv :: hr, tkv :: tr => share_langs (share_caps st (elems st (snd hkv)) (telems (snd tkv))) hr tr
  | _, _ => st
  end.

Definition share_set (st : store) (s : val) (t : tree) : store := share_langs st (set_langs st s) (set_langs_t t).

(* SCC: PreCaption objects (kind 7) are kept by the reader; get_all() builds a Caption per PreCaption of the stash
   passing the very same nodes / style / layout objects *)
Definition KPre := 7.

Definition scc_pre (c : cfg) (st : store) (cap : tree) : store * val :=
  let '(st1, nodes) := build (dflt c) (tfield cap 3) st in
  let '(st2, style) := build (dflt c) (tfield cap 4) st1 in
  let '(st3, lay) := build (dflt c) (tfield cap 5) st2 in
  new_obj st3 KPre [(VInt 1, vkey_of_tree (tfield cap 1)); (VInt 2, vkey_of_tree (tfield cap 2));
                    (VInt 3, nodes); (VInt 4, style); (VInt 5, lay)].

Definition cap_of_pre (st : store) (p : val) : store * val :=
  new_obj st KCaption [(VInt 1, field st p (VInt 1)); (VInt 2, field st p (VInt 2)); (VInt 3, field st p (VInt 3));
                       (VInt 4, field st p (VInt 4)); (VInt 5, field st p (VInt 5))].

Definition read (c : cfg) (rk : Z) (ri : rinst) (t : tree) (st : store) : store * rinst * val :=
  if rk =? R_SCC then
    let stash0 := if fix3 c then [] else ri_stash ri in
    let kv := match set_langs_t t with x :: _ => x | [] => (TNone, TNone) end in
    let '(st1, pres) :=
      fold_left (fun (acc : store * list val) cap =>
                   let (s0, l) := acc in let (s1, p) := scc_pre c s0 cap in (s1, l ++ [p]))
                (telems (snd kv)) (st, []) in
    let stash := stash0 ++ pres in
    let '(st2, caps) :=
      fold_left (fun (acc : store * list (val * val)) p =>
                   let (s0, l) := acc in let (s1, cp) := cap_of_pre s0 p in (s1, l ++ [(VNone, cp)]))
                stash (st1, []) in
    let (st3, cl) := new_obj st2 KCapList ((VInt 1, VNone) :: caps) in
    let (st4, d) := new_obj st3 KDict [(vkey_of_tree (fst kv), cl)] in
    let (st5, sty) := dflt c st4 1 in
    let (st6, s) := new_obj st5 KSet [(VInt 1, d); (VInt 2, sty); (VInt 3, VNone)] in
    (st6, mkRinst stash VNone, s)
  else
    let tm := mark_defaults rk t in
    let (st1, s) := build (dflt c) (unshare tm) st in
    let st2 := share_set st1 s tm in
    let last := if (rk =? R_DFXP) || (rk =? R_SAMI) then last_nodes st2 s else VNone in
    (st2, mkRinst [] last, s).

(* ---- edits through the public API ------------------------------------------------------------------------------ *)
Inductive edit : Type :=
| EAddStyle (sel : tree) (rules : tree)              (* cs.add_style(sel, {..}) *)
| EStyleRule (sel : tree) (k v : tree)               (* cs.get_style(sel)[k] = v  (the rules dict in place) *)
| ECapTime (li ci : nat) (f : Z) (v : tree)          (* caption.start / .end = v *)
| EAppendNode (li ci : nat) (node : tree)            (* caption.nodes.append(CaptionNode..) *)
| ECapStyle (li ci : nat) (k v : tree)               (* caption.style[k] = v *)
| ECapLayout (li ci : nat) (lay : tree)              (* caption.layout_info = Layout(..) *)
| ENodeField (li ci ni : nat) (f : Z) (v : tree)     (* node.content = v  /  node.layout_info = Layout(..) *)
| EDelCap (li ci : nat)                              (* del captions[ci] *)
| ENodeDict (li ci ni : nat) (k v : tree).           (* node.content[k] = v : a STYLE node's content dict, in place *)

Definition nth_mod {A} (l : list A) (n : nat) (d : A) : A :=
  match l with [] => d | _ => nth (Nat.modulo n (length l)) l d end.

Definition the_cap (st : store) (s : val) (li ci : nat) : val :=
  let kv := nth_mod (set_langs st s) li (VNone, VNone) in
  nth_mod (elems st (snd kv)) ci VNone.

Fixpoint remove_nth_elem (n : nat) (l : list (val * val)) : list (val * val) :=
  match l with
  | [] => []
  | (VNone, x) :: t => match n with O => t | S m => (VNone, x) :: remove_nth_elem m t end
  | kv :: t => kv :: remove_nth_elem n t
  end.

Definition do_edit (c : cfg) (st : store) (s : val) (e : edit) : store :=
  match e with
  | EAddStyle sel rules =>
      let (st1, r) := build (dflt c) rules st in
      set_field st1 (field st1 s (VInt 2)) (vkey_of_tree sel) r
  | EStyleRule sel k v =>
      let d := field st (field st s (VInt 2)) (vkey_of_tree sel) in
      match d with
      | VLoc _ => set_field st d (vkey_of_tree k) (vkey_of_tree v)
      | _ => st     (* get_style returns a fresh {} for a missing selector: nothing reachable changes *)
      end
  | ECapTime li ci f v => set_field st (the_cap st s li ci) (VInt f) (vkey_of_tree v)
  | EAppendNode li ci node =>
      let (st1, n) := build (dflt c) node st in
      append_item st1 (field st1 (the_cap st1 s li ci) (VInt 3)) n
  | ECapStyle li ci k v => set_field st (field st (the_cap st s li ci) (VInt 4)) (vkey_of_tree k) (vkey_of_tree v)
  | ECapLayout li ci lay =>
      let (st1, l) := build (dflt c) lay st in
      set_field st1 (the_cap st1 s li ci) (VInt 5) l
  | ENodeField li ci ni f v =>
      let n := nth_mod (elems st (field st (the_cap st s li ci) (VInt 3))) ni VNone in
      let (st1, x) := build (dflt c) v st in
      set_field st1 n (VInt f) x
  | EDelCap li ci =>
      let kv := nth_mod (set_langs st s) li (VNone, VNone) in
      let n := match elems st (snd kv) with [] => O | l => Nat.modulo ci (length l) end in
      set_items st (snd kv) (remove_nth_elem n (items_of st (snd kv)))
  | ENodeDict li ci ni k v =>
      let n := nth_mod (elems st (field st (the_cap st s li ci) (VInt 3))) ni VNone in
      let d := field st n (VInt 2) in
      match d with
      | VLoc _ => set_field st d (vkey_of_tree k) (vkey_of_tree v)
      | _ => st       (* a text / break node: content is not a dict, nothing happens *)
      end
  end.

(* ---- histories ------------------------------------------------------------------------------------------------- *)
Inductive op : Type :=
| OBuild (t : tree)                                   (* the API user builds a set (KDefault where an argument is omitted) *)
| ORead (rid : nat) (rk : Z) (t : tree)               (* reader object rid (created on first use) reads a document whose
                                                         pristine result has snapshot t *)
| OWrite (wid : nat) (k : Z) (o : wopts) (set : nat)  (* writer object wid (created on first use) writes set number `set` *)
| OEdit (set : nat) (e : edit).

Record world := mkWorld {
  w_st : store;
  w_sets : list val;
  w_readers : list (nat * rinst);
  w_writers : list (nat * winst)
}.

Definition world0 : world := mkWorld store0 [] [] [].

Fixpoint lookup {A} (n : nat) (l : list (nat * A)) : option A :=
  match l with [] => None | (m, a) :: t => if Nat.eqb n m then Some a else lookup n t end.

Fixpoint set_assoc {A} (n : nat) (a : A) (l : list (nat * A)) : list (nat * A) :=
  match l with
  | [] => [(n, a)]
  | (m, b) :: t => if Nat.eqb n m then (m, a) :: t else (m, b) :: set_assoc n a t
  end.

(* what one step lets the harness compare with the real heap *)
Record mobs := mkMobs {
  mo_err : Z;                          (* 0, or the error code of the raising call *)
  mo_tokens : list Z;
  mo_open : bool;
  mo_fp : fp;
  mo_copies : Z;
  mo_changed_below : list nat;         (* locations that existed before the step and whose object differs after it *)
  mo_share : list (nat * list Z);      (* new set: (older set index, kinds of the shared objects) *)
  mo_glob : list Z;                    (* new set: kinds of objects shared with the pre-existing default objects *)
  mo_rinst : bool                      (* new set: the reader object keeps a reference into it *)
}.

Definition obj_eqb (a b : obj) : bool :=
  (o_kind a =? o_kind b) &&
  (fix go (x y : list (val * val)) : bool :=
     match x, y with
     | [], [] => true
     | (k1, v1) :: t1, (k2, v2) :: t2 => val_eqb k1 k2 && val_eqb v1 v2 && go t1 t2
     | _, _ => false
     end) (o_items a) (o_items b).

Fixpoint changed_below (n : nat) (a b : store) : list nat :=
  match a, b with
  | x :: ta, y :: tb => (if obj_eqb x y then [] else [n]) ++ changed_below (S n) ta tb
  | _, _ => []
  end.

Definition mobs0 : mobs := mkMobs 0 [] false [] 0 [] [] [] false.

Definition share_with_old (st : store) (olds : list val) (s : val) : list (nat * list Z) :=
  (fix go (n : nat) (l : list val) : list (nat * list Z) :=
     match l with
     | [] => []
     | x :: t => match kinds_shared FUEL st x s with
                 | [] => go (S n) t
                 | ks => (n, ks) :: go (S n) t
                 end
     end) O olds.

Definition glob_share (st : store) (s : val) : list Z :=
  let r := reach FUEL st s [] in
  map (fun l => kind_of st (VLoc l)) (filter (fun l => mem_loc l r) [0%nat; 1%nat]).

Definition rinst_alias (st : store) (ri : rinst) (s : val) : bool :=
  let r := reach FUEL st s [] in
  existsb (fun v => existsb (fun l => mem_loc l r) (reach FUEL st v [])) (ri_last ri :: ri_stash ri).

Definition step (c : cfg) (w : world) (o : op) : world * mobs :=
  match o with
  | OBuild t =>
      let (st1, s) := build (dflt c) t (w_st w) in
      (mkWorld st1 (w_sets w ++ [s]) (w_readers w) (w_writers w),
       mkMobs 0 [] false [] 0 (changed_below O (w_st w) st1) (share_with_old st1 (w_sets w) s)
              (glob_share st1 s) false)
  | ORead rid rk t =>
      let ri := match lookup rid (w_readers w) with Some r => r | None => rinst0 end in
      let '(st1, ri1, s) := read c rk ri t (w_st w) in
      (mkWorld st1 (w_sets w ++ [s]) (set_assoc rid ri1 (w_readers w)) (w_writers w),
       mkMobs 0 [] false [] 0 (changed_below O (w_st w) st1) (share_with_old st1 (w_sets w) s)
              (glob_share st1 s) (rinst_alias st1 ri1 s))
  | OWrite wid k wo si =>
      match nth_error (w_sets w) si with
      | None => (w, mobs0)
      | Some s =>
          let wi := match lookup wid (w_writers w) with Some x => x | None => winst0 end in
          let r := write c k wo wi (w_st w) s in
          (mkWorld (wr_store r) (w_sets w) (w_readers w) (set_assoc wid (wr_inst r) (w_writers w)),
           mkMobs (match wr_result r with Ok _ => 0 | Err e => err_code e end)
                  (match wr_result r with Ok x => out_tokens x | Err _ => [] end)
                  (wi_open (wr_inst r)) (wr_fp r) (wr_copies r) (changed_below O (w_st w) (wr_store r)) [] [] false)
      end
  | OEdit si e =>
      match nth_error (w_sets w) si with
      | None => (w, mobs0)
      | Some s =>
          let st1 := do_edit c (w_st w) s e in
          (mkWorld st1 (w_sets w) (w_readers w) (w_writers w), mobs0)
      end
  end.

(* run a history; per step: the model's observation and the snapshot of every set after the step *)
Fixpoint run (c : cfg) (w : world) (ops : list op) : list (mobs * list tree) :=
  match ops with
  | [] => []
  | o :: t =>
      let (w1, m) := step c w o in
      (m, map (snap FUEL (w_st w1)) (w_sets w1)) :: run c w1 t
  end.

Fixpoint run_world (c : cfg) (w : world) (ops : list op) : world :=
  match ops with
  | [] => w
  | o :: t => run_world c (fst (step c w o)) t
  end.

(* ---- "no set iteration": the enumeration orders of the DFXP region bookkeeping made explicit ------------------------------
   RegionCreator keeps (a) the unique layouts of the document in an insertion-ORDERED container (_OrderedSet, a list) and
   gives them the ids r0, r1, .. in iteration order; (b) the ids that were assigned in a hash SET (_assigned_region_ids)
   that is only ever asked `id in set`.  Every iteration takes its order as a parameter:
     iter : the order in which container (a) is iterated - the identity for the list the code uses, an arbitrary
            permutation if it were a hash set (what `unique_regions = set()` would do);
     enum : the order in which the hash set (b) would enumerate its elements.
   The other containers the writer models walk are Python dicts (languages, styles) and lists (captions, nodes): insertion
   ordered by the language definition, no parameter. *)
Definition layout_eqb (a b : Z) : bool := (a / 256 =? b / 256).      (* Layout.__eq__: the value digest *)

Definition ordered_add (x : Z) (l : list Z) : list Z := if existsb (layout_eqb x) l then l else l ++ [x].

Definition unique_regions (codes : list (option Z)) : list Z :=
  fold_left (fun acc c => match c with Some x => if flag fT x then ordered_add x acc else acc | None => acc end) codes [].

Definition region_ids (iter : list Z -> list Z) (codes : list (option Z)) : list (Z * nat) :=
  let u := iter (unique_regions codes) in combine u (seq 0 (length u)).

Definition region_of (ids : list (Z * nat)) (c : Z) : option nat :=
  match filter (fun p => layout_eqb c (fst p)) ids with p :: _ => Some (snd p) | [] => None end.

(* cleanup_regions: a region stays in the document iff its id is in the assigned set *)
Definition kept_regions (iter : list Z -> list Z) (enum : list nat -> list nat)
           (codes : list (option Z)) (used : list nat) : list (Z * nat) :=
  filter (fun p => existsb (Nat.eqb (snd p)) (enum used)) (region_ids iter codes).

(* the <region> elements and the region attribute of every positioned element of a DFXP document *)
Definition dfxp_regions (iter : list Z -> list Z) (enum : list nat -> list nat) (o : wopts) (t : tree)
  : list (Z * nat) * list (option nat) :=
  let codes := map snd (dfxp_codes (dfxp_langs o t)) in
  let ids := region_ids iter codes in
  let refs := map (fun c => match c with Some x => region_of ids x | None => None end) codes in
  let used := flat_map (fun r => match r with Some i => [i] | None => [] end) refs in
  (kept_regions iter enum codes used, refs).
