(* The caption node model shared by the text properties C03 / C04 / C11.
   A caption's nodes are TEXT (a string), BREAK, or STYLE (start/end + a style dictionary).
   Of the style dictionary only what the writers' text paths look at is kept:
   the three inline flags and an optional colour (stands for "any other key"). *)
From Coq Require Import List ZArith Bool.
From PV Require Import lib.Sx lib.Str.
Import ListNotations.
Open Scope Z_scope.

Record style := mkStyle { st_i : bool; st_b : bool; st_u : bool; st_color : option str }.

Inductive node : Type :=
| NText (s : str)
| NBreak
| NStyle (start : bool) (st : style).

Definition no_style : style := mkStyle false false false None.
Definition sty_i : style := mkStyle true false false None.

(* wire: node = SL [SI 1; SS s] | SL [SI 3] | SL [SI 2; SI start; SI i; SI b; SI u; opt color] *)
Definition sx_node (x : sx) : option node :=
  match x with
  | SL [SI 1; SS s] => Some (NText s)
  | SL [SI 3] => Some NBreak
  | SL [SI 2; st; i; b; u; c] =>
      match sx_bool st, sx_bool i, sx_bool b, sx_bool u, sx_opt sx_str c with
      | Some st, Some i, Some b, Some u, Some c => Some (NStyle st (mkStyle i b u c))
      | _, _, _, _, _ => None
      end
  | _ => None
  end.
Definition sx_nodes := sx_listof sx_node.

Definition of_node (n : node) : sx :=
  match n with
  | NText s => SL [SI 1; SS s]
  | NBreak => SL [SI 3]
  | NStyle st s => SL [SI 2; of_bool st; of_bool (st_i s); of_bool (st_b s); of_bool (st_u s);
                       of_opt SS (st_color s)]
  end.

(* the authored lines of a caption: text of the nodes, split at BREAK (style nodes contribute nothing) *)
Fixpoint node_lines_aux (ns : list node) (cur : str) : list str :=
  match ns with
  | [] => [cur]
  | NText s :: t => node_lines_aux t (cur ++ s)
  | NBreak :: t => cur :: node_lines_aux t []
  | NStyle _ _ :: t => node_lines_aux t cur
  end.
Definition node_lines (ns : list node) : list str := node_lines_aux ns [].
