(* Model of the language handling of pycaption (C14):
     DFXPReader.read (xml:lang fallback through enclosing divs, dict of languages, further divs of a language extend
     its list, every <p> under its nearest div in document order),
     DFXPWriter.write / LegacyDFXPWriter.write (force=; the merge of concurrent captions done by the single-positioning
     and legacy writers is NOT modelled: the harness joins the texts of equal (start, end) runs itself),
     SAMIParser._find_lang + handle_starttag + SAMIReader.read/_translate_lang (languages in order of first <p>,
     exact selection by the resolved language), SAMIWriter (_recreate_p_tag, _recreate_blank_tag,
     _recreate_sync, _find_closest_sync: where each <p> is put in the body), WebVTTWriter.write(lang=).
   A cue is (start in microseconds, text). Document / tree layers (bs4, lxml, html.parser) are outside. *)
From Coq Require Import List ZArith Bool.
From PV Require Import lib.Sx lib.Str lib.Result.
Import ListNotations.
Open Scope Z_scope.

Definition cue := (Z * str)%type.
Definition capset := list (str * list cue).          (* a dict: keys distinct, insertion order *)

(* Python dict: d[k] = v keeps the position of an existing key *)
Fixpoint dict_set {V : Type} (k : str) (v : V) (d : list (str * V)) : list (str * V) :=
  match d with
  | [] => [(k, v)]
  | (k', v') :: t => if str_eqb k' k then (k', v) :: t else (k', v') :: dict_set k v t
  end.
Fixpoint dict_get {V : Type} (k : str) (d : list (str * V)) : option V :=
  match d with
  | [] => None
  | (k', v) :: t => if str_eqb k' k then Some v else dict_get k t
  end.
Definition get_captions (cs : capset) (l : str) : list cue :=
  match dict_get l cs with Some c => c | None => [] end.
Definition languages (cs : capset) : list str := map fst cs.
Definition mem (l : str) (ls : list str) : bool := existsb (str_eqb l) ls.

(* ---- DFXP read ---------------------------------------------------------------------------------------- *)
(* lang = div.attrs.get('xml:lang', tt.attrs.get('xml:lang', DEFAULT_LANGUAGE_CODE)) *)
Definition div_lang (own tt : option str) (default : str) : str :=
  match own with
  | Some l => l
  | None => match tt with Some l => l | None => default end
  end.

Record dfxp_doc := mkDfxp { d_tt : option str; d_divs : list (option str * list cue) }.

(* caption_dict[lang].extend(captions) for a language met before, else caption_dict[lang] = captions *)
Fixpoint dict_extend (k : str) (v : list cue) (d : capset) : capset :=
  match d with
  | [] => [(k, v)]
  | (k', v') :: t => if str_eqb k' k then (k', v' ++ v) :: t else (k', v') :: dict_extend k v t
  end.

(* d_divs: the SEGMENTS of the document in document order (see flatten_body below): an entry without cues for every
   <div> where it opens (it registers the language), an entry with one cue for every <p> under its nearest div *)
Definition dfxp_read (default : str) (doc : dfxp_doc) : capset :=
  fold_left (fun d dv => dict_extend (div_lang (fst dv) (d_tt doc) default) (snd dv) d) (d_divs doc) [].

(* the <body> as a tree of divs and paragraphs (integrated reader: `_find_div_language` - the xml:lang of the div,
   else of the nearest enclosing div; every <p> belongs to its nearest div; a <p> outside every div is skipped).
   In the real code the keys are registered by a first loop over find_all('div') and the paragraphs appended by a
   second loop over find_all('p'); one pre-order pass gives the same dict because a div opens before its paragraphs *)
Inductive dnode : Type :=
| DP (c : cue)
| DDiv (lang : option str) (kids : list dnode).
Fixpoint flatten_node (inh : option str) (n : dnode) : list (option str * list cue) :=
  match n with
  | DP c => [(inh, [c])]
  | DDiv l kids =>
      let own := match l with Some _ => l | None => inh end in
      (own, []) :: flat_map (flatten_node own) kids
  end.
Definition flatten_body (nodes : list dnode) : list (option str * list cue) :=
  flat_map (fun n => match n with DP _ => [] | DDiv _ _ => flatten_node None n end) nodes.
Definition dfxp_read_tree (default : str) (tt : option str) (nodes : list dnode) : capset :=
  dfxp_read default (mkDfxp tt (flatten_body nodes)).

(* ---- DFXP write ------------------------------------------------------------------------------------------ *)
Definition dfxp_default_language : str := lit "en".

Definition dfxp_write (force : str) (cs : capset) : dfxp_doc :=
  let langs := languages cs in
  let forced := mem force langs in
  mkDfxp (Some (if forced then force else dfxp_default_language))
         (map (fun l => (Some l, get_captions cs l)) (if forced then [force] else langs)).

(* LegacyDFXPWriter: `if force: langs = [_force_language(force, langs)]` - the last language when absent *)
Definition legacy_write (force : str) (cs : capset) : result dfxp_doc :=
  let langs := languages cs in
  do chosen <- (match force with
                | [] => Ok langs
                | _ => if mem force langs then Ok [force]
                       else match rev langs with l :: _ => Ok [l] | [] => Err IndexError end
                end);
  Ok (mkDfxp (Some dfxp_default_language) (map (fun l => (Some l, get_captions cs l)) chosen)).

(* ---- SAMI read -------------------------------------------------------------------------------------------- *)
(* styles: lower-cased class name -> value of its `lang` property, if it has one *)
Definition sami_styles := list (str * option str).

(* _find_lang: the first `lang` attribute (its first two characters) or class with a lang style decides *)
Fixpoint find_lang (attrs : list (str * str)) (styles : sami_styles) : option str :=
  match attrs with
  | [] => None
  | (name, value) :: t =>
      if str_eqb (lower name) (lit "lang") then Some (firstn 2 value)
      else if str_eqb (lower name) (lit "class") then
        match dict_get (lower value) styles with
        | Some (Some l) => Some l
        | _ => find_lang t styles
        end
      else find_lang t styles
  end.
(* lang = self._find_lang(attrs) or DEFAULT_LANGUAGE_CODE *)
Definition p_lang (default : str) (attrs : list (str * str)) (styles : sami_styles) : str :=
  match find_lang attrs styles with
  | Some (c :: l) => c :: l
  | _ => default
  end.

(* a paragraph: attributes, start of its sync block (milliseconds), text *)
Record sami_p := mkP { sp_attrs : list (str * str); sp_start : Z; sp_text : str }.

Definition is_blank_text (s : str) : bool := forallb is_space s.

(* langs: `if lang not in self.langs: self.langs.append(lang)` over the paragraphs in document order *)
Definition first_appearance (ls : list str) : list str :=
  fold_left (fun acc l => if mem l acc then acc else acc ++ [l]) ls [].

(* _translate_lang with the exact selection find_all('p', lang=language); blank paragraphs give no caption *)
Definition sami_read (default : str) (styles : sami_styles) (ps : list sami_p) : capset :=
  let tagged := map (fun p => (p_lang default (sp_attrs p) styles, p)) ps in
  map (fun l => (l, map (fun lp => (sp_start (snd lp) * 1000, sp_text (snd lp)))
                        (filter (fun lp => str_eqb (fst lp) l && negb (is_blank_text (sp_text (snd lp)))) tagged)))
      (first_appearance (map fst tagged)).

(* ---- SAMI write: where paragraphs go ------------------------------------------------------------------- *)
Definition par := (str * str)%type.                    (* class, text *)
Definition sync := (Z * list par)%type.                (* start (ms), paragraphs *)
Definition body := list sync.

Definition nbsp_text : str := lit "&nbsp;".

(* sami.find("sync", start=time): the first sync with that start gets the paragraph *)
Fixpoint add_to_first (t : Z) (p : par) (b : body) : option body :=
  match b with
  | [] => None
  | (s, ps) :: r => if s =? t then Some ((s, ps ++ [p]) :: r)
                    else match add_to_first t p r with Some r' => Some ((s, ps) :: r') | None => None end
  end.

(* insert a new sync after the LAST sync whose start is smaller *)
Fixpoint insert_after_last_earlier (t : Z) (p : par) (b : body) : option body :=
  match b with
  | [] => None
  | (s, ps) :: r =>
      match insert_after_last_earlier t p r with
      | Some r' => Some ((s, ps) :: r')
      | None => if s <? t then Some ((s, ps) :: (t, [p]) :: r) else None
      end
  end.
(* ... else before the FIRST sync whose start is greater *)
Fixpoint insert_before_first_later (t : Z) (p : par) (b : body) : option body :=
  match b with
  | [] => None
  | (s, ps) :: r =>
      if t <? s then Some ((t, [p]) :: (s, ps) :: r)
      else match insert_before_first_later t p r with Some r' => Some ((s, ps) :: r') | None => None end
  end.

(* _find_closest_sync; when there is no earlier and no later sync the new one is appended to the body *)
Definition find_closest (t : Z) (p : par) (b : body) : body :=
  match insert_after_last_earlier t p b with
  | Some b' => b'
  | None => match insert_before_first_later t p b with Some b' => b' | None => b ++ [(t, [p])] end
  end.

(* _recreate_sync + sync.append(p) *)
Definition place (primary : bool) (t : Z) (p : par) (b : body) : body :=
  if primary then b ++ [(t, [p])]
  else match add_to_first t p b with Some b' => b' | None => find_closest t p b end.

(* a caption as the writer sees it: start, end (microseconds), text.  Paragraphs are tagged with the LANGUAGE they
   are written under; which class name carries that language (_recreate_p_lang, _recreate_stylesheet) is modelled
   separately below (p_class / sheet_langs) *)
Record wcue := mkWcue { wc_start : Z; wc_end : Z; wc_text : str }.

(* _recreate_p_tag over one language (after `fix: SAMI writer omitted the blank sync after a cue ending in
   millisecond 0`: `if self.last_time is not None and time != self.last_time`) *)
Definition blank_due (last_time : option Z) (time : Z) : bool :=
  match last_time with Some l => negb (time =? l) | None => false end.
Definition last_or0 (last_time : option Z) : Z := match last_time with Some l => l | None => 0 end.

Fixpoint write_lang (primary : bool) (cls : str) (caps : list wcue) (last_time : option Z) (b : body) : body :=
  match caps with
  | [] => b
  | c :: t =>
      let time := wc_start c / 1000 in
      let b1 := if blank_due last_time time
                then place primary (last_or0 last_time) (cls, nbsp_text) b else b in
      write_lang primary cls t (Some (wc_end c / 1000)) (place primary time (cls, wc_text c) b1)
  end.

Fixpoint write_langs (first : bool) (cs : list (str * list wcue)) (b : body) : body :=
  match cs with
  | [] => b
  | (l, caps) :: t => write_langs false t (write_lang first l caps None b)
  end.
Definition sami_write (cs : list (str * list wcue)) : body := write_langs true cs [].

(* ---- SAMI write: which class carries the language ---------------------------------------------------------- *)
(* styles: class name -> value of its `lang` property, if it has one.
   _recreate_p_lang (repaired): the caption's class is kept only if it declares the language being written *)
Definition p_class (lang : str) (cap_class : option str) (styles : list (str * option str)) : str :=
  match cap_class with
  | Some c => match dict_get c styles with
              | Some (Some l) => if str_eqb l lang then c else lang
              | _ => lang
              end
  | None => lang
  end.
(* _recreate_stylesheet (repaired): the styles' own blocks, then one block per language unless a style of exactly
   that name declares it.  Result: (class, declared language) in the order written *)
Definition sheet_langs (styles : list (str * option str)) (langs : list str) : list (str * str) :=
  flat_map (fun cl => match snd cl with Some l => [(fst cl, l)] | None => [] end) styles
  ++ flat_map (fun l => match dict_get l styles with
                        | Some (Some l') => if str_eqb l' l then [] else [(l, l)]
                        | _ => [(l, l)]
                        end) langs.
(* the language a class resolves to on re-reading: the LAST block of that class wins (the parser overwrites) *)
Definition resolve_class (c : str) (sheet : list (str * str)) : option str :=
  dict_get c (rev sheet).

(* ---- WebVTT lang= ----------------------------------------------------------------------------------------- *)
Definition vtt_select (lang : option str) (cs : capset) : result (list cue) :=
  match lang with
  | Some l => Ok (get_captions cs l)
  | None => match cs with (l, _) :: _ => Ok (get_captions cs l) | [] => Err IndexError end
  end.
