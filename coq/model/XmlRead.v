(* C01 / C02 / C08, wave 7: text -> tree for the tree-based readers.  An executable reader of the XML
   sublanguage the generators (and pycaption's own DFXP writer) emit, written after what
   BeautifulSoup(markup, "html.parser") builds for DFXPReader (LayoutAwareDFXPParser):
     - an optional processing instruction "<?" ... ">" is skipped (HTMLParser.parse_pi: up to the first '>');
     - character data runs to the next '<'; references are decoded (the predefined entities, "&apos;" which the
       reader replaces before parsing, decimal and hexadecimal character references);
     - start tags  <name attr* ws? >  and  <name attr* ws? />,  attr = ws* name ws* = ws* ("v" | 'v'), names are
       lower-cased (HTMLParser lower-cases tag and attribute names), values are unescaped;
     - end tags  </name ws? >  must match the open element (html.parser does no implicit closing for the names of
       the sublanguage; void HTML elements such as <br> and raw-text elements such as <style> with content are
       outside it: <br/> and <style .../> are written as empty-element tags);
     - a repeated attribute: bs4 builds a dict, the later value wins (attr_get of model/TimeTree.v).
   On top: the queries DFXPReader.read makes on the tree (document.tt, find_all('div'), find_all('p'),
   find_parent('div'), get_text().strip()) and the reader itself (dfxp_read_doc of model/TimeTree.v).
   Anything outside the sublanguage makes the parser answer None (never compared as in-domain).
   Definitions only. *)
From Coq Require Import List ZArith Bool.
From PV Require Import lib.Sx lib.Str lib.Result.
From PV Require Import model.Langs model.TimeRead model.TimeTree.
Import ListNotations.
Open Scope Z_scope.

Inductive hnode : Type :=
| HText (s : str)
| HElem (name : str) (a : attrs) (kids : list hnode).

(* ---- character classes -------------------------------------------------------------------------------- *)
Definition h_ws (c : Z) : bool := (c =? 32) || (c =? 9) || (c =? 10) || (c =? 13) || (c =? 12).
Definition not_lt (c : Z) : bool := negb (c =? 60).
(* tagfind_tolerant: [a-zA-Z][^\t\n\r\f />\x00]*  *)
Definition tag_name_c (c : Z) : bool := negb (h_ws c || (c =? 47) || (c =? 62) || (c =? 0)).
(* attrfind_tolerant: [^\s/>][^\s/=>]*  *)
Definition attr_name_c (c : Z) : bool := negb (h_ws c || (c =? 47) || (c =? 62) || (c =? 61)).
Definition is_letter (c : Z) : bool := ((65 <=? c) && (c <=? 90)) || ((97 <=? c) && (c <=? 122)).

Fixpoint take_to (q : Z) (s : str) : str :=
  match s with [] => [] | c :: t => if c =? q then [] else c :: take_to q t end.
Fixpoint drop_to (q : Z) (s : str) : option str :=   (* what follows the first q *)
  match s with [] => None | c :: t => if c =? q then Some t else drop_to q t end.

(* ---- references ------------------------------------------------------------------------------------------ *)
Definition hexv (c : Z) : option Z :=
  if is_digit c then Some (c - 48)
  else if (97 <=? c) && (c <=? 102) then Some (c - 87)
  else if (65 <=? c) && (c <=? 70) then Some (c - 55) else None.
Fixpoint hex_acc (s : str) (acc : Z) : option Z :=
  match s with
  | [] => Some acc
  | c :: t => match hexv c with Some d => hex_acc t (acc * 16 + d) | None => None end
  end.

(* the text between '&' and ';'.  Character references below 256 go through windows-1252 in bs4 (128..159 are
   not the code point): outside the sublanguage, answered None = left as written *)
Definition ref_char (name : str) : option Z :=
  if str_eqb name (lit "amp") then Some 38
  else if str_eqb name (lit "lt") then Some 60
  else if str_eqb name (lit "gt") then Some 62
  else if str_eqb name (lit "quot") then Some 34
  else if str_eqb name (lit "apos") then Some 39
  else match name with
       | 35 :: x :: ds =>
           if (x =? 120) || (x =? 88) then
             match ds with
             | [] => None
             | _ => match hex_acc ds 0 with
                    | Some v => if (128 <=? v) && (v <? 160) then None else Some v
                    | None => None
                    end
             end
           else match int_of_digits (x :: ds) with
                | Some v => if (128 <=? v) && (v <? 160) then None else Some v
                | None => None
                end
       | _ => None
       end.

(* ref = Some acc while inside a reference (acc reversed).  An unknown or unterminated reference is left as
   written (outside the sublanguage) *)
Fixpoint unescape (s : str) (ref : option str) : str :=
  match s with
  | [] => match ref with None => [] | Some r => 38 :: rev r end
  | c :: t =>
      match ref with
      | None => if c =? 38 then unescape t (Some []) else c :: unescape t None
      | Some r =>
          if c =? 59 then
            match ref_char (rev r) with
            | Some v => v :: unescape t None
            | None => 38 :: rev r ++ 59 :: unescape t None
            end
          else unescape t (Some (c :: r))
      end
  end.

(* ---- tags ---------------------------------------------------------------------------------------------------- *)
(* s1 starts at the attribute name:  name ws* = ws* quote value quote  ->  (name, value, what follows) *)
Definition parse_attr (s1 : str) : option (str * str * str) :=
  match take_while attr_name_c s1 with
  | [] => None
  | name =>
      match drop_while h_ws (drop_while attr_name_c s1) with
      | e :: r1 =>
          if e =? 61 then
            match drop_while h_ws r1 with
            | q :: r2 =>
                if (q =? 34) || (q =? 39) then
                  match drop_to q r2 with
                  | Some r3 => Some (lower name, unescape (take_to q r2) None, r3)
                  | None => None
                  end
                else None
            | [] => None
            end
          else None
      | [] => None
      end
  end.

(* s = what follows the element name.  Returns (attributes in order, empty-element tag?, what follows '>') *)
Fixpoint parse_attrs (fuel : nat) (s : str) (acc : attrs) : option (attrs * bool * str) :=
  match fuel with
  | O => None
  | S f =>
    match drop_while h_ws s with
    | [] => None
    | c :: r =>
        if c =? 62 then Some (rev acc, false, r)
        else if c =? 47 then match r with d :: r' => if d =? 62 then Some (rev acc, true, r') else None | [] => None end
        else match parse_attr (c :: r) with
             | Some (n, v, r3) => parse_attrs f r3 ((n, v) :: acc)
             | None => None
             end
    end
  end.

(* t = what follows '<' in a start tag -> (name, attributes, empty-element tag?, what follows '>') *)
Definition parse_open (t : str) : option (str * attrs * bool * str) :=
  match parse_attrs (S (length t)) (drop_while tag_name_c t) [] with
  | Some (a, sc, r) => Some (lower (take_while tag_name_c t), a, sc, r)
  | None => None
  end.

(* s = what follows "</" *)
Definition parse_close (name : str) (s : str) : option str :=
  if str_eqb (lower (take_while tag_name_c s)) name then
    match drop_while h_ws (drop_while tag_name_c s) with
    | c :: r => if c =? 62 then Some r else None
    | [] => None
    end
  else None.

(* content up to the end tag of the enclosing element (or the end of the text): the nodes and what is left,
   which is empty or starts with "</" *)
Fixpoint parse_nodes (fuel : nat) (s : str) : option (list hnode * str) :=
  match fuel with
  | O => None
  | S f =>
    match s with
    | [] => Some ([], [])
    | c :: t =>
        if c =? 60 then
          match t with
          | [] => None
          | d :: t' =>
              if d =? 47 then Some ([], s)
              else if d =? 63 then
                match drop_to 62 t' with Some r => parse_nodes f r | None => None end
              else if is_letter d then
                match parse_open t with
                | Some (name, a, true, r) =>
                    match parse_nodes f r with
                    | Some (sibs, r') => Some (HElem name a [] :: sibs, r')
                    | None => None
                    end
                | Some (name, a, false, r) =>
                    match parse_nodes f r with
                    | Some (kids, r1) =>
                        match r1 with
                        | _ :: _ :: r1' =>
                            match parse_close name r1' with
                            | Some r2 =>
                                match parse_nodes f r2 with
                                | Some (sibs, r3) => Some (HElem name a kids :: sibs, r3)
                                | None => None
                                end
                            | None => None
                            end
                        | _ => None
                        end
                    | None => None
                    end
                | None => None
                end
              else None
          end
        else
          match parse_nodes f (drop_while not_lt s) with
          | Some (sibs, r) => Some (HText (unescape (take_while not_lt s) None) :: sibs, r)
          | None => None
          end
    end
  end.

Definition parse_doc (s : str) : option (list hnode) :=
  match parse_nodes (S (length s)) s with
  | Some (ns, []) => Some ns
  | _ => None
  end.

(* ---- the queries of DFXPReader.read ------------------------------------------------------------------- *)
(* tag.get_text() *)
Fixpoint h_text (n : hnode) : str :=
  match n with HText s => s | HElem _ _ kids => flat_map h_text kids end.

(* bool(s.strip()): a string strips to nothing iff all of it is white space (str.isspace characters) *)
Definition visible (s : str) : bool := negb (forallb is_space s).

(* document.tt: the first <tt> in document order *)
Fixpoint find_tt (n : hnode) : option attrs :=
  match n with
  | HText _ => None
  | HElem name a kids =>
      if str_eqb name (lit "tt") then Some a
      else fold_right (fun k acc => match find_tt k with Some x => Some x | None => acc end) None kids
  end.
Definition find_tt_list (l : list hnode) : option attrs :=
  fold_right (fun k acc => match find_tt k with Some x => Some x | None => acc end) None l.

(* find_all('div') with, for each, the xml:lang attributes from it outward through the enclosing <div>s;
   find_all('p') with the same for find_parent('div') (None: no enclosing <div>) and bool(get_text().strip()).
   chain = that list for the nearest enclosing <div> of the node *)
Fixpoint walk (chain : option lang_chain) (n : hnode) : list lang_chain * list (option lang_chain * xp) :=
  match n with
  | HText _ => ([], [])
  | HElem name a kids =>
      if str_eqb name (lit "div") then
        let ch := attr_get (lit "xml:lang") a :: match chain with Some c => c | None => [] end in
        (ch :: flat_map (fun k => fst (walk (Some ch) k)) kids, flat_map (fun k => snd (walk (Some ch) k)) kids)
      else if str_eqb name (lit "p")
      then (flat_map (fun k => fst (walk chain k)) kids,
            (chain, mkXp a (visible (flat_map h_text kids))) :: flat_map (fun k => snd (walk chain k)) kids)
      else (flat_map (fun k => fst (walk chain k)) kids, flat_map (fun k => snd (walk chain k)) kids)
  end.
Definition walk_list (chain : option lang_chain) (l : list hnode) : list lang_chain * list (option lang_chain * xp) :=
  (flat_map (fun k => fst (walk chain k)) l, flat_map (fun k => snd (walk chain k)) l).

Definition EOutside : err := ECrash 99.   (* the text is outside the modelled sublanguage *)

(* DFXPReader.read on the text of a document *)
Definition dfxp_read_string (default : str) (s : str) : result (list (str * list (Z * Z))) :=
  match parse_doc s with
  | None => Err EOutside
  | Some ns =>
      match find_tt_list ns with
      | None => Err AttributeError
      | Some a =>
          let w := walk_list None ns in
          dfxp_read_doc default (attr_get (lit "xml:lang") a) (fst w) (snd w)
      end
  end.
