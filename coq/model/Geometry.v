(* Model of pycaption/geometry.py (C18, C13, used by C12): Size / Point / Stretch / Padding /
   Alignment / Layout as values; __eq__, __hash__, Size.from_string, Size.__str__,
   Padding.from_xml_attribute, as_percentage_of, fit_to_screen.
   Values are exact rationals (the code holds binary64 floats; see DESIGN section 3). *)
From Coq Require Import List ZArith QArith Qround Bool.
From PV Require Import lib.Sx lib.Str lib.Result.
Import ListNotations.
Open Scope Z_scope.

Inductive unit_ := PX | EM | PCT | CELL | PT.
Inductive halign := HLeft | HCenter | HRight | HStart | HEnd.
Inductive valign := VTop | VCenter | VBottom.

Record size := mkSize { s_val : Q; s_unit : unit_ }.
Record point := mkPoint { p_x : size; p_y : size }.
Record stretch := mkStretch { st_h : size; st_v : size }.
Record padding := mkPadding { pd_before : size; pd_after : size; pd_start : size; pd_end : size }.
Record alignment := mkAlign { al_h : option halign; al_v : option valign }.
Record layout := mkLayout {
  l_origin : option point; l_extent : option stretch; l_padding : option padding;
  l_alignment : option alignment; l_webvtt : option str }.

Definition unit_eqb (a b : unit_) : bool :=
  match a, b with PX, PX | EM, EM | PCT, PCT | CELL, CELL | PT, PT => true | _, _ => false end.
Definition halign_eqb (a b : halign) : bool :=
  match a, b with HLeft, HLeft | HCenter, HCenter | HRight, HRight | HStart, HStart | HEnd, HEnd => true
  | _, _ => false end.
Definition valign_eqb (a b : valign) : bool :=
  match a, b with VTop, VTop | VCenter, VCenter | VBottom, VBottom => true | _, _ => false end.

Definition opt_eqb {A} (f : A -> A -> bool) (a b : option A) : bool :=
  match a, b with
  | None, None => true
  | Some x, Some y => f x y
  | _, _ => false
  end.

(* ---- __eq__ of same-kind operands; gval_eqb below covers cross-type and None operands ---- *)
(* Size.__eq__: other and type(self) == type(other) and value == and unit ==   (a Size is always truthy) *)
Definition size_eqb (a b : size) : bool := Qeq_bool (s_val a) (s_val b) && unit_eqb (s_unit a) (s_unit b).
Definition point_eqb (a b : point) : bool := size_eqb (p_x a) (p_x b) && size_eqb (p_y a) (p_y b).
Definition stretch_eqb (a b : stretch) : bool := size_eqb (st_h a) (st_h b) && size_eqb (st_v a) (st_v b).
Definition padding_eqb (a b : padding) : bool :=
  size_eqb (pd_before a) (pd_before b) && size_eqb (pd_after a) (pd_after b)
  && size_eqb (pd_start a) (pd_start b) && size_eqb (pd_end a) (pd_end b).
Definition alignment_eqb (a b : alignment) : bool :=
  opt_eqb halign_eqb (al_h a) (al_h b) && opt_eqb valign_eqb (al_v a) (al_v b).
(* Layout.__eq__ compares origin, extent, padding, alignment - not webvtt_positioning *)
Definition layout_eqb (a b : layout) : bool :=
  opt_eqb point_eqb (l_origin a) (l_origin b) && opt_eqb stretch_eqb (l_extent a) (l_extent b)
  && opt_eqb padding_eqb (l_padding a) (l_padding b) && opt_eqb alignment_eqb (l_alignment a) (l_alignment b).

(* ---- any two operands: `other and type(self) == type(other) and ...` ------------------------
   GOther stands for None and for any object of another type (both make every geometry __eq__ falsy);
   every geometry object except an all-empty Layout is truthy, and Layout.__eq__ has no `other and`. *)
Inductive gval :=
| GOther | GSize (a : size) | GPoint (a : point) | GStretch (a : stretch) | GPadding (a : padding)
| GAlign (a : alignment) | GLayout (a : layout).

Definition gval_eqb (a b : gval) : bool :=
  match a, b with
  | GSize x, GSize y => size_eqb x y
  | GPoint x, GPoint y => point_eqb x y
  | GStretch x, GStretch y => stretch_eqb x y
  | GPadding x, GPadding y => padding_eqb x y
  | GAlign x, GAlign y => alignment_eqb x y
  | GLayout x, GLayout y => layout_eqb x y
  | _, _ => false
  end.

(* ---- __hash__ : CPython's hash on floats / enum members / None / ints is abstract ---- *)
Section Hash.
  Variable hq : Q -> Z.            (* hash(float) *)
  Variable hu : unit_ -> Z.        (* hash(UnitEnum member) *)
  Variable hh : option halign -> Z.
  Variable hv : option valign -> Z.
  Variable hnone : Z.              (* hash(None) *)
  Variable hint : Z -> Z.          (* hash(int) *)

  (* hq is applied to the canonical representative of the rational: the float the code holds is one value,
     Coq's Q has many representations of it *)
  Definition size_hash (a : size) : Z := hint (hq (Qred (s_val a)) * 41 + hu (s_unit a) * 43 + 47).
  Definition point_hash (a : point) : Z := hint (size_hash (p_x a) * 51 + size_hash (p_y a) * 53 + 57).
  Definition stretch_hash (a : stretch) : Z := hint (size_hash (st_h a) * 59 + size_hash (st_v a) * 61 + 67).
  Definition padding_hash (a : padding) : Z :=
    hint (size_hash (pd_before a) * 19 + size_hash (pd_after a) * 23 + size_hash (pd_start a) * 29
          + size_hash (pd_end a) * 31 + 37).
  Definition alignment_hash (a : alignment) : Z := hint (hh (al_h a) * 83 + hv (al_v a) * 89 + 97).
  Definition opt_hash {A} (f : A -> Z) (o : option A) : Z := match o with Some x => f x | None => hnone end.
  Definition layout_hash (a : layout) : Z :=
    hint (opt_hash point_hash (l_origin a) * 7 + opt_hash stretch_hash (l_extent a) * 11
          + opt_hash padding_hash (l_padding a) * 13 + opt_hash alignment_hash (l_alignment a) * 5 + 17).
  Definition gval_hash (a : gval) : Z :=
    match a with
    | GOther => hnone | GSize x => size_hash x | GPoint x => point_hash x | GStretch x => stretch_hash x
    | GPadding x => padding_hash x | GAlign x => alignment_hash x | GLayout x => layout_hash x
    end.
End Hash.

(* ---- Size.from_string --------------------------------------------------------------- *)
(* ^(((?P<value>\d+(\.\d+)?)(?P<unit>px|em|%|c|pt))|0)\Z  with re.search, re.ASCII *)
Definition unit_of_suffix (s : str) : option unit_ :=
  (* the alternation is tried in order px, em, %, c, pt and must be followed by $ *)
  if str_eqb s (lit "px") then Some PX
  else if str_eqb s (lit "em") then Some EM
  else if str_eqb s (lit "%") then Some PCT
  else if str_eqb s (lit "c") then Some CELL
  else if str_eqb s (lit "pt") then Some PT
  else None.

Definition pow10 (n : nat) : Z := Z.pow 10 (Z.of_nat n).

Definition decimal_value (ip fp : str) : option Q :=
  match int_of_digits ip with
  | None => None
  | Some i =>
      match fp with
      | [] => Some (inject_Z i)
      | _ => match int_of_digits fp with
             | None => None
             | Some f => Some (Qred (Qmake (i * pow10 (length fp) + f) (Z.to_pos (pow10 (length fp)))))
             end
      end
  end.

(* "(\.\d+)?" at the start of r1: (fraction digits, rest); when it does not match, stay before the dot *)
Definition frac_split (r1 : str) : str * str :=
  match r1 with
  | c :: t => if c =? 46 then
                match take_while is_digit t with
                | [] => ([], r1)
                | fp => (fp, drop_while is_digit t)
                end
              else ([], r1)
  | [] => ([], r1)
  end.

(* the pattern between ^ and $ *)
Definition size_parse_core (s : str) : result size :=
  if str_eqb s (lit "0") then Ok (mkSize 0%Q PX) else
  let ip := take_while is_digit s in
  let r1 := drop_while is_digit s in
  match ip with
  | [] => Err ESyntax
  | _ =>
    let '(fp, r2) := frac_split r1 in
    match unit_of_suffix r2, decimal_value ip fp with
    | Some u, Some v => Ok (mkSize v u)
    | _, _ => Err ESyntax
    end
  end.

(* after `fix: Size.from_string accepted a size followed by a newline` (\Z instead of $) and `fix: ... non-ASCII decimal
   digits` (re.ASCII) the function is exactly the pattern *)
Definition size_from_string (s0 : str) : result size := size_parse_core s0.

(* ---- Size.__str__ --------------------------------------------------------------------- *)
Definition unit_str (u : unit_) : str :=
  match u with PX => lit "px" | EM => lit "em" | PCT => lit "%" | CELL => lit "c" | PT => lit "pt" end.

(* round half even of q to an integer *)
Definition round_half_even (q : Q) : Z :=
  let f := Qfloor q in
  let r := (q - inject_Z f)%Q in
  match Qcompare r (1 # 2)%Q with
  | Lt => f
  | Gt => f + 1
  | Eq => if Z.even f then f else f + 1
  end.

(* hundredths of round(value, 2) *)
Definition hundredths (q : Q) : Z := round_half_even (q * 100)%Q.

Definition str_of_hundredths (n : Z) : str :=
  let ip := n / 100 in
  let fp := n mod 100 in
  if fp =? 0 then dec_nonneg ip
  else if fp mod 10 =? 0 then dec_nonneg ip ++ 46 :: dec_nonneg (fp / 10)
  else dec_nonneg ip ++ 46 :: zpad 2 (dec_nonneg fp).

Definition size_str (a : size) : str := str_of_hundredths (hundredths (s_val a)) ++ unit_str (s_unit a).

(* ---- Padding.from_xml_attribute ---------------------------------------------------- *)
Definition padding_of_sizes (l : list size) : result padding :=
  match l with
  | [a] => Ok (mkPadding a a a a)
  | [a; b] => Ok (mkPadding a a b b)
  | [a; b; c] => Ok (mkPadding a c b b)
  | [a; b; c; d] => Ok (mkPadding a c d b)
  | _ => Err ValueError
  end.

Definition padding_from_attr (s : str) : result padding :=
  do sizes <- res_map size_from_string (split_ch 32 s);
  padding_of_sizes sizes.

(* "<h> <v>".split(' ') must give exactly two parts *)
Definition two_sizes (s : str) : result (size * size) :=
  match split_ch 32 s with
  | [a; b] => do x <- size_from_string a; do y <- size_from_string b; Ok (x, y)
  | _ => Err ValueError
  end.

(* ---- as_percentage_of ----------------------------------------------------------------- *)
(* a dimension is "given" when it is not None and not 0 (Python truthiness) *)
Definition given (d : option Q) : option Q :=
  match d with Some q => if Qeq_bool q 0%Q then None else Some q | None => None end.

Definition size_as_pct (a : size) (w h : option Q) : result size :=
  match s_unit a with
  | PCT => Ok a
  | u =>
      match given w, given h with
      | None, None => Err ERelativization
      | Some _, Some _ => Err ERelativization
      | gw, gh =>
          let d := match gw with Some x => x | None => match gh with Some y => y | None => 1%Q end end in
          let cellref := match gw with Some _ => 32 | None => 15 end in
          let v := s_val a in
          let r := (match u with
                   | EM => (v * 16) * 100 / d
                   | PT => (v / 72 * 96) * 100 / d
                   | PX => v * 100 / d
                   | CELL => v * 100 / inject_Z cellref
                   | PCT => v
                   end)%Q in
          Ok (mkSize (Qred r) PCT)
      end
  end.

Definition point_as_pct (p : point) (w h : option Q) : result point :=
  do x <- size_as_pct (p_x p) w None; do y <- size_as_pct (p_y p) None h; Ok (mkPoint x y).
Definition stretch_as_pct (s : stretch) (w h : option Q) : result stretch :=
  do x <- size_as_pct (st_h s) w None; do y <- size_as_pct (st_v s) None h; Ok (mkStretch x y).
Definition padding_as_pct (p : padding) (w h : option Q) : result padding :=
  do b <- size_as_pct (pd_before p) None h; do a <- size_as_pct (pd_after p) None h;
  do s <- size_as_pct (pd_start p) w None; do e <- size_as_pct (pd_end p) w None;
  Ok (mkPadding b a s e).

Definition opt_res {A B} (f : A -> result B) (o : option A) : result (option B) :=
  match o with None => Ok None | Some a => do b <- f a; Ok (Some b) end.

(* Layout.as_percentage_of: webvtt_positioning is dropped *)
Definition layout_as_pct (l : layout) (w h : option Q) : result layout :=
  do o <- opt_res (fun p => point_as_pct p w h) (l_origin l);
  do e <- opt_res (fun s => stretch_as_pct s w h) (l_extent l);
  do p <- opt_res (fun p => padding_as_pct p w h) (l_padding l);
  Ok (mkLayout o e p (l_alignment l) None).

(* ---- fit_to_screen -------------------------------------------------------------------- *)
Definition size_add (a b : size) : result size :=
  if unit_eqb (s_unit a) (s_unit b) then Ok (mkSize (Qred (s_val a + s_val b)%Q) (s_unit a)) else Err ValueError.

Definition clamp0 (q : Q) : Q := if Qle_bool 0 q then q else 0%Q.

Definition layout_fit (l : layout) : result layout :=
  match l_origin l with
  | None => Ok l
  | Some o =>
      (* max(0, 90 - x): an origin beyond the safe area leaves a 0% extent, never a negative one *)
      let dh := mkSize (Qred (clamp0 (90 - s_val (p_x o)))%Q) PCT in
      let dv := mkSize (Qred (clamp0 (95 - s_val (p_y o)))%Q) PCT in
      match l_extent l with
      | None => Ok (mkLayout (Some o) (Some (mkStretch dh dv)) (l_padding l) (l_alignment l) None)
      | Some e =>
          do brx <- size_add (p_x o) (st_h e);
          do bry <- size_add (p_y o) (st_v e);
          (* only the x unit is checked by the code (the elif repeats the same test) *)
          if negb (unit_eqb (s_unit brx) PCT) then Err ValueError else
          let nh := if Qle_bool (s_val brx) 90%Q then st_h e else dh in
          let nv := if Qle_bool (s_val bry) 95%Q then st_v e else dv in
          Ok (mkLayout (Some o) (Some (mkStretch nh nv)) (l_padding l) (l_alignment l) None)
      end
  end.

(* BaseWriter._relativize_and_fit_to_screen; a Layout is falsy when all five parts are falsy *)
Definition layout_truthy (l : layout) : bool :=
  match l_origin l, l_extent l, l_padding l, l_alignment l, l_webvtt l with
  | None, None, None, None, None => false
  | None, None, None, None, Some [] => false
  | _, _, _, _, _ => true
  end.

Definition relativize_and_fit (relativize fit : bool) (w h : option Q) (l : layout) : result layout :=
  if layout_truthy l then
    do l1 <- (if relativize then layout_as_pct l w h else Ok l);
    if fit then layout_fit l1 else Ok l1
  else Ok l.
