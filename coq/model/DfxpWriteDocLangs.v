(* C02, round 4: the DFXP document DFXPWriter prints for SEVERAL languages of captions given as text lines: one <div> per
   language, in the order of the caption set (model/DfxpWriteDoc.v prints one language).  Expressed in the abstract syntax
   of spec/SpecXmlDocT.v; compared with the real writer's text character by character (request 209).  Definitions only. *)
From Coq Require Import List ZArith Bool.
From PV Require Import lib.Sx lib.Str lib.Dec.
From PV Require Import model.TimeRead spec.SpecTime spec.SpecXmlDocT model.DfxpWriteDoc.
Import ListNotations.
Open Scope Z_scope.

Fixpoint wdivs (langs : list (str * list wcap)) : dforest :=
  match langs with
  | [] => FEnd (nl 1)
  | (lang, cs) :: t => FDiv (nl 2) [at1 (lit "region") (lit "bottom")] (Some (f1, lang)) [] [] (wps cs) [] (wdivs t)
  end.

Definition wdoc_langs (langs : list (str * list wcap)) : xdoc :=
  mkXd (Some (lit "xml version=""1.0"" encoding=""utf-8""?")) (nl 0)
       [] (Some (f1, lit "en"))
       [at1 (lit "xmlns") (lit "http://www.w3.org/ns/ttml"); at1 (lit "xmlns:tts") (lit "http://www.w3.org/ns/ttml#styling")] []
       (whead (FElem (nl 1) (lit "body") (mkRt [] []) (wdivs langs) [] (FEnd (nl 0))))
       [] (nl 0).

Definition dfxp_write_doc_langs (langs : list (str * list wcap)) : str := render_doc (wdoc_langs langs).
