(* C12: the DFXP round trip over an abstract document tree.
   Write side (DFXPWriter.write after the layouts were transformed): region table, region attribute on <div>, <p>
   and on the <span>s that _recreate_text/_recreate_span assemble from the flat node list (spans are never nested by
   the writer: opening a span closes the open one, a style end closes whatever is open).
   Read side (LayoutAwareDFXPParser): _determine_region_id = own attribute, else NEAREST ancestor carrying one, else
   the unique region of the descendants; _pre_order_visit gives every element the layout of its region and every
   text leaf the layout of its parent element. *)
From Coq Require Import List ZArith QArith Bool.
From PV Require Import lib.Sx lib.Str lib.Result model.Geometry model.Positioning.
Import ListNotations.
Open Scope Z_scope.

(* node of a caption: kind 1 TEXT (word id), 2 STYLE (start flag; styled = its content yields span attributes such as
   tts:fontStyle), 3 BREAK; every node has a layout_info *)
Record dnode := mkD { d_kind : Z; d_start : bool; d_styled : bool; d_layout : option layout; d_word : Z }.
Record dcap := mkDcap { dc_layout : option layout; dc_nodes : list dnode }.
Record dlang := mkDlang { dl_layout : option layout; dl_caps : list dcap }.

(* the document *)
Inductive xitem := XText (w : Z) | XBr | XSpan (r : option region_id) (body : list xitem).
Record xp := mkXp { xp_region : option region_id; xp_items : list xitem }.
Record xdiv := mkXdiv { xd_region : option region_id; xd_ps : list xp }.
Record xdoc := mkXdoc { x_regions : list (region_id * region_attrs); x_divs : list xdiv }.

(* ---- write ------------------------------------------------------------------------------------------------ *)
(* every layout RegionCreator._collect_unique_regions looks at: language, caption, every node *)
Definition lang_layouts (lg : dlang) : list (option layout) :=
  dl_layout lg :: flat_map (fun c => dc_layout c :: map d_layout (dc_nodes c)) (dl_caps lg).
Definition set_layouts (s : list dlang) : list (option layout) := flat_map lang_layouts s.

Definition close_span (open : option (option region_id * list xitem)) (out : list xitem) : list xitem :=
  match open with Some (r, body) => XSpan r (rev body) :: out | None => out end.

(* _recreate_text / _recreate_span; `open` = the open span (its region attribute, its body reversed), out reversed *)
Fixpoint write_nodes (reg : option layout -> region_id) (nodes : list dnode)
         (open : option (option region_id * list xitem)) (out : list xitem) : list xitem :=
  match nodes with
  | [] => rev (close_span open out)
  | n :: t =>
      if d_kind n =? 1 then
        match open with
        | Some (r, body) => write_nodes reg t (Some (r, XText (d_word n) :: body)) out
        | None => write_nodes reg t None (XText (d_word n) :: out)
        end
      else if d_kind n =? 3 then
        match open with
        | Some (r, body) => write_nodes reg t (Some (r, XBr :: body)) out
        | None => write_nodes reg t None (XBr :: out)
        end
      else if d_start n then
        (* attributes: style attributes, and region="..." when the node has a (truthy) layout_info *)
        if d_styled n || opt_layout_truthy (d_layout n) then
          write_nodes reg t
            (Some (if opt_layout_truthy (d_layout n) then Some (reg (d_layout n)) else None, []))
            (close_span open out)
        else write_nodes reg t open out
      else
        match open with
        | Some _ => write_nodes reg t None (close_span open out)
        | None => write_nodes reg t None out
        end
  end.

(* g: the set-level layout (CaptionSet.layout_info): never collected as a region, but the last fallback of
   get_positioning_info - it finds a region only when an EQUAL layout was collected elsewhere *)
Definition write_cap (m : list (layout * region_id)) (g lang_l : option layout) (c : dcap) : xp :=
  mkXp (Some (region_lookup m (dfxp_choice g lang_l (dc_layout c) None)))
       (write_nodes (region_lookup m) (dc_nodes c) None []).

Definition write_lang (m : list (layout * region_id)) (g : option layout) (lg : dlang) : xdiv :=
  mkXdiv (Some (region_lookup m (dfxp_choice g (dl_layout lg) None None)))
         (map (write_cap m g (dl_layout lg)) (dl_caps lg)).

Definition write_doc (g : option layout) (s : list dlang) : xdoc :=
  let m := region_map (set_layouts s) in
  mkXdoc (map (fun kv => (snd kv, layout_attrs (fst kv))) m) (map (write_lang m g) s).

(* ---- read ------------------------------------------------------------------------------------------------- *)
Definition region_id_eqb (a b : region_id) : bool :=
  match a, b with
  | RDefault, RDefault => true
  | RId x, RId y => x =? y
  | _, _ => false
  end.

(* _get_region_from_ancestors: ancestors' own region attributes, NEAREST FIRST; the first one that has it wins *)
Fixpoint region_from_ancestors (anc : list (option region_id)) : option region_id :=
  match anc with
  | [] => None
  | Some r :: _ => Some r
  | None :: t => region_from_ancestors t
  end.

(* _get_region_from_descendants: the set of the descendants' region attributes (None for a descendant without one);
   more than one distinct value -> LookupError (no region), exactly one -> that value *)
Definition opt_rid_eqb (a b : option region_id) : bool :=
  match a, b with
  | None, None => true
  | Some x, Some y => region_id_eqb x y
  | _, _ => false
  end.
Definition region_from_descendants (ds : list (option region_id)) : option region_id :=
  match ds with
  | [] => None
  | d :: t => if forallb (opt_rid_eqb d) t then d else None
  end.

Definition determine_region (own : option region_id) (anc ds : list (option region_id)) : option region_id :=
  match own with
  | Some r => Some r
  | None => match region_from_ancestors anc with
            | Some r => Some r
            | None => region_from_descendants ds
            end
  end.

(* the element itself and its descendant elements (br is an element without a region attribute) *)
Fixpoint elem_regions (it : xitem) : list (option region_id) :=
  match it with
  | XText _ => []
  | XBr => [None]
  | XSpan r body => r :: flat_map elem_regions body
  end.

(* _extract_positioning_information: the region tag with that xml:id, scraped; no region -> only the default alignment *)
Definition resolve (regs : list (region_id * region_attrs)) (id : option region_id) : result layout :=
  match id with
  | Some r => match List.find (fun kv => region_id_eqb (fst kv) r) regs with
              | Some kv => read_region (snd kv)
              | None => read_region (mkRA None None None None None)
              end
  | None => read_region (mkRA None None None None None)
  end.

(* _pre_order_visit below a <p>: every word with the layout of its parent element *)
Fixpoint read_item (regs : list (region_id * region_attrs)) (anc : list (option region_id)) (parent : layout)
         (it : xitem) : result (list (Z * layout)) :=
  match it with
  | XText w => Ok [(w, parent)]
  | XBr => Ok []
  | XSpan r body =>
      do lay <- resolve regs (determine_region r anc (flat_map elem_regions body));
      (* = res_map (read_item regs (r :: anc) lay) body, written as a local fix for the termination checker *)
      do ws <- (fix go (l : list xitem) : result (list (list (Z * layout))) :=
                  match l with
                  | [] => Ok []
                  | x :: t => do a <- read_item regs (r :: anc) lay x; do b <- go t; Ok (a :: b)
                  end) body;
      Ok (concat ws)
  end.

Record rcap := mkRcap { rc_layout : layout; rc_words : list (Z * layout) }.
Record rlang := mkRlang { rl_layout : layout; rl_caps : list rcap }.

Definition read_p (regs : list (region_id * region_attrs)) (div_region : option region_id) (p : xp) : result rcap :=
  do lay <- resolve regs (determine_region (xp_region p) [div_region] (flat_map elem_regions (xp_items p)));
  do ws <- res_map (read_item regs [xp_region p; div_region] lay) (xp_items p);
  Ok (mkRcap lay (concat ws)).

Definition p_elem_regions (p : xp) : list (option region_id) := xp_region p :: flat_map elem_regions (xp_items p).

Definition read_div (regs : list (region_id * region_attrs)) (d : xdiv) : result rlang :=
  do lay <- resolve regs (determine_region (xd_region d) [] (flat_map p_elem_regions (xd_ps d)));
  do cs <- res_map (read_p regs (xd_region d)) (xd_ps d);
  Ok (mkRlang lay cs).

Definition read_doc (d : xdoc) : result (list rlang) := res_map (read_div (x_regions d)) (x_divs d).

Definition dfxp_roundtrip (g : option layout) (s : list dlang) : result (list rlang) := read_doc (write_doc g s).
