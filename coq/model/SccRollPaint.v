(* Event-level view of the roll-up / paint-on timing of SCCReader (C16), expressed with the stash operations of
   model/SccStash.v. Definitions only.
     roll-up:  _roll_up():  create_and_store(buffer, self.time); self.time = get_time();
                            correct_last_timing(self.time, force=True)          (on CR, mode switch, end of file)
     paint-on: create_and_store(buffer, self.time); self.time = get_time()      (on the next RDC / mode switch);
               at the end of the file the buffer is stored and gets the 4 s default.
   An event carries the instant get_time() returns when it happens; `self.time` is the instant of the previous event
   (initially the instant of the first mode command). The buffer is non-empty at every event (a flush of an empty
   buffer does nothing). *)
From Coq Require Import List ZArith QArith Bool.
From PV Require Import lib.Sx lib.Str lib.Result model.SccStash model.SccPopon.
Import ListNotations.

Inductive rpev : Type :=
| RRoll (t : Q)       (* _roll_up at instant t *)
| RPaint (t : Q).     (* paint-on buffer stored, next caption starts at t *)

Definition rpstep (st : stash * Q) (e : rpev) : stash * Q :=
  let '(s, time) := st in
  match e with
  | RRoll t => (correct_last_timing (stash_extend s [cue time 0]) t, t)
  | RPaint t => (stash_extend s [cue time 0], t)
  end.

(* t0: instant of the first mode command; pending: a paint-on buffer still open at the end of the file *)
Definition rprun (t0 : Q) (evs : list rpev) (pending : bool) : stash :=
  let '(s, time) := fold_left rpstep evs (stash0, t0) in
  if pending then stash_extend s [cue time 0] else s.

Definition rp_read (t0 : Q) (evs : list rpev) (pending : bool) : result (list (Q * Q)) :=
  spans_of (finish_read (rprun t0 evs pending)).

Definition rp_time (e : rpev) : Q := match e with RRoll t => t | RPaint t => t end.

(* the statement's chain: each caption ends exactly when the next begins *)
Fixpoint chain (t0 : Q) (ts : list Q) : list (Q * Q) :=
  match ts with
  | [] => []
  | t :: r => (t0, t) :: chain t r
  end.
