(* C07, wave 7: the document skeleton of the DFXP writers as a STRING RENDERER - what
   `dfxp.prettify(formatter=DFXPOutputFormatter())` (bs4 4.x, XML builder) makes of the tree the writers build:
     <?xml version="1.0" encoding="utf-8"?>
     tt (xml:lang, xmlns, xmlns:tts) > head > (styling > style..., layout > region...), body > div... > p...
   - the prolog line; one element per line, indented by one blank per level; an element without children is written
     as an empty-element tag; the attributes of a tag SORTED by name (Formatter.attributes: sorted(tag.attrs.items()),
     code-point order), each value through DFXPOutputFormatter.attribute_value (saxutils.escape) and bs4's quoting
     rule (attr_out of DfxpXml.v);
   - a <p> has ONE string child, the hand-assembled payload, written raw (entity_substitution=None): its strip()ped
     text on a line of its own, nothing when that is empty (the <p> is then still written with start and end tag).
   The input is the tree as the writer built it (attribute dictionaries in insertion order, payload strings).
   Definitions only. *)
From Coq Require Import List ZArith Bool.
From PV Require Import lib.Sx lib.Str model.DfxpXml.
Import ListNotations.
Open Scope Z_scope.

(* Python's str ordering: lexicographic on code points *)
Fixpoint str_leb (a b : str) : bool :=
  match a, b with
  | [], _ => true
  | _ :: _, [] => false
  | x :: a', y :: b' => if x <? y then true else if y <? x then false else str_leb a' b'
  end.
Fixpoint insert_attr (a : str * str) (l : list (str * str)) : list (str * str) :=
  match l with
  | [] => [a]
  | b :: t => if str_leb (fst a) (fst b) then a :: l else b :: insert_attr a t
  end.
(* sorted(attrs.items()): the keys of a dict are distinct, so the order of equal keys does not matter *)
Definition sort_attrs (l : list (str * str)) : list (str * str) := fold_right insert_attr [] l.

Definition doc_attr (kv : str * str) : str := [32] ++ fst kv ++ [61] ++ attr_out (snd kv).
Definition doc_attrs (attrs : list (str * str)) : str := flat_map doc_attr (sort_attrs attrs).
Definition ind (n : nat) : str := repeat 32 n.

(* an element at nesting level n whose children are already rendered (`inner`) *)
Definition elem (n : nat) (name : str) (attrs : list (str * str)) (inner : str) : str :=
  match inner with
  | [] => ind n ++ [60] ++ name ++ doc_attrs attrs ++ [47; 62; 10]
  | _ => ind n ++ [60] ++ name ++ doc_attrs attrs ++ [62; 10] ++ inner ++ ind n ++ [60; 47] ++ name ++ [62; 10]
  end.

Record skp := mkSkp { kp_attrs : list (str * str); kp_text : str }.
Record skdiv := mkSkdiv { kd_attrs : list (str * str); kd_ps : list skp }.
Record skdoc := mkSkdoc { k_tt : list (str * str); k_styles : list (list (str * str));
                          k_regions : list (list (str * str)); k_divs : list skdiv }.

Definition p_text (t : str) : str := match strip t with [] => [] | s => ind 4 ++ s ++ [10] end.
Definition p_elem (p : skp) : str :=
  ind 3 ++ lit "<p" ++ doc_attrs (kp_attrs p) ++ [62; 10] ++ p_text (kp_text p) ++ ind 3 ++ lit "</p>" ++ [10].

Definition prolog : str := lit "<?xml version=""1.0"" encoding=""utf-8""?>" ++ [10].
Definition head_elem (d : skdoc) : str :=
  elem 1 (lit "head") []
       (elem 2 (lit "styling") [] (flat_map (fun a => elem 3 (lit "style") a []) (k_styles d))
        ++ elem 2 (lit "layout") [] (flat_map (fun a => elem 3 (lit "region") a []) (k_regions d))).
Definition body_elem (d : skdoc) : str :=
  elem 1 (lit "body") []
       (flat_map (fun dv => elem 2 (lit "div") (kd_attrs dv) (flat_map p_elem (kd_ps dv))) (k_divs d)).
Definition dfxp_document (d : skdoc) : str :=
  prolog ++ elem 0 (lit "tt") (k_tt d) (head_elem d ++ body_elem d).

(* ---- the tree the writers build, as far as its attributes are concerned (DFXPWriter.write) ---------------------- *)
Definition ttml_ns : str := lit "http://www.w3.org/ns/ttml".
Definition tts_ns : str := lit "http://www.w3.org/ns/ttml#styling".
(* the root: xmlns / xmlns:tts come from DFXP_BASE_MARKUP, xml:lang is set by write() *)
Definition tt_attrs (lang : str) : list (str * str) :=
  [(lit "xmlns", ttml_ns); (lit "xmlns:tts", tts_ns); (lit "xml:lang", lang)].
