(* Model of pycaption.detect_format and the six Reader.detect methods (C20).
   Mirrors pycaption/__init__.py, srt.py, webvtt.py, microdvd.py, sami.py, dfxp/base.py,
   scc/__init__.py at the repaired tree (SRT sniffer guards the second line). *)
From Coq Require Import List ZArith Bool.
From PV Require Import lib.Sx lib.Str lib.Result model.Generated.
Import ListNotations.
Open Scope Z_scope.

Definition R_DFXP := 0. Definition R_MDVD := 1. Definition R_VTT := 2.
Definition R_SAMI := 3. Definition R_SRT := 4. Definition R_SCC := 5.

(* '</tt>' in content.lower() *)
Definition detect_dfxp (s : str) : result bool := Ok (is_infix (lit "</tt>") (lower s)).

(* re.match(r"{\d+}{\d+}", content): prefix match *)
Definition brace_digits (s : str) : option str :=
  match s with
  | 123 :: t =>
      match take_while is_digit t, drop_while is_digit t with
      | _ :: _, 125 :: rest => Some rest
      | _, _ => None
      end
  | _ => None
  end.
Definition detect_mdvd (s : str) : result bool :=
  Ok (match brace_digits s with
      | Some rest => match brace_digits rest with Some _ => true | None => false end
      | None => false
      end).

Definition detect_vtt (s : str) : result bool := Ok (is_infix (lit "WEBVTT") s).
Definition detect_sami (s : str) : result bool := Ok (is_infix (lit "<sami") (lower s)).

(* lines = content.splitlines(); lines[0].isdigit() and len(lines) > 1 and '-->' in lines[1] *)
Definition detect_srt (s : str) : result bool :=
  match splitlines s with
  | [] => Err IndexError
  | l0 :: rest =>
      if isdigit l0 then
        match rest with
        | [] => Ok false
        | l1 :: _ => Ok (is_infix (lit "-->") l1)
        end
      else Ok false
  end.

(* the pinned (pre-fix) SRT sniffer: lines[1] without a guard *)
Definition detect_srt_prefix (s : str) : result bool :=
  match splitlines s with
  | [] => Err IndexError
  | l0 :: rest =>
      if isdigit l0 then
        match rest with
        | [] => Err IndexError
        | l1 :: _ => Ok (is_infix (lit "-->") l1)
        end
      else Ok false
  end.

Definition detect_scc (s : str) : result bool :=
  match splitlines s with
  | [] => Err IndexError
  | l0 :: _ => Ok (str_eqb l0 scc_header)
  end.

Definition detect_of (r : Z) (s : str) : result bool :=
  match r with
  | 0 => detect_dfxp s | 1 => detect_mdvd s | 2 => detect_vtt s
  | 3 => detect_sami s | 4 => detect_srt s | 5 => detect_scc s
  | _ => Err AttributeError
  end.

Fixpoint first_match (rs : list Z) (s : str) : result (option Z) :=
  match rs with
  | [] => Ok None
  | r :: t => do b <- detect_of r s; if b then Ok (Some r) else first_match t s
  end.

Definition detect_format (s : str) : result (option Z) :=
  match s with
  | [] => Err ENoCaptions
  | _ => first_match supported_readers s
  end.
