(* Model of pycaption.detect_format and the six Reader.detect methods (C20).
   Mirrors pycaption/__init__.py, srt.py, webvtt.py, microdvd.py, sami.py, dfxp/base.py,
   scc/__init__.py at the repaired tree (SRT sniffer guards the second line).
   Constants come from model/Generated.v, regenerated from the working tree on every run:
     supported_readers (SUPPORTED_READERS), scc_header (scc.constants.HEADER),
     dfxp_marker / vtt_marker / sami_marker / srt_arrow (the string literal of each sniffer's code object),
     mdvd_pattern (the regex literal; the matcher below is hand-written for exactly the pattern {\d+}{\d+},
                   props/C20.v re-checks that the generated literal is that pattern),
     isdigit_ranges (str.isdigit), re_digit_ranges (re \d on str), lower_ascii_map (str.lower) of the running Python.
   Unicode: str.isdigit and \d are modelled on ALL code points by the generated range tables.  str.lower is modelled
   as far as the sniffers can see it: they only ask whether an ASCII marker occurs in content.lower(); a code point
   whose lower() contains an ASCII character is mapped exactly (A-Z, U+0130 -> "i" U+0307, U+212A -> "k"), every
   other code point stands for itself (its real lower() is a non-empty string without ASCII characters, so it
   separates the ASCII stretches exactly as it does here; the final-sigma rule only chooses between two non-ASCII
   letters).  design/C20.md, decision 5. *)
From Coq Require Import List ZArith Bool.
From PV Require Import lib.Sx lib.Str lib.Result model.Generated.
Import ListNotations.
Open Scope Z_scope.

Definition R_DFXP := 0. Definition R_MDVD := 1. Definition R_VTT := 2.
Definition R_SAMI := 3. Definition R_SRT := 4. Definition R_SCC := 5.

(* ---- the interpreter's Unicode predicates, from generated tables ------------------------- *)
Definition in_ranges (c : Z) (rs : list (Z * Z)) : bool :=
  existsb (fun r => (fst r <=? c) && (c <=? snd r)) rs.

Definition u_isdigit_ch (c : Z) : bool := in_ranges c isdigit_ranges.
(* str.isdigit(): non-empty and every character is a digit *)
Definition u_isdigit (s : str) : bool :=
  match s with [] => false | _ => forallb u_isdigit_ch s end.
(* re \d on a str pattern *)
Definition re_digit (c : Z) : bool := in_ranges c re_digit_ranges.

Fixpoint assoc (c : Z) (m : list (Z * list Z)) : option (list Z) :=
  match m with
  | [] => None
  | (k, v) :: t => if k =? c then Some v else assoc c t
  end.
Definition u_lower_ch (c : Z) : str :=
  match assoc c lower_ascii_map with Some l => l | None => [c] end.
Definition u_lower (s : str) : str := flat_map u_lower_ch s.

(* ---- the six sniffers ---------------------------------------------------------------------- *)
(* '</tt>' in content.lower() *)
Definition detect_dfxp (s : str) : result bool := Ok (is_infix dfxp_marker (u_lower s)).

(* re.match(r"{\d+}{\d+}", content): prefix match *)
Definition brace_digits (s : str) : option str :=
  match s with
  | 123 :: t =>
      match take_while re_digit t, drop_while re_digit t with
      | _ :: _, 125 :: rest => Some rest
      | _, _ => None
      end
  | _ => None
  end.
Definition detect_mdvd (s : str) : result bool :=
  Ok (match brace_digits s with
      | Some rest => match brace_digits rest with Some _ => true | None => false end
      | None => false
      end).

(* "WEBVTT" in content *)
Definition detect_vtt (s : str) : result bool := Ok (is_infix vtt_marker s).
(* '<sami' in content.lower() *)
Definition detect_sami (s : str) : result bool := Ok (is_infix sami_marker (u_lower s)).

(* lines = content.splitlines(); lines[0].isdigit() and len(lines) > 1 and '-->' in lines[1] *)
Definition detect_srt (s : str) : result bool :=
  match splitlines s with
  | [] => Err IndexError
  | l0 :: rest =>
      if u_isdigit l0 then
        match rest with
        | [] => Ok false
        | l1 :: _ => Ok (is_infix srt_arrow l1)
        end
      else Ok false
  end.

(* lines = content.splitlines(); lines[0] == HEADER *)
Definition detect_scc (s : str) : result bool :=
  match splitlines s with
  | [] => Err IndexError
  | l0 :: _ => Ok (str_eqb l0 scc_header)
  end.

Definition detect_of (r : Z) (s : str) : result bool :=
  match r with
  | 0 => detect_dfxp s | 1 => detect_mdvd s | 2 => detect_vtt s
  | 3 => detect_sami s | 4 => detect_srt s | 5 => detect_scc s
  | _ => Err AttributeError
  end.

(* for reader in SUPPORTED_READERS: if reader().detect(caps): return reader *)
Fixpoint first_match (rs : list Z) (s : str) : result (option Z) :=
  match rs with
  | [] => Ok None
  | r :: t => do b <- detect_of r s; if b then Ok (Some r) else first_match t s
  end.

(* if not len(caps): raise CaptionReadNoCaptions *)
Definition detect_format (s : str) : result (option Z) :=
  match s with
  | [] => Err ENoCaptions
  | _ => first_match supported_readers s
  end.

(* HISTORY ONLY - mirrors nothing in the current tree: the SRT sniffer as pinned before fix e1d5b58
   (lines[1] read without a guard); kept for the recorded refutation C20_srt_detect_index_refuted. *)
Definition detect_srt_prefix (s : str) : result bool :=
  match splitlines s with
  | [] => Err IndexError
  | l0 :: rest =>
      if u_isdigit l0 then
        match rest with
        | [] => Err IndexError
        | l1 :: _ => Ok (is_infix srt_arrow l1)
        end
      else Ok false
  end.
