(* C17, wave 2: the writer model composed with builder sccr's full SCC reader model (model/SccDecoder.v `read`).
   The composition goes through the DOCUMENT, like the real pipeline: the text produced by model.SccWrite.write is
   split into timecoded lines of words by the specification's document parser (spec.SpecSccw.parse_document, which
   stands for the reader's line regexp and word splitting) and handed to the reader model.  Definitions only. *)
From Coq Require Import List ZArith QArith Bool.
From PV Require Import lib.Sx lib.Str lib.Result.
From PV Require Import model.SccWrap model.SccWrite spec.SpecSccw model.SccStash model.SccDecoder.
Import ListNotations.
Open Scope Z_scope.

Definition word_z (w : Z * Z) : Z := fst w * 256 + snd w.

(* a parsed line (frame number, words) as the reader model's line (timecode text, 16-bit words) *)
Definition to_sline (l : Z * list (Z * Z)) : sline := (format_frames (fst l), map word_z (snd l)).

Inductive reread_result :=
| RRWriteError (e : err)          (* the writer model raised *)
| RRNotADocument                  (* the writer's text is not header + timecoded lines of 4-hex-digit words *)
| RRRead (r : read_result).       (* what the reader model returns for it *)

Definition reread (caps : list wcap) : reread_result :=
  match write caps with
  | Err e => RRWriteError e
  | Ok doc =>
      match parse_document doc with
      | None => RRNotADocument
      | Some lines => RRRead (read 0 (map to_sline lines))
      end
  end.

(* the observation the property talks about: per caption, start (microseconds) and text *)
Definition reread_obs (caps : list wcap) : option (list (Q * str)) :=
  match reread caps with
  | RRRead (ROk pcs) => Some (map (fun c => (pc_start c, strip (cap_text c))) pcs)
  | _ => None
  end.

(* the composition property, as a decidable check: one caption per cue, same words, shown within 3 frames *)
Definition roundtrip_ok (caps : list wcap) : bool :=
  match reread_obs caps with
  | Some obs => ok_reread (map (fun c => mkCue (w_text c) (w_start c) (w_end c)) caps) obs =? 0
  | None => false
  end.
